"""C14 -- timeouts cancel cooperatively; every job ends in a terminal status.

L2 (serial backend, virtual clock): evaluator-level op scripts (timeout / submit / gather ALL|BATCH / close, more
    jobs than workers so that jobs are still queued at expiry) and sequences of search() calls, run on the real
    code with a status-logging Storage and run-functions that poll `job.status`; the observed environment (which
    finished jobs each gather reported, in which order) is replayed by `Model/Timeout.lean`; compared: every
    job's sequence of status writes, its start / return tick, whether its last read was CANCELLING, its output,
    the order of `jobs_done` / the rows of the table, the virtual time after every op.
    (thread / process backends, real time: the per-job part of the model (`jAcquire/jReturn/jOnDone`) is replayed
    on the observed start and deadline of every job that is >= 0.25 s away from a tie.)
L3: the property itself on the observations: status sequences only move forward; a job whose run finished
    strictly before the deadline is DONE and never read CANCELLING; a job still running at the deadline reads
    CANCELLING, its value is kept and it is CANCELLED (exact ties: either); no timeout in effect => DONE; after
    search() returns every submitted job is in the table exactly once with a terminal status, and search() returns
    no later than the last of its evaluations.
Evaluators created with callbacks (logger, progress bar, SearchEarlyStopping, a user's callback with `search_stopped`):
    L2 against the model's loop with the explicit `stopped` flag (`Model/StopFlag.lean`, fed with what `_search` saw of
    each callback at the end of every iteration); L3 clause `keeps-submitting-after-expiry` (all search-level scenarios):
    no ask() of a timed call after a tell() of that call that took place at/after the call's deadline.
Several SEARCHES recorded in one storage object (evaluators created with the same `storage=` and no `search_id`: jobs
    "0.k" and "1.k" coexist): jobs are identified by their full id; the recording storage logs every status write AND
    read; L2 against `Model/MultiSearch.lean` (driver op `store`: jobs keyed by (search, index), one clock); L3 per search
    (verified checker + oracle on that search's own jobs, tables and timeouts) plus the cross-search clauses
    `observed-status-not-monotone` (merged reads and writes of each full id only move forward) and
    `search-job-list-wrong`; histories with turns (serial, thread), concurrent calls (thread), interleaved
    evaluator-level scripts (serial).
"""
import asyncio
import json
import math
import os
import shutil
import tempfile
import logging
import threading
import time as _time

from . import common
from .common import HarnessError

TICK = 1.0
ST = {"READY": 0, "RUNNING": 1, "DONE": 2, "CANCELLING": 3, "CANCELLED": 4}
ALLOWED_LOGS = [[0], [0, 1], [0, 1, 2], [0, 1, 3], [0, 1, 3, 4], [0, 4], [0, 1, 4]]

_G = {"specs": [], "runlog": {}, "clock": None, "lock": threading.Lock(), "hpo": False, "unit": 1.0, "voff": 0, "vmode": "up"}
VTOP = 1000


def _tick(x):
    return int(math.floor(x / TICK + 1e-9))


def _value(jid, voff, vmode):
    """the value of job `jid`: `jid + voff` (increasing: every evaluation improves; voff = 0 makes the objective of
    job 0 exactly 0.0) or, vmode "down", `VTOP - jid` (decreasing: no evaluation after the first improves, which is what
    makes an early-stopping callback fire); distinct per job either way"""
    return float(VTOP - jid) if vmode == "down" else float(jid + voff)


def _expected(scn, i):
    return _value(i, int(scn.get("voff", 0)), scn.get("vmode", "up"))


def _out(jid, meta):
    v = _value(jid, _G["voff"], _G["vmode"])
    if _G["hpo"]:
        return {"objective": v, "metadata": meta}
    return {"output": v, "metadata": meta}


async def _run_async(job):
    """serial backend: reads the status when it starts and after each of m sleeps of p ticks; returns as soon as
    it reads CANCELLING"""
    jid = job["job_id"]
    sp = _G["specs"]
    m, p = sp[jid] if jid < len(sp) else (0, 1)
    clock = _G["clock"]
    rec = {"start": clock(), "reads": []}
    k = 0
    while True:
        st = job.status.name
        rec["reads"].append((clock(), st))
        if st == "CANCELLING" or k >= m:
            break
        k += 1
        await asyncio.sleep(p * TICK)
    rec["ret"] = clock()
    _G["runlog"][jid] = rec
    return _out(jid, {})


def _run_sync(job):
    """thread / process backends (real time): runs `m*p*unit` seconds, polling every `p*unit` seconds"""
    jid = job["job_id"]
    sp = _G["specs"]
    m, p = sp[jid] if jid < len(sp) else (0, 1)
    unit = _G["unit"]
    t0 = _time.time()
    reads = []
    k = 0
    while True:
        st = job.status.name
        reads.append(st)
        if st == "CANCELLING" or k >= m:
            break
        k += 1
        _time.sleep(p * unit)
    meta = {"t_start": t0, "t_ret": _time.time(), "saw": reads[-1] == "CANCELLING", "nreads": len(reads)}
    with _G["lock"]:
        _G["runlog"][jid] = {"start": t0, "ret": meta["t_ret"], "reads": [(0, r) for r in reads]}
    return _out(jid, meta)


SPIN_LIMIT = 2000


class _Spin(RuntimeError):
    """the caller polls the storage again and again while nothing changes in it: search() does not return"""


class _LateSubmits(RuntimeError):
    """search() keeps asking for / submitting new evaluations although a gather of the call had already ended at or
    after the call's deadline (the run is cut short after LATE_ASK_LIMIT of them)"""


ASK_LIMIT = 60  # scenarios with callbacks: a call makes at most max(n, t + 2) asks (every evaluation takes >= 1 tick)
LATE_ASK_LIMIT = 12


class _UserCallback:
    """a user's own callback (deliberately not a subclass of deephyper's Callback): exposes `search_stopped`, raises it
    once `after` evaluations have been gathered (`None`: never)"""

    def __init__(self, after=None):
        self.after = after
        self.n = 0
        self.search_stopped = False

    def on_launch(self, job):
        pass

    def on_done(self, job):
        self.n += 1
        if self.after is not None and self.n >= self.after:
            self.search_stopped = True

    def on_done_other(self, job):
        self.on_done(job)


def _make_callbacks(descs):
    """`cbs` of a scenario -> callback objects: "logger", "tqdm", ["es", patience], ["user", after | None]"""
    from deephyper.evaluator.callback import LoggerCallback, SearchEarlyStopping, TqdmCallback

    out = []
    for d in descs or []:
        kind = d if isinstance(d, str) else d[0]
        if kind == "logger":
            out.append(LoggerCallback())
        elif kind == "tqdm":
            out.append(TqdmCallback())
        elif kind == "es":
            out.append(SearchEarlyStopping(patience=int(d[1]), verbose=0))
        elif kind == "user":
            out.append(_UserCallback(d[1]))
        else:
            raise HarnessError(f"unknown callback descriptor {d!r}")
    return out


def _cb_names(descs):
    names = {"logger": "logger", "tqdm": "tqdm", "es": "early-stopping", "user": "user"}
    return "+".join(sorted({names[d if isinstance(d, str) else d[0]] for d in descs or []}))


def _flags_diff(diff, key, rec, mo, dl):
    """the `stopped` flag through the iterations of one call (Model/StopFlag.lean) vs the observations: as many completed
    iterations as tells; the flag each iteration started with = `search.stopped` when its ask() began; "time budget
    exhausted" at the end of an iteration = the tell took place at/after the deadline (ticks); the flag at the end"""
    fl = mo.get("flags")
    if fl is None or "tells" not in rec:
        return
    if len(fl) != len(rec["tells"]):
        diff[f"{key}.iterations"] = (len(rec["tells"]), len(fl))
        return
    if [f[0] for f in fl] != [a[1] for a in rec["asks"][:len(fl)]]:
        diff[f"{key}.flag_at_loop_head"] = ([a[1] for a in rec["asks"]], [f[0] for f in fl])
    exp = [dl is not None and _tick(tl) >= _tick(dl) for tl in rec["tells"]]
    if [f[1] for f in fl] != exp:
        diff[f"{key}.expired_per_iteration"] = (exp, [f[1] for f in fl])
    if fl and mo["stop"] in ("budget", "timeout") and fl[-1][3] != rec["stopped"]:
        diff[f"{key}.flag_at_the_end"] = (rec["stopped"], fl[-1][3])


def _late_detail(c, rec, serial, z):
    """clause (S) for one returned call: detail of the violation, or None"""
    if c.get("t") is None or "asks" not in rec:
        return None
    dl_hi, late = _late_asks(rec["asks"], rec["tells"], c["t"] * (TICK if serial else 1.0))
    if not late:
        return None
    return {"deadline_not_later_than": round(dl_hi - z, 4), "tells": [round(x - z, 4) for x in rec["tells"]],
            "asks_after_the_expiry_was_observable": [round(a[0] - z, 4) for a in late], "asks": len(rec["asks"])}


def _late_asks(asks, tells, t_units):
    """the asks of one search() call made after a tell of that call which took place at or after the call's deadline
    (the `time_left <= 0` test that follows the tell reads a clock that is not earlier): -> (deadline_hi, late asks).
    `deadline_hi` = the instant of the call's first ask + the time budget: the evaluator's deadline (budget counted from
    the assignment of `evaluator.timeout`, which precedes the first ask) is not later than that."""
    if t_units is None or not asks:
        return None, []
    dl_hi = asks[0][0] + t_units
    seen = next((k for k, tl in enumerate(tells) if tl >= dl_hi), None)
    if seen is None:
        return dl_hi, []
    return dl_hi, list(asks[seen + 1:])  # ask k+1 follows tell k


def _log_storage(guard=False):
    """MemoryStorage that logs every status write.  `guard`: count the consecutive `load_all_job_ids` calls with
    no write to the storage in between; SPIN_LIMIT of them = the caller's `while num_jobs_submitted >
    num_jobs_gathered: gather("ALL")` loop makes no progress (a statement about progress, not about a duration)"""
    from deephyper.evaluator.storage import MemoryStorage

    class LogStorage(MemoryStorage):
        def __init__(self):
            super().__init__()
            self.slog = []
            self.polls = 0

        def store_job_status(self, job_id, job_status):
            self.slog.append((int(str(job_id).split(".")[-1]), int(job_status)))
            return super().store_job_status(job_id, job_status)

        def store_job(self, job_id, key, value):
            self.polls = 0
            return super().store_job(job_id, key, value)

        def create_new_job(self, search_id):
            self.polls = 0
            return super().create_new_job(search_id)

        def load_all_job_ids(self, search_id):
            if guard:
                self.polls += 1
                if self.polls > SPIN_LIMIT:
                    raise _Spin("does-not-return: the storage was polled %d times in a row without any write" % SPIN_LIMIT)
            return super().load_all_job_ids(search_id)

    return LogStorage()


def _unwrap(inner):
    return inner


class _LogProxy:
    """process backend: wraps the manager proxy of SharedMemoryStorage in the main process (every status write is made
    there, by execute() / _on_done / close / gather_other_jobs_done); worker processes receive the bare proxy"""

    def __init__(self, inner):
        self._inner = inner
        self.slog = []
        self.polls = 0

    def store_job_status(self, job_id, job_status):
        self.polls = 0
        self.slog.append((int(str(job_id).split(".")[-1]), int(job_status)))
        return self._inner.store_job_status(job_id, job_status)

    def store_job_out(self, job_id, value):
        self.polls = 0
        return self._inner.store_job_out(job_id, value)

    def create_new_job(self, search_id):
        self.polls = 0
        return self._inner.create_new_job(search_id)

    def load_all_job_ids(self, search_id):
        self.polls += 1
        if self.polls > SPIN_LIMIT:
            raise _Spin("does-not-return: the storage was polled %d times in a row without any write" % SPIN_LIMIT)
        return self._inner.load_all_job_ids(search_id)

    def __getattr__(self, k):
        if k in ("_inner", "slog", "polls"):
            raise AttributeError(k)
        return getattr(self._inner, k)

    def __reduce__(self):
        return (_unwrap, (self._inner,))


def _jid(job):
    return int(str(job.id).split(".")[-1])


# --------------------------------------------------------------------------- running scenarios on the real code


def _settle(ev):
    """let everything that is due at the current virtual instant happen (no time passes); the model has the same
    op (`settle`).  Returns whether a loop existed."""
    loop = getattr(ev, "loop", None)
    if loop is None or loop.is_closed():
        return False
    for _ in range(12):
        loop.run_until_complete(asyncio.sleep(0))
    return True


def run_evaluator_scenario(scn):
    """op script on a real serial Evaluator under the virtual loop"""
    from deephyper.evaluator import Evaluator
    from . import vloop

    vloop.QUANTUM = 1e-4
    vt = vloop.install()
    vt.reset()
    hpo = bool(scn.get("hpo"))
    _G.update(voff=int(scn.get("voff", 0)), specs=[tuple(s) for s in scn["specs"]], runlog={}, clock=vt.now, hpo=hpo)
    st = _log_storage()
    ev = Evaluator.create(_run_async, method="serial", method_kwargs={"num_workers": scn["W"], "storage": st})
    tmp = None
    if hpo:
        # a Search built around the evaluator makes its jobs HPOJobs (close() then reports "F_CANCELLED"); the
        # evaluator is still driven by hand, as in a manual ask/tell loop
        from deephyper.hpo import HpProblem, RandomSearch

        problem = HpProblem()
        problem.add_hyperparameter((0.0, 10.0), "x")
        tmp = tempfile.mkdtemp(prefix="c14_")
        RandomSearch(problem, ev, random_state=1, log_dir=tmp)
    obs = {"ops": [], "error": None, "timeline": []}
    nsub = 0
    try:
        for op in scn["ops"]:
            kind = op["op"]
            rec = {"op": kind}
            if kind == "timeout":
                ev.timeout = op["t"]
                obs["timeline"].append((vt.now(), None if op["t"] is None else vt.now() + op["t"] * TICK))
                rec["t"] = op["t"]
            elif kind == "submit":
                ev.submit([{"x": nsub + i} for i in range(op["k"])])
                nsub += op["k"]
                rec["k"] = op["k"]
            elif kind == "gather":
                try:
                    res = ev.gather("ALL") if op["all"] else ev.gather("BATCH", op["size"])
                    rec.update(all=op["all"], size=op.get("size", 0), rep=[_jid(j) for j in res], err=None)
                except ValueError as e:
                    rec.update(all=op["all"], size=op.get("size", 0), rep=[], err="noJobs" if "No jobs pending" in str(e) else str(e))
            elif kind == "close":
                if op.get("settle", True) and _settle(ev):
                    obs["ops"].append({"op": "settle", "now": _tick(vt.now())})
                before = len(ev.jobs_done)
                ev.close()
                rec.update(new=[_jid(j) for j in ev.jobs_done[before:]], err=None)
            elif kind == "busy":
                # the caller is busy: time passes while the evaluator's loop is not running
                b0 = vt.now()
                vt.t += op["d"] * TICK
                obs.setdefault("busy", []).append((b0, vt.now()))
                rec["d"] = op["d"]
            rec["now"] = _tick(vt.now())
            obs["ops"].append(rec)
        if _settle(ev):
            obs["ops"].append({"op": "settle", "now": _tick(vt.now())})
    except RuntimeError as e:
        obs["error"] = f"RuntimeError: {e}"[:200]
    def _o(j):
        o = j.output
        return o["objective"] if isinstance(o, dict) and "objective" in o else o

    obs["results"] = [(_jid(j), j.status.name, _o(j)) for j in ev.jobs_done]
    obs["final"] = {_jid(j): j.status.name for j in ev.jobs}
    obs["slog"] = list(st.slog)
    obs["runlog"] = {k: dict(v) for k, v in _G["runlog"].items()}
    obs["nsub"] = nsub
    try:
        ev.close()
    except Exception:
        pass
    if tmp:
        shutil.rmtree(tmp, ignore_errors=True)
    return obs


def run_evaluator_realtime(scn):
    """op script (timeout / submit / gather ALL / close) on a real thread or process Evaluator, real time"""
    from deephyper.evaluator import Evaluator
    from . import vloop

    vloop.uninstall()
    backend = scn["backend"]
    _G.update(voff=int(scn.get("voff", 0)), specs=[tuple(s) for s in scn["specs"]], runlog={}, clock=_time.time, hpo=False, unit=scn["unit"])
    mk = {"num_workers": scn["W"]}
    st = None
    if backend == "thread":
        st = _log_storage()
        mk["storage"] = st
    ev = Evaluator.create(_run_sync, method=backend, method_kwargs=mk)
    obs = {"ops": [], "error": None, "timeline": []}
    nsub = 0
    gathered = []
    try:
        for op in scn["ops"]:
            kind = op["op"]
            rec = {"op": kind, "now": None}
            if kind == "timeout":
                t0 = _time.time()
                ev.timeout = op["t"]
                obs["timeline"].append((t0, None if op["t"] is None else t0 + op["t"]))
                rec["t"] = op["t"]
            elif kind == "submit":
                ev.submit([{"x": nsub + i} for i in range(op["k"])])
                nsub += op["k"]
                rec["k"] = op["k"]
            elif kind == "gather":
                res = ev.gather("ALL") if op["all"] else ev.gather("BATCH", op["size"])
                gathered += list(res)
                rec.update(all=op["all"], size=op.get("size", 0), rep=[_jid(j) for j in res], err=None)
            elif kind == "close":
                before = len(ev.jobs_done)
                ev.close()
                rec.update(new=[_jid(j) for j in ev.jobs_done[before:]], err=None)
            elif kind == "busy":
                # the caller is busy until `until` seconds after the timeout was set: the loop does not run
                b0 = _time.time()
                target = obs["timeline"][-1][0] + op["until"]
                while _time.time() < target:
                    _time.sleep(min(0.05, max(0.0, target - _time.time())))
                obs.setdefault("busy", []).append((b0, _time.time()))
                rec["until"] = op["until"]
            obs["ops"].append(rec)
    except Exception as e:
        obs["error"] = f"{type(e).__name__}: {e}"[:300]
    obs["results"] = [(_jid(j), j.status.name, j.output) for j in ev.jobs_done]
    obs["final"] = {_jid(j): j.status.name for j in ev.jobs}
    obs["slog"] = list(st.slog) if st is not None else None
    obs["runlog"] = {k: dict(v) for k, v in _G["runlog"].items()}
    if backend == "process":
        for j in gathered:  # the run-functions ran in worker processes: their observations come back as metadata
            md = j.metadata
            if "t_start" in md:
                obs["runlog"][_jid(j)] = {"start": float(md["t_start"]), "ret": float(md["t_ret"]),
                                          "reads": [(0, "CANCELLING" if md.get("saw") else "RUNNING")]}
    obs["nsub"] = nsub
    try:
        ev.close()
    except Exception:
        pass
    if hasattr(ev, "executor"):
        try:
            ev.executor.shutdown(wait=False, cancel_futures=True)
        except Exception:
            pass
    return obs


def _make_search(ev, log_dir, trace, clock, advance, cbs=(), guard=False):
    from deephyper.hpo import HpProblem, RandomSearch

    problem = HpProblem()
    problem.add_hyperparameter((0.0, 10.0), "x")

    class Spy(RandomSearch):
        ask_delays = []  # environment: how long each ask() of the current call takes (serial: virtual ticks)

        ask_ends = []  # the instants at which the slow asks of the current call ended

        call_budget = None  # the time budget of the current call, in units of `clock`
        asks = []  # per ask of the current call: (instant it began, `search.stopped` as the while condition read it)
        tells = []  # per tell of the current call: the instant

        def ask(self, n=1):
            self.asks.append((clock(), bool(self.stopped)))
            if guard:
                if len(self.asks) > ASK_LIMIT:
                    raise _Spin("does-not-return: more than %d asks in one search() call" % ASK_LIMIT)
                dl_hi, late = _late_asks(self.asks, self.tells, self.call_budget)
                if len(late) > LATE_ASK_LIMIT:
                    raise _LateSubmits("keeps-submitting-after-expiry: %d asks after a gather of the call had ended at/after "
                                       "its deadline (run cut short)" % len(late))
            d = self.ask_delays.pop(0) if self.ask_delays else 0
            if d:
                advance(d)
                self.ask_ends.append(clock())
            return super().ask(n)

        def tell(self, results):
            # what `_search` is about to see of the callbacks (nothing runs between this tell and its two tests)
            views = [getattr(cb, "search_stopped", None) for cb in cbs]
            self.tells.append(clock())
            trace.append(("tell", [_jid(j) for j in results], clock(), views))
            return super().tell(results)

    return Spy(problem, ev, random_state=3, log_dir=log_dir)


def call_kwargs(c):
    kw = {}
    if c.get("n") is not None:
        kw["max_evals"] = c["n"]
    if c.get("strict"):
        kw["max_evals_strict"] = True
    if c.get("t") is not None:
        kw["timeout"] = c["t"]
    return kw


def call_kind(c):
    k = ("S" if c.get("strict") else "P") if c.get("n") is not None else ""
    if c.get("t") is not None:
        k = {"": "T", "P": "B", "S": "Q"}[k]
    return k


def run_search_scenario(scn):
    """sequence of search() calls; backend serial (virtual clock) or thread / process (real time)"""
    from deephyper.evaluator import Evaluator
    from . import vloop

    import contextlib
    import io

    backend = scn["backend"]
    serial = backend == "serial"
    log_dir = tempfile.mkdtemp(prefix="c14_")
    trace = []
    obs = {"calls": [], "error": None, "timeline": []}
    st = None
    poll = {"stop": False, "samples": {}}
    with_cbs = scn.get("cbs") is not None
    try:
        if serial:
            vloop.QUANTUM = 1e-4
            vt = vloop.install()
            vt.reset()
            clock = vt.now
            unit = TICK
            run = _run_async

            def advance(d):  # a slow ask(): the virtual clock moves while nothing else happens
                vt.t += d * TICK
        else:
            vloop.uninstall()
            clock = _time.time
            unit = scn["unit"]
            run = _run_sync

            def advance(d):
                _time.sleep(d * unit)
        _G.update(voff=int(scn.get("voff", 0)), vmode=scn.get("vmode", "up"), specs=[tuple(s) for s in scn["specs"]],
                  runlog={}, clock=clock, hpo=True, unit=unit)
        mk = {"num_workers": scn["W"]}
        if backend != "process":
            st = _log_storage()
            mk["storage"] = st
        cbs = _make_callbacks(scn.get("cbs"))
        if with_cbs:
            mk["callbacks"] = cbs  # an option of every evaluator; the objects live as long as the evaluator
        ev = Evaluator.create(run, method=backend, method_kwargs=mk)
        search = _make_search(ev, log_dir, trace, clock, advance, cbs=cbs, guard=with_cbs)
        nrows = 0
        for c in scn["calls"]:
            del trace[:]
            T0 = clock()
            obs["timeline"].append((T0, None if c.get("t") is None else T0 + c["t"] * (TICK if serial else 1.0)))
            rec = {}
            search.ask_delays = list(c.get("delays") or [])
            search.asks, search.tells = [], []
            search.call_budget = None if c.get("t") is None else c["t"] * (TICK if serial else 1.0)
            try:
                # LoggerCallback prints, TqdmCallback draws on stderr
                with contextlib.redirect_stdout(io.StringIO()), contextlib.redirect_stderr(io.StringIO()):
                    df = search.search(**call_kwargs(c))
            except (_Spin, _LateSubmits) as e:
                obs["error"] = str(e)
                obs["error_call"] = len(obs["calls"])
                obs["error_asks"] = [list(a) for a in search.asks]
                obs["error_tells"] = list(search.tells)
                break
            except RuntimeError as e:
                if "vloop" in str(e):
                    obs["error"] = "does-not-return"
                    break
                raise
            rec["end"] = clock()
            rec["asks"] = [list(a) for a in search.asks]
            rec["tells"] = list(search.tells)
            rec["views"] = [x[3] for x in trace]
            rec["stopped"] = bool(search.stopped)
            rows = []
            if df is not None:
                for _, r in df.iterrows():
                    row = {"id": int(r["job_id"]), "status": str(r["job_status"]), "objective": r["objective"]}
                    for col in ("m:t_start", "m:t_ret", "m:saw"):
                        if col in df.columns:
                            row[col[2:]] = r[col]
                    rows.append(row)
            rec["rows"] = rows
            rec["reps"] = [x[1] for x in trace]
            told = sum(len(x) for x in rec["reps"])
            rec["drain"] = [r["id"] for r in rows[nrows + told:]]
            rec["new_rows"] = len(rows) - nrows
            nrows = len(rows)
            rec["now"] = _tick(clock()) if serial else None
            obs["calls"].append(rec)
        obs["slog"] = list(st.slog) if st is not None else None
        obs["runlog"] = {k: dict(v) for k, v in _G["runlog"].items()}
        if backend == "process" and obs["calls"]:
            # the run-functions ran in worker processes: what they observed comes back as metadata columns
            for r in obs["calls"][-1]["rows"]:
                if "t_start" in r and r["t_start"] == r["t_start"]:
                    saw = str(r.get("saw")) == "True"
                    obs["runlog"][r["id"]] = {"start": float(r["t_start"]), "ret": float(r["t_ret"]),
                                              "reads": [(0, "CANCELLING" if saw else "RUNNING")]}
        try:
            ev.close()
        except Exception:
            pass
        if hasattr(ev, "executor"):
            try:
                ev.executor.shutdown(wait=False, cancel_futures=True)
            except Exception:
                pass
    except Exception as e:
        obs["error"] = f"{type(e).__name__}: {e}"[:300]
        obs.setdefault("slog", list(st.slog) if st is not None else None)
        obs.setdefault("runlog", {k: dict(v) for k, v in _G["runlog"].items()})
    finally:
        shutil.rmtree(log_dir, ignore_errors=True)
    return obs


def run_shared_scenario(scn):
    """a history of search() calls made by SEVERAL evaluators attached to one storage and one search_id (evaluator 0
    creates the search, the others are created with `storage=<the same>, search_id=<its id>`: they continue it and
    collect its finished jobs through `gather_other_jobs_done`); call j is made by evaluator `calls[j]["k"]`.
    Backend serial (virtual clock) or thread / process (real time).  Every status write to the shared storage is
    logged, whoever makes it."""
    import contextlib
    import io
    from deephyper.evaluator import Evaluator
    from . import vloop

    backend = scn["backend"]
    serial = backend == "serial"
    root = tempfile.mkdtemp(prefix="c14_")
    obs = {"calls": [], "error": None, "timeline": [], "owner": {}}
    st = None
    evs = []
    try:
        if serial:
            vloop.QUANTUM = 1e-4
            vt = vloop.install()
            vt.reset()
            clock = vt.now
            unit = TICK
            run = _run_async

            def advance(d):
                vt.t += d * TICK
        else:
            vloop.uninstall()
            clock = _time.time
            unit = scn["unit"]
            run = _run_sync

            def advance(d):
                _time.sleep(d * unit)
        _G.update(voff=int(scn.get("voff", 0)), vmode=scn.get("vmode", "up"), specs=[tuple(s) for s in scn["specs"]], runlog={},
                  clock=clock, hpo=True, unit=unit)
        if backend == "process":
            from deephyper.evaluator.storage import SharedMemoryStorage

            st = _LogProxy(SharedMemoryStorage())
        else:
            st = _log_storage(guard=True)
        searches, traces, nrows = [], [], []
        search_id = None
        for k, W in enumerate(scn["Ws"]):
            mk = {"num_workers": W, "storage": st}
            if k > 0:
                mk["search_id"] = search_id
            cbs_k = _make_callbacks((scn.get("cbs") or [])[k] if k < len(scn.get("cbs") or []) else None)
            if scn.get("cbs") is not None:
                mk["callbacks"] = cbs_k
            ev = Evaluator.create(run, method=backend, method_kwargs=mk)
            evs.append(ev)
            tr = []
            sr = _make_search(ev, os.path.join(root, f"e{k}"), tr, clock, advance, cbs=cbs_k, guard=scn.get("cbs") is not None)
            if k == 0:
                search_id = sr.search_id
            searches.append(sr)
            traces.append(tr)
            nrows.append(0)
        for c in scn["calls"]:
            k = c["k"]
            search, trace = searches[k], traces[k]
            del trace[:]
            n0 = len(st.load_all_job_ids(search_id))
            T0 = clock()
            obs["timeline"].append((T0, None if c.get("t") is None else T0 + c["t"] * (TICK if serial else 1.0)))
            rec = {"k": k, "n0": n0}
            search.ask_delays = list(c.get("delays") or [])
            search.ask_ends = []
            search.asks, search.tells = [], []
            search.call_budget = None if c.get("t") is None else c["t"] * (TICK if serial else 1.0)
            try:
                # gather_other_jobs_done prints the jobs it loads; LoggerCallback prints, TqdmCallback draws on stderr
                with contextlib.redirect_stdout(io.StringIO()), contextlib.redirect_stderr(io.StringIO()):
                    df = search.search(**call_kwargs(c))
            except (_Spin, _LateSubmits) as e:
                obs["error"] = str(e)
                obs["error_call"] = len(obs["calls"])
                obs["error_asks"] = [list(a) for a in search.asks]
                obs["error_tells"] = list(search.tells)
                break
            except RuntimeError as e:
                if "vloop" in str(e):
                    obs["error"] = "does-not-return"
                    obs["error_call"] = len(obs["calls"])
                    break
                raise
            rec["end"] = clock()
            rec["ask_ends"] = list(search.ask_ends)
            rec["stopped"] = bool(search.stopped)
            rec["asks"] = [list(a) for a in search.asks]
            rec["tells"] = list(search.tells)
            rec["views"] = [x[3] for x in trace]
            n1 = len(st.load_all_job_ids(search_id))
            for i in range(n0, n1):
                obs["owner"][i] = k
            rec["njobs"] = n1
            rows = []
            if df is not None:
                for _, r in df.iterrows():
                    rows.append({"id": int(r["job_id"]), "status": str(r["job_status"]), "objective": r["objective"]})
            rec["rows"] = rows
            told = [x[1] for x in trace]
            # a returned search() leaves nothing in flight, so the jobs this call reports are its own new ones
            # (ids >= n0: local results) or jobs of the storage it had not collected yet (ids < n0: other results)
            split = lambda ids: [[i for i in ids if i >= n0], [i for i in ids if i < n0]]
            rec["reps"] = [split(ids) for ids in told]
            ntold = sum(len(x) for x in told)
            rec["drain"] = split([r["id"] for r in rows[nrows[k] + ntold:]])
            rec["new_rows"] = len(rows) - nrows[k]
            nrows[k] = len(rows)
            rec["now"] = _tick(clock()) if serial else None
            rec["slog_len"] = len(st.slog)
            obs["calls"].append(rec)
        obs["slog"] = list(st.slog)
        obs["runlog"] = {k: dict(v) for k, v in _G["runlog"].items()}
        try:
            ids = st.load_all_job_ids(search_id)
            obs["final_storage"] = {int(str(j).split(".")[-1]): int(st.load_job_status(j)) for j in ids}
        except Exception:
            obs["final_storage"] = {}
        if backend == "process":
            # the run-functions ran in worker processes: what they observed comes back as metadata in the storage
            try:
                for jid, data in st.load_jobs(st.load_all_job_ids(search_id)).items():
                    md = (data or {}).get("metadata") or {}
                    if "t_start" in md:
                        obs["runlog"][int(str(jid).split(".")[-1])] = {
                            "start": float(md["t_start"]), "ret": float(md["t_ret"]),
                            "reads": [(0, "CANCELLING" if md.get("saw") else "RUNNING")]}
            except Exception:
                pass
    except Exception as e:
        obs["error"] = f"{type(e).__name__}: {e}"[:300]
        obs.setdefault("slog", list(st.slog) if st is not None else None)
        obs.setdefault("runlog", {k: dict(v) for k, v in _G["runlog"].items()})
    finally:
        for ev in evs:
            try:
                ev.close()
            except Exception:
                pass
            if hasattr(ev, "executor"):
                try:
                    ev.executor.shutdown(wait=False, cancel_futures=True)
                except Exception:
                    pass
        shutil.rmtree(root, ignore_errors=True)
    return obs


def run_shared_evaluator_scenario(scn):
    """op script on SEVERAL real serial evaluators attached to one storage and one search_id, under the virtual loop; every
    op names the evaluator that performs it (`e`).  The evaluators hold HPO jobs (a Search is built around each), so
    `_on_done` stores the outputs and the other evaluators can collect them: `gather()` then returns
    `(local, other)`; op `other` = a direct `gather_other_jobs_done()`."""
    import contextlib
    import io
    from deephyper.evaluator import Evaluator
    from deephyper.hpo import HpProblem, RandomSearch
    from . import vloop

    vloop.QUANTUM = 1e-4
    vt = vloop.install()
    vt.reset()
    _G.update(voff=int(scn.get("voff", 0)), specs=[tuple(s) for s in scn["specs"]], runlog={}, clock=vt.now, hpo=True)
    st = _log_storage(guard=True)
    root = tempfile.mkdtemp(prefix="c14_")
    evs = []
    obs = {"ops": [], "error": None, "timelines": {}, "owner": {}}
    nsub = 0
    try:
        problem = HpProblem()
        problem.add_hyperparameter((0.0, 10.0), "x")
        sid = None
        for k, W in enumerate(scn["Ws"]):
            mk = {"num_workers": W, "storage": st}
            if k > 0:
                mk["search_id"] = sid
            ev = Evaluator.create(_run_async, method="serial", method_kwargs=mk)
            sr = RandomSearch(problem, ev, random_state=1, log_dir=os.path.join(root, f"e{k}"))
            if k == 0:
                sid = sr.search_id
            evs.append(ev)
            obs["timelines"][k] = []
        with contextlib.redirect_stdout(io.StringIO()):
            for op in scn["ops"]:
                e, kind = op["e"], op["op"]
                ev = evs[e]
                rec = {"op": kind, "e": e}
                if kind == "timeout":
                    ev.timeout = op["t"]
                    obs["timelines"][e].append((vt.now(), None if op["t"] is None else vt.now() + op["t"] * TICK))
                    rec["t"] = op["t"]
                elif kind == "submit":
                    ev.submit([{"x": nsub + i} for i in range(op["k"])])
                    for i in range(op["k"]):
                        obs["owner"][nsub + i] = e
                    nsub += op["k"]
                    rec["k"] = op["k"]
                elif kind == "gather":
                    try:
                        res = ev.gather("ALL") if op["all"] else ev.gather("BATCH", op["size"])
                        local, other = res if isinstance(res, tuple) else (res, [])
                        rec.update(all=op["all"], size=op.get("size", 0), rep=[_jid(j) for j in local],
                                   orep=[_jid(j) for j in other], err=None)
                    except ValueError as ex:
                        rec.update(all=op["all"], size=op.get("size", 0), rep=[], orep=[],
                                   err="noJobs" if "No jobs pending" in str(ex) else str(ex))
                elif kind == "other":
                    rec.update(orep=[_jid(j) for j in ev.gather_other_jobs_done()], err=None)
                elif kind == "close":
                    if _settle(ev):
                        obs["ops"].append({"op": "settle", "e": e, "now": _tick(vt.now())})
                    before = len(ev.jobs_done)
                    ev.close()
                    rec.update(new=[_jid(j) for j in ev.jobs_done[before:]], err=None)
                rec["now"] = _tick(vt.now())
                obs["ops"].append(rec)
            for e, ev in enumerate(evs):
                if _settle(ev):
                    obs["ops"].append({"op": "settle", "e": e, "now": _tick(vt.now())})
    except _Spin as ex:
        obs["error"] = str(ex)
    except RuntimeError as ex:
        obs["error"] = f"RuntimeError: {ex}"[:200]

    def _o(j):
        o = j.output
        return o["objective"] if isinstance(o, dict) and "objective" in o else o

    obs["results"] = {e: [(_jid(j), j.status.name, _o(j)) for j in ev.jobs_done] for e, ev in enumerate(evs)}
    obs["slog"] = list(st.slog)
    obs["runlog"] = {k: dict(v) for k, v in _G["runlog"].items()}
    obs["nsub"] = nsub
    try:
        obs["final_storage"] = {int(str(j).split(".")[-1]): int(st.load_job_status(j)) for j in st.load_all_job_ids(sid)}
    except Exception:
        obs["final_storage"] = {}
    for ev in evs:
        try:
            ev.close()
        except Exception:
            pass
    shutil.rmtree(root, ignore_errors=True)
    return obs


# --------------------------------------------------------------------------- several SEARCHES recorded in one storage

# forward reachability of the status order: READY < RUNNING < DONE | CANCELLING < CANCELLED (close(): READY/RUNNING -> CANCELLED)
FWD = {0: {0, 1, 2, 3, 4}, 1: {1, 2, 3, 4}, 2: {2}, 3: {3, 4}, 4: {4}}


def _event_storage():
    """MemoryStorage that records every status write and every status READ with the FULL job id ("search.index"), in the
    order in which they take effect (one lock around the operation and its record, so the order is exact with threads
    too), and every job creation with the search it was asked for.  Same progress guard as `_log_storage(guard=True)`."""
    from deephyper.evaluator.storage import MemoryStorage

    class EventStorage(MemoryStorage):
        def __init__(self):
            super().__init__()
            self.elog = []
            self.created = []
            self.polls = 0
            self._elock = threading.RLock()

        def store_job_status(self, job_id, job_status):
            with self._elock:
                r = super().store_job_status(job_id, job_status)
                self.elog.append(("w", str(job_id), int(job_status)))
                self.polls = 0
                return r

        def load_job_status(self, job_id):
            with self._elock:
                v = super().load_job_status(job_id)
                self.elog.append(("r", str(job_id), int(v)))
                return v

        def create_new_job(self, search_id):
            with self._elock:
                jid = super().create_new_job(search_id)
                self.created.append((str(search_id), str(jid)))
                self.polls = 0
                return jid

        def store_job(self, job_id, key, value):
            self.polls = 0
            return super().store_job(job_id, key, value)

        def load_all_job_ids(self, search_id):
            self.polls += 1
            if self.polls > SPIN_LIMIT:
                raise _Spin("does-not-return: the storage was polled %d times in a row without any write" % SPIN_LIMIT)
            return super().load_all_job_ids(search_id)

    return EventStorage()


def _mspec(job):
    """(full id, index, (m, p)) of a job of a storage that holds several searches: the run-function of job `index` of the
    search owned by evaluator k is `mspecs[k][index]`"""
    full = str(job.id)
    sid, idx = full.split(".")
    idx = int(idx)
    k = _G["sid2k"].get(sid)
    sp = _G["mspecs"][k] if k is not None and k < len(_G["mspecs"]) else []
    return full, idx, (sp[idx] if idx < len(sp) else (0, 1))


async def _run_async_m(job):
    full, idx, (m, p) = _mspec(job)
    clock = _G["clock"]
    rec = {"start": clock(), "reads": []}
    k = 0
    while True:
        st = job.status.name
        rec["reads"].append((clock(), st))
        if st == "CANCELLING" or k >= m:
            break
        k += 1
        await asyncio.sleep(p * TICK)
    rec["ret"] = clock()
    _G["runlog"][full] = rec
    return _out(idx, {})


def _run_sync_m(job):
    full, idx, (m, p) = _mspec(job)
    unit = _G["unit"]
    t0 = _time.time()
    reads = []
    k = 0
    while True:
        st = job.status.name
        reads.append(st)
        if st == "CANCELLING" or k >= m:
            break
        k += 1
        _time.sleep(p * unit)
    t1 = _time.time()
    with _G["lock"]:
        _G["runlog"][full] = {"start": t0, "ret": t1, "reads": [(0, r) for r in reads]}
    return _out(idx, {"t_start": t0, "t_ret": t1, "saw": reads[-1] == "CANCELLING", "nreads": len(reads)})


def run_multi_scenario(scn):
    """ONE storage object that holds SEVERAL searches: evaluator k is created with `storage=<the same>` and NO `search_id`,
    so it opens a search of its own (jobs "0.0", "0.1", ... and "1.0", "1.1", ...: the job indices of the searches
    overlap).  Call j is a search() call made by evaluator `calls[j]["k"]`; `rounds` (optional, real time only) groups the
    calls: the calls of one round (distinct evaluators) run CONCURRENTLY, one thread each; default = one call after the
    other.  Backend serial (virtual clock) or thread (real time).  Every status write and every status read of the
    storage is recorded with the full job id."""
    import contextlib
    import io
    from deephyper.evaluator import Evaluator
    from . import vloop

    backend = scn["backend"]
    serial = backend == "serial"
    root = tempfile.mkdtemp(prefix="c14_")
    obs = {"calls": [], "error": None, "sids": [], "elog": [], "created": [], "runlog": {}, "listed": {}, "final_storage": {}}
    st = None
    evs = []
    try:
        if serial:
            vloop.QUANTUM = 1e-4
            vt = vloop.install()
            vt.reset()
            clock = vt.now
            unit = TICK
            run = _run_async_m

            def advance(d):
                vt.t += d * TICK
        else:
            vloop.uninstall()
            clock = _time.time
            unit = scn["unit"]
            run = _run_sync_m

            def advance(d):
                _time.sleep(d * unit)
        _G.update(voff=int(scn.get("voff", 0)), vmode=scn.get("vmode", "up"), specs=[], runlog={}, clock=clock, hpo=True, unit=unit,
                  mspecs=[[tuple(x) for x in sp] for sp in scn["specs"]], sid2k={})
        st = _event_storage()
        searches, traces, nrows, sids = [], [], [], []
        for k, W in enumerate(scn["Ws"]):
            ev = Evaluator.create(run, method=backend, method_kwargs={"num_workers": W, "storage": st})  # no search_id
            evs.append(ev)
            tr = []
            sr = _make_search(ev, os.path.join(root, f"e{k}"), tr, clock, advance)
            sid = str(sr.search_id)
            if sid in _G["sid2k"]:
                raise HarnessError(f"C14: two evaluators created without search_id share the search {sid!r}")
            _G["sid2k"][sid] = k
            sids.append(sid)
            searches.append(sr)
            traces.append(tr)
            nrows.append(0)
        obs["sids"] = sids
        recs = {}

        def do_call(j):
            c = scn["calls"][j]
            k = c["k"]
            search, trace = searches[k], traces[k]
            del trace[:]
            n0 = len(st.load_all_job_ids(sids[k]))
            T0 = clock()
            rec = {"k": k, "j": j, "n0": n0, "T0": T0, "dl": None if c.get("t") is None else T0 + c["t"] * (TICK if serial else 1.0)}
            recs[j] = rec
            search.ask_delays = list(c.get("delays") or [])
            search.ask_ends = []
            search.asks, search.tells = [], []
            search.call_budget = None if c.get("t") is None else c["t"] * (TICK if serial else 1.0)
            try:
                df = search.search(**call_kwargs(c))
            except (_Spin, _LateSubmits) as e:
                rec.update(error=str(e), error_asks=[list(a) for a in search.asks], error_tells=list(search.tells))
                return
            except RuntimeError as e:
                if "vloop" in str(e):
                    rec["error"] = "does-not-return"
                    return
                rec["error"] = f"{type(e).__name__}: {e}"[:300]
                return
            except Exception as e:  # noqa: BLE001
                rec["error"] = f"{type(e).__name__}: {e}"[:300]
                return
            rec["end"] = clock()
            rec["ask_ends"] = list(search.ask_ends)
            rec["stopped"] = bool(search.stopped)
            rec["asks"] = [list(a) for a in search.asks]
            rec["tells"] = list(search.tells)
            rec["views"] = [x[3] for x in trace]
            rec["njobs"] = len(st.load_all_job_ids(sids[k]))
            rows = []
            if df is not None:
                for _, r in df.iterrows():
                    rows.append({"id": int(r["job_id"]), "status": str(r["job_status"]), "objective": r["objective"]})
            rec["rows"] = rows
            told = [x[1] for x in trace]
            split = lambda ids: [[i for i in ids if i >= n0], [i for i in ids if i < n0]]
            rec["reps"] = [split(ids) for ids in told]
            ntold = sum(len(x) for x in told)
            rec["drain"] = split([r["id"] for r in rows[nrows[k] + ntold:]])
            rec["new_rows"] = len(rows) - nrows[k]
            nrows[k] = len(rows)

        rounds = scn.get("rounds") or [[j] for j in range(len(scn["calls"]))]
        stop = False
        for rnd in rounds:
            with contextlib.redirect_stdout(io.StringIO()), contextlib.redirect_stderr(io.StringIO()):
                if len(rnd) == 1 or serial:
                    for j in rnd:
                        do_call(j)
                else:
                    ths = [threading.Thread(target=do_call, args=(j,), daemon=True) for j in rnd]
                    for th in ths:
                        th.start()
                    for th in ths:
                        th.join(timeout=600.0)
                    if any(th.is_alive() for th in ths):
                        if not common.tree_differs_from_head():
                            raise HarnessError("C14: concurrent search() calls on one storage did not return within 600 s on a tree identical to its HEAD")
                        obs["error"] = "does-not-return: concurrent search() calls on one storage still running after 600 s"
                        stop = True
            for j in rnd:
                rec = recs.get(j)
                if rec is not None and rec.get("error") and not obs["error"]:
                    obs["error"] = rec["error"]
                    obs["error_call"] = j
                    obs["error_asks"] = rec.get("error_asks")
                    obs["error_tells"] = rec.get("error_tells")
                    stop = True
            if stop:
                break
        obs["calls"] = [recs[j] for j in sorted(recs) if "end" in recs[j]]
        obs["created"] = list(st.created)
        for k, sid in enumerate(sids):
            try:
                obs["listed"][k] = [str(x) for x in st.load_all_job_ids(sid)]
            except Exception as e:  # noqa: BLE001
                obs["listed"][k] = [f"{type(e).__name__}"]
        for _, jid in obs["created"]:
            try:
                obs["final_storage"][jid] = int(st.load_job_status(jid))
            except Exception:
                pass
        obs["elog"] = list(st.elog)
        with _G["lock"]:
            obs["runlog"] = {k: dict(v) for k, v in _G["runlog"].items()}
    except HarnessError:
        raise
    except Exception as e:
        obs["error"] = f"{type(e).__name__}: {e}"[:300]
        if st is not None:
            obs["elog"] = list(st.elog)
            obs["created"] = list(st.created)
    finally:
        for ev in evs:
            try:
                ev.close()
            except Exception:
                pass
            if hasattr(ev, "executor"):
                try:
                    ev.executor.shutdown(wait=False, cancel_futures=True)
                except Exception:
                    pass
        shutil.rmtree(root, ignore_errors=True)
    return obs


def run_multi_evaluator_scenario(scn):
    """op script on SEVERAL serial evaluators (virtual clock) that share ONE storage object but own a search EACH (created
    without search_id); every op names its evaluator (`e`): timeout / submit / gather / close.  The ops of the evaluators
    are INTERLEAVED: jobs of one search are still in flight (RUNNING, polling their status) while the evaluator of another
    search submits, gathers, lets its timeout expire.  (An evaluator's event loop runs only inside its own gather /
    close: the run-functions of the others resume late -- no claim on instants here, only on statuses and their order.)"""
    import contextlib
    import io
    from deephyper.evaluator import Evaluator
    from deephyper.hpo import HpProblem, RandomSearch
    from . import vloop

    vloop.QUANTUM = 1e-4
    vt = vloop.install()
    vt.reset()
    _G.update(voff=int(scn.get("voff", 0)), vmode="up", specs=[], runlog={}, clock=vt.now, hpo=True, unit=TICK,
              mspecs=[[tuple(x) for x in sp] for sp in scn["specs"]], sid2k={})
    st = _event_storage()
    root = tempfile.mkdtemp(prefix="c14_")
    evs, sids = [], []
    obs = {"ops": [], "error": None, "sids": sids, "timed": {}, "closed_inflight": []}
    nsub = {}
    try:
        problem = HpProblem()
        problem.add_hyperparameter((0.0, 10.0), "x")
        for k, W in enumerate(scn["Ws"]):
            ev = Evaluator.create(_run_async_m, method="serial", method_kwargs={"num_workers": W, "storage": st})
            sr = RandomSearch(problem, ev, random_state=1, log_dir=os.path.join(root, f"e{k}"))
            sid = str(sr.search_id)
            if sid in _G["sid2k"]:
                raise HarnessError(f"C14: two evaluators created without search_id share the search {sid!r}")
            _G["sid2k"][sid] = k
            sids.append(sid)
            evs.append(ev)
            nsub[k] = 0
        with contextlib.redirect_stdout(io.StringIO()):
            for op in scn["ops"]:
                e, kind = op["e"], op["op"]
                ev = evs[e]
                rec = {"op": kind, "e": e}
                if kind == "timeout":
                    ev.timeout = op["t"]
                    if op["t"] is not None:
                        obs["timed"][e] = True
                elif kind == "submit":
                    ev.submit([{"x": nsub[e] + i} for i in range(op["k"])])
                    nsub[e] += op["k"]
                elif kind == "gather":
                    try:
                        res = ev.gather("ALL") if op["all"] else ev.gather("BATCH", op["size"])
                        local, other = res if isinstance(res, tuple) else (res, [])
                        rec.update(rep=[str(j.id) for j in local], orep=[str(j.id) for j in other], err=None)
                    except ValueError as ex:
                        rec.update(rep=[], orep=[], err="noJobs" if "No jobs pending" in str(ex) else str(ex))
                elif kind == "close":
                    _settle(ev)
                    before = len(ev.jobs_done)
                    ev.close()
                    new = [str(j.id) for j in ev.jobs_done[before:]]
                    rec.update(new=new)
                    obs["closed_inflight"] += [j for j in new if j not in _G["runlog"] or "ret" not in _G["runlog"][j]]
                rec["now"] = _tick(vt.now())
                obs["ops"].append(rec)
            for ev in evs:
                _settle(ev)
    except _Spin as ex:
        obs["error"] = str(ex)
    except RuntimeError as ex:
        obs["error"] = ("does-not-return: " if "vloop" in str(ex) else "") + f"RuntimeError: {ex}"[:200]

    def _o(j):
        o = j.output
        return o["objective"] if isinstance(o, dict) and "objective" in o else o

    try:
        obs["results"] = {e: [(str(j.id), j.status.name, _o(j)) for j in ev.jobs_done] for e, ev in enumerate(evs)}
    except Exception as ex:  # noqa: BLE001
        obs["results"] = {}
        obs["error"] = obs["error"] or f"{type(ex).__name__}: {ex}"[:200]
    obs["created"] = list(st.created)
    obs["listed"], obs["final_storage"] = {}, {}
    for k, sid in enumerate(sids):
        try:
            obs["listed"][k] = [str(x) for x in st.load_all_job_ids(sid)]
        except Exception as ex:  # noqa: BLE001
            obs["listed"][k] = [type(ex).__name__]
    for _, jid in obs["created"]:
        try:
            obs["final_storage"][jid] = int(st.load_job_status(jid))
        except Exception:
            pass
    obs["elog"] = list(st.elog)
    obs["runlog"] = {k: dict(v) for k, v in _G["runlog"].items()}
    for ev in evs:
        try:
            ev.close()
        except Exception:
            pass
    shutil.rmtree(root, ignore_errors=True)
    return obs


def run_scenario(scn):
    _G["vmode"] = scn.get("vmode", "up")
    if scn["level"] == "shared-evaluator":
        return run_shared_evaluator_scenario(scn)
    if scn["level"] == "shared":
        return run_shared_scenario(scn)
    if scn["level"] == "multi":
        return run_multi_scenario(scn)
    if scn["level"] == "multi-evaluator":
        return run_multi_evaluator_scenario(scn)
    if scn["level"] == "evaluator":
        if scn.get("backend", "serial") != "serial":
            return run_evaluator_realtime(scn)
        return run_evaluator_scenario(scn)
    return run_search_scenario(scn)


# --------------------------------------------------------------------------- Lean requests


def lean_request(scn, obs, jobfirst=()):
    specs = [[int(m), int(p), i in jobfirst, i] for i, (m, p) in enumerate(scn["specs"])]
    ops = []
    if scn["level"] == "evaluator":
        for rec in obs["ops"]:
            k = rec["op"]
            if k == "timeout":
                ops.append({"op": "timeout", "t": rec["t"]})
            elif k == "submit":
                ops.append({"op": "submit", "k": rec["k"]})
            elif k == "gather":
                ops.append({"op": "gather", "all": rec["all"], "size": rec["size"], "rep": rec["rep"]})
            elif k == "close":
                ops.append({"op": "close", "rep": rec["new"]})
            elif k == "settle":
                ops.append({"op": "settle"})
        return {"W": scn["W"], "hpo": bool(scn.get("hpo")), "specs": specs, "ops": ops}
    if scn.get("vmode", "up") != "up" or scn.get("voff"):
        for sp in specs:
            sp[3] = int(_expected(scn, sp[3]))
    for c, rec in zip(scn["calls"], obs["calls"]):
        op = {"op": "search", "n": -1 if c.get("n") is None else c["n"], "strict": bool(c.get("strict")),
              "timeout": c.get("t"), "reps": rec["reps"], "drain": rec["drain"], "delays": list(c.get("delays") or [])}
        if scn.get("cbs") is not None:
            # evaluator with callbacks: the model's loop with the explicit `stopped` flag, fed with what `_search` saw of
            # each callback at the end of every iteration
            op["views"] = [[None if v is None else bool(v) for v in vs] for vs in rec["views"]]
        ops.append(op)
    return {"W": scn["W"], "hpo": True, "specs": specs, "ops": ops}


# --------------------------------------------------------------------------- oracle (L3)


def _realtime_class(scn, obs, i, rl):
    """real time: which clause certainly applies to job i, robust to scheduling delays (sleeps only overshoot):
    'none' (no timeout requested in its call), 'before' (it really returned >= 0.25 s before the earliest possible
    deadline), 'after' (started >= 0.25 s before the earliest possible deadline and its nominal end is >= 0.25 s
    after the latest possible one = first job start of the call + t), else 'either'.  -> (class, dl_lo, dl_hi)"""
    tl = obs["timeline"]
    k = None
    for idx, (t0, dl) in enumerate(tl):
        if t0 <= rl["start"] + 1e-12:
            k = idx
    if k is None or tl[k][1] is None:
        return "none", None, None
    t0, dl_lo = tl[k]
    t1 = tl[k + 1][0] if k + 1 < len(tl) else float("inf")
    starts = [r["start"] for r in obs["runlog"].values() if t0 <= r["start"] < t1]
    dl_hi = min(starts) + (dl_lo - t0)
    m, p = scn["specs"][i] if i < len(scn["specs"]) else (0, 1)
    f = rl["start"] + m * p * scn["unit"]
    if "ret" in rl and rl["ret"] <= dl_lo - 0.25:
        return "before", dl_lo, dl_hi
    if rl["start"] <= dl_lo - 0.25 and f >= dl_hi + 0.25:
        return "after", dl_lo, dl_hi
    # started after the expiry for certain: 0.25 s after the latest possible deadline, or (causally, no margin needed)
    # after another job of the same deadline had already read CANCELLING and returned
    if rl["start"] >= dl_hi + 0.25:
        return "late", dl_lo, dl_hi
    for j, r2 in obs["runlog"].items():
        if j != i and "ret" in r2 and t0 <= r2["start"] < t1 and r2["reads"] and r2["reads"][-1][1] == "CANCELLING" \
                and r2["ret"] <= rl["start"]:
            return "late", dl_lo, dl_hi
    return "either", dl_lo, dl_hi


def _loop_ran(obs, dl, ret):
    """did the evaluator's loop get a chance to run between the deadline and the job's return?  (CANCELLING is written
    by the loop; while the caller is busy nothing can observe it)"""
    for b0, b1 in obs.get("busy", []):
        if b0 <= dl and ret <= b1:
            return False
    return True


def _deadline_for(timeline, t):
    d = None
    for (t0, dl) in timeline:
        if t0 <= t + 1e-12:
            d = dl
    return d


def _logs_of(obs, n):
    logs = {i: [] for i in range(n)}
    for jid, code in obs.get("slog") or []:
        logs.setdefault(jid, []).append(code)
    return logs


def oracle(scn, obs, reported=None, per_call=True):
    """-> list of (clause, entry, detail): the property's statement on the real observations.
    `reported` (multi-evaluator histories): the (id, status, value) rows to judge instead of the last table;
    `per_call=False`: the clauses that look at the tables call by call are evaluated by the caller"""
    bad = []
    voff = int(scn.get("voff", 0))
    serial = scn.get("backend", "serial") == "serial"
    if obs.get("error"):
        err = obs["error"]
        clause = "keeps-submitting-after-expiry" if err.startswith("keeps-submitting-after-expiry") else \
            "does-not-return" if "does-not-return" in err or "vloop" in err else "raises"
        return [(clause, "Search.search" if scn["level"] == "search" else "Evaluator.gather",
                 {"error": err, "call": obs.get("error_call"), "asks": obs.get("error_asks"), "tells": obs.get("error_tells")})]
    entry = "Search.search" if scn["level"] == "search" else "Evaluator.gather"
    specs = scn["specs"]
    runlog = obs["runlog"]
    # final rows / reported jobs
    if reported is not None:
        reported = list(reported)
    elif scn["level"] == "search":
        rows = obs["calls"][-1]["rows"] if obs["calls"] else []
        reported = [(r["id"], r["status"], r["objective"]) for r in rows]
    else:
        reported = [(i, s, o) for (i, s, o) in obs["results"]]
    nsub = max([i for i, _ in (obs.get("slog") or [])] + [r[0] for r in reported] + [-1]) + 1
    logs = _logs_of(obs, nsub) if obs.get("slog") is not None else None
    rep_status = {}
    seen_ids = []
    for i, s, o in reported:
        seen_ids.append(i)
        rep_status[i] = (s, o)
    closed_inflight = set()
    if scn["level"] == "evaluator":
        for rec in obs["ops"]:
            if rec["op"] == "close":
                closed_inflight |= {i for i in rec["new"] if i not in runlog or "ret" not in runlog[i]}
    # (M) status sequences only move forward
    if logs is not None:
        for i, lg in logs.items():
            if lg not in ALLOWED_LOGS:
                bad.append(("status-not-monotone", entry, {"job": i, "log": lg}))
            if lg[-2:] in ([0, 4], [1, 4]) and i not in closed_inflight and lg != [0, 1, 3, 4]:
                if not (len(lg) >= 3 and lg[-3:] == [1, 3, 4]):
                    bad.append(("cancelled-without-cancelling", entry, {"job": i, "log": lg}))
    # (K) every reported job once, terminal
    if len(set(seen_ids)) != len(seen_ids):
        bad.append(("reported-twice", entry, {"ids": seen_ids}))
    for i, (s, o) in rep_status.items():
        if s not in ("DONE", "CANCELLED"):
            bad.append(("non-terminal-status-reported", entry, {"job": i, "status": s}))
    if scn["level"] == "search" and per_call:
        # completeness: no id twice in any returned table; after the last call every submitted job is there
        for c, rec in zip(scn["calls"], obs["calls"]):
            ids = [r["id"] for r in rec["rows"]]
            if len(set(ids)) != len(ids):
                bad.append(("reported-twice", entry, {"ids": ids}))
        if logs is not None:
            missing = [i for i in range(nsub) if i not in rep_status]
            if missing:
                bad.append(("submitted-job-missing-from-results", entry, {"missing": missing, "nsub": nsub}))
        else:
            started = set(runlog)
            missing = sorted(started - set(rep_status))
            if missing:
                bad.append(("submitted-job-missing-from-results", entry, {"missing": missing}))
    # (C) classification
    for i, rl in sorted(runlog.items()):
        m, p = specs[i] if i < len(specs) else (0, 1)
        reads = [r[1] for r in rl["reads"]]
        saw = reads[-1] == "CANCELLING"
        dl = _deadline_for(obs["timeline"], rl["start"])
        fin = rep_status.get(i)
        lg = logs[i] if logs is not None else None
        info = {"job": i, "m": m, "p": p, "log": lg, "final": fin, "saw": saw}
        if fin is None:
            continue  # still in flight when the script ended / closed: no claim
        if i in closed_inflight:
            continue
        status, out = fin
        if dl is None:
            if status != "DONE" or saw or (lg is not None and 3 in lg):
                bad.append(("no-timeout-but-cancelled", entry, info))
            continue
        if serial:
            s, c, f = _tick(rl["start"]), _tick(dl), _tick(rl["start"]) + m * p
            # "finished before the expiry" = it really returned before (a blocked loop delays a run-function; then its
            # nominal end says nothing); "running at the expiry" = started before, cannot have ended before
            before, after, started_before = ("ret" in rl and _tick(rl["ret"]) < c and f < c), f > c, s < c
            late, polls_again = s > c, m >= 1 and p >= 1
            loop_ran = True  # serial: a stalled loop stalls the run-function too, it reads the status when the loop resumes
            info.update(start=s, deadline=c, natural_finish=f)
        else:
            cl, dl_lo, dl_hi = _realtime_class(scn, obs, i, rl)
            before, after, started_before = cl == "before", cl == "after", True
            late, polls_again = cl == "late", m * p * scn["unit"] >= 0.5
            loop_ran = dl_hi is None or "ret" not in rl or _loop_ran(obs, dl_lo, rl["ret"])
            z = obs["timeline"][0][0]
            info.update(start=round(rl["start"] - z, 3), ret=round(rl.get("ret", 0) - z, 3), deadline_lo=round(dl_lo - z, 3),
                        deadline_hi=round(dl_hi - z, 3), natural_finish=round(rl["start"] + m * p * scn["unit"] - z, 3))
        if late:
            # started after the expiry: a fortiori running after it -> CANCELLED (through CANCELLING), and it reads
            # CANCELLING if it reads the status again at all
            if status != "CANCELLED" or (lg is not None and 3 not in lg):
                bad.append(("started-after-deadline-not-CANCELLED", entry, info))
            elif polls_again and not saw:
                bad.append(("started-after-deadline-never-saw-CANCELLING", entry, info))
        elif before:
            if status != "DONE" or saw or (lg is not None and 3 in lg):
                bad.append(("finished-before-deadline-not-DONE", entry, info))
        elif after and started_before:
            if not saw and loop_ran:
                bad.append(("running-at-deadline-never-saw-CANCELLING", entry, info))
            if status != "CANCELLED":
                bad.append(("running-at-deadline-not-CANCELLED", entry, info))
        if status in ("DONE", "CANCELLED") and "ret" in rl:
            try:
                ok = float(out) == _expected(scn, i)
            except Exception:
                ok = False
            if not ok:
                bad.append(("value-not-kept", entry, dict(info, output=repr(out))))
    # (S) "the search returns once the running evaluations have returned": once a gather of a timed call has ended at or
    # after the call's deadline (the `time_left <= 0` test that follows it cannot read an earlier clock), the call asks
    # for / submits no further evaluation -- with or without callbacks, whatever they say (order of events, no duration)
    if scn["level"] == "search" and per_call:
        for ci, (c, rec) in enumerate(zip(scn["calls"], obs["calls"])):
            d = _late_detail(c, rec, serial, obs["timeline"][ci][0])
            if d:
                bad.append(("keeps-submitting-after-expiry", entry, dict(d, call=ci)))
    # (R) search returns no later than its last evaluation (virtual clock only: an assertion on order, not on a duration)
    if scn["level"] == "search" and serial and per_call:
        for ci, rec in enumerate(obs["calls"]):
            prev = {r["id"] for r in obs["calls"][ci - 1]["rows"]} if ci else set()
            mine = [r["id"] for r in rec["rows"] if r["id"] not in prev]
            rets = [_tick(runlog[i]["ret"]) for i in mine if i in runlog and "ret" in runlog[i]]
            if rets and _tick(rec["end"]) > max(rets + [_tick(obs["timeline"][ci][0])]):
                bad.append(("returns-later-than-last-evaluation", entry, {"call": ci, "end": _tick(rec["end"]), "last_ret": max(rets)}))
    return bad


# --------------------------------------------------------------------------- several evaluators on one storage


def _first_reports(obs):
    """(id, status, value) as FIRST reported for each job (by its owner's table; the later tables of the other
    evaluators must agree with it)"""
    seen = {}
    for rec in obs["calls"]:
        for r in rec["rows"]:
            seen.setdefault(r["id"], (r["id"], r["status"], r["objective"]))
    return [seen[i] for i in sorted(seen)]


def oracle_shared(scn, obs):
    """the property on a history of search() calls of several evaluators attached to one storage: the per-job clauses
    (monotone log of ALL the writes to the shared storage, classification, value kept) as for one evaluator, and per
    returned call: its table holds every job in the storage at that moment exactly once, with a terminal status that
    is the one the job actually reached (= the last status written for it) and the one every other table reports"""
    entry = "Search.search"
    if obs.get("error"):
        err = obs["error"]
        clause = "keeps-submitting-after-expiry" if err.startswith("keeps-submitting-after-expiry") else \
            "does-not-return" if "does-not-return" in err or "vloop" in err else "raises"
        return [(clause, entry, {"error": err, "call": obs.get("error_call"), "asks": obs.get("error_asks"), "tells": obs.get("error_tells")})]
    scn_u = dict(scn, level="search")
    bad = list(oracle(scn_u, obs, reported=_first_reports(obs), per_call=False))
    voff = int(scn.get("voff", 0))
    serial = scn["backend"] == "serial"
    nsub = max([i for i, _ in (obs.get("slog") or [])] + [-1]) + 1
    logs = _logs_of(obs, nsub) if obs.get("slog") is not None else {}
    first = {}
    prev_ids = {}
    runlog = obs["runlog"]
    for ci, rec in enumerate(obs["calls"]):
        k = rec["k"]
        ids = [r["id"] for r in rec["rows"]]
        where = {"call": ci, "evaluator": k}
        if len(set(ids)) != len(ids):
            bad.append(("reported-twice", entry, dict(where, ids=ids)))
        missing = [i for i in range(rec["njobs"]) if i not in set(ids)]
        if missing:
            bad.append(("submitted-job-missing-from-results", entry, dict(where, missing=missing, in_storage=rec["njobs"])))
        for r in rec["rows"]:
            i = r["id"]
            if r["status"] not in ("DONE", "CANCELLED"):
                bad.append(("non-terminal-status-reported", entry, dict(where, job=i, status=r["status"])))
            f = first.setdefault(i, (r["status"], ci))
            if f[0] != r["status"]:
                bad.append(("terminal-status-changed", entry, dict(where, job=i, first_reported=f[0], by_call=f[1], now_reported=r["status"], log=logs.get(i))))
            lg = logs.get(i)
            if lg and r["status"] in ST and ST[r["status"]] != lg[-1]:
                bad.append(("reported-status-not-reached", entry, dict(where, job=i, reported=r["status"], log=lg)))
            try:
                ok = float(r["objective"]) == _expected(scn, i)
            except Exception:
                ok = False
            if not ok and i in runlog and "ret" in runlog[i]:
                bad.append(("value-not-kept", entry, dict(where, job=i, output=repr(r["objective"]))))
        if serial:
            mine = [i for i in ids if i >= rec["n0"]]  # the evaluations of this call
            rets = [_tick(runlog[i]["ret"]) for i in mine if i in runlog and "ret" in runlog[i]]
            # (a slow ask() after the last evaluation - the cap on submitted jobs counts every job of the shared storage and
            # can stop the call right after any ask - is the search's own work, not waiting)
            asks = [_tick(x) for x in rec.get("ask_ends") or []]
            if rets and _tick(rec["end"]) > max(rets + asks + [_tick(obs["timeline"][ci][0])]):
                bad.append(("returns-later-than-last-evaluation", entry, dict(where, end=_tick(rec["end"]), last_ret=max(rets))))
        d = _late_detail(scn["calls"][ci], rec, serial, obs["timeline"][ci][0])
        if d:
            bad.append(("keeps-submitting-after-expiry", entry, dict(where, **d)))
        prev_ids[k] = set(ids)
    for i, (s0, ci) in sorted(first.items()):
        fs = (obs.get("final_storage") or {}).get(i)
        if fs is not None and s0 in ST and fs != ST[s0]:
            bad.append(("terminal-status-changed", entry, {"job": i, "first_reported": s0, "by_call": ci, "in_storage_at_the_end": fs, "log": logs.get(i)}))
    out, seen = [], set()
    for b in bad:  # one report per (clause, job)
        key = (b[0], b[2].get("job") if isinstance(b[2], dict) else None)
        if key not in seen:
            seen.add(key)
            out.append(b)
    return out


def build_shared_obs(scn, obs):
    """the observation handed to the verified checker `checkShared`"""
    if obs.get("error") or obs.get("slog") is None:
        return None
    base = build_obs(dict(scn, level="search"), obs, reported=_first_reports(obs))
    nsub = len(base["jobs"])
    tables = []
    for rec in obs["calls"]:
        rows = [[r["id"], ST.get(r["status"], 0)] for r in rec["rows"]]
        tables.append({"nJobs": min(rec["njobs"], nsub), "rows": rows})
    return {"op": "checkshared", "jobs": base["jobs"], "tables": tables}


def lean_request_shared(scn, obs, jobfirst=()):
    specs = [[int(m), int(p), i in jobfirst, int(_expected(scn, i))] for i, (m, p) in enumerate(scn["specs"])]
    acts = []
    for c, rec in zip(scn["calls"], obs["calls"]):
        a = {"e": c["k"], "op": "search", "n": -1 if c.get("n") is None else c["n"], "strict": bool(c.get("strict")),
             "timeout": c.get("t"), "reps": rec["reps"], "drain": rec["drain"], "delays": list(c.get("delays") or [])}
        if scn.get("cbs") is not None:
            a["views"] = [[None if v is None else bool(v) for v in vs] for vs in rec["views"]]
        acts.append(a)
    return {"op": "world", "Ws": list(scn["Ws"]), "hpo": True, "specs": specs, "acts": acts}


def _compare_shared(scn, obs, rep):
    """world model vs observations; returns a dict of differences (empty = agree)"""
    diff = {}
    jobs = rep["jobs"]
    nsub = len(jobs)
    logs = _logs_of(obs, nsub)
    if sorted(logs) != list(range(nsub)):
        diff["njobs"] = (len(logs), nsub)
        return diff
    last = {}
    for c, (rec, mo) in enumerate(zip(obs["calls"], rep["outs"])):
        if mo["stop"] not in ("budget", "cap", "timeout"):
            diff[f"call{c}.stop"] = mo["stop"]
        elif (mo["stop"] != "budget") != rec["stopped"]:
            diff[f"call{c}.stopped"] = (rec["stopped"], mo["stop"])
        if rec["now"] != mo["now"]:
            diff[f"call{c}.now"] = (rec["now"], mo["now"])
        if len(rec["rows"]) != mo["nresults"]:
            diff[f"call{c}.rows"] = (len(rec["rows"]), mo["nresults"])
        if rec["njobs"] != mo["njobs"]:
            diff[f"call{c}.njobs"] = (rec["njobs"], mo["njobs"])
        _flags_diff(diff, f"call{c}", rec, mo, obs["timeline"][c][1])
        last[rec["k"]] = rec["rows"]
    final = obs.get("final_storage") or {}
    for k, rows in sorted(last.items()):
        if [r["id"] for r in rows] != rep["results"][k]:
            diff[f"evaluator{k}.results"] = ([r["id"] for r in rows], rep["results"][k])
        for r in rows:
            if r["id"] >= nsub:
                continue
            mj = jobs[r["id"]]
            want = float(mj["out"][1]) if mj["out"][0] == "val" else "F_CANCELLED"
            if r["objective"] != want:
                diff[f"evaluator{k}.job{r['id']}.objective"] = (r["objective"], want)
            if ST.get(r["status"]) != mj["status"]:
                diff[f"evaluator{k}.job{r['id']}.status"] = (r["status"], mj["status"])
    for i, mj in enumerate(jobs):
        if logs[i] != mj["log"]:
            diff[f"job{i}.log"] = (logs[i], mj["log"])
        if i in final and final[i] != mj["status"]:
            diff[f"job{i}.status"] = (final[i], mj["status"])
        rl = obs["runlog"].get(i)
        if mj["pc"] in ("gathered", "returned"):
            if rl is None or "ret" not in rl:
                diff[f"job{i}.returned"] = ("not returned", mj["pc"])
            else:
                got = (_tick(rl["start"]), _tick(rl["ret"]), rl["reads"][-1][1] == "CANCELLING")
                want = (mj["start"], mj["ret"], mj["saw"])
                if got != want:
                    diff[f"job{i}.start/ret/saw"] = (got, want)
        elif rl is not None and "ret" in rl:
            diff[f"job{i}.returned"] = ("returned", mj["pc"])
    return diff


def _canon_shared(scn):
    """evaluators renumbered by first use, unused ones dropped"""
    order = []
    for c in scn["calls"]:
        if c["k"] not in order:
            order.append(c["k"])
    if order == list(range(len(scn["Ws"]))):
        return scn
    out = dict(scn, Ws=[scn["Ws"][k] for k in order], calls=[dict(c, k=order.index(c["k"])) for c in scn["calls"]])
    if scn.get("cbs") is not None:
        out["cbs"] = [scn["cbs"][k] if k < len(scn["cbs"]) else [] for k in order]
    return out


def shrink_shared(scn, clause, budget=40):
    """fewer calls, then every call as simple as possible (a plain `max_evals=1` call if the failure survives it, else
    without budget / strictness / slow ask), one worker per evaluator, non-zero objectives"""
    def fails(c):
        nonlocal budget
        if budget <= 0:
            return False
        budget -= 1
        return any(cl == clause for cl, _, _ in oracle_shared(c, run_scenario(c)))

    def with_call(b, j, c):
        return dict(b, calls=b["calls"][:j] + [c] + b["calls"][j + 1:])

    best = scn
    if scn["backend"] != "serial":
        return _canon_shared(best)
    changed = True
    while changed and budget > 0:
        changed = False
        cands = []
        for j in range(len(best["calls"]) - 1):  # drop an earlier call
            cands.append(_canon_shared(dict(best, calls=best["calls"][:j] + best["calls"][j + 1:])))
        for j, c in enumerate(best["calls"]):
            plain = {"k": c["k"], "n": 1}
            if c != plain:
                cands.append(with_call(best, j, plain))
            if c.get("delays"):
                cands.append(with_call(best, j, {k: v for k, v in c.items() if k != "delays"}))
            if c.get("n") is not None and c.get("t") is not None:
                cands.append(with_call(best, j, {k: v for k, v in c.items() if k not in ("n", "strict")}))
            elif c.get("strict"):
                cands.append(with_call(best, j, dict(c, strict=False)))
        if any(W > 1 for W in best["Ws"]):
            cands.append(dict(best, Ws=[1] * len(best["Ws"])))
        if int(best.get("voff", 0)) == 0:
            cands.append(dict(best, voff=1))
        if best.get("cbs") is not None:
            # the shortest failing prefix of the history; no callbacks at all; an evaluator without its callbacks; one
            # callback less; increasing objectives
            cands = [_canon_shared(dict(best, calls=best["calls"][:L])) for L in range(1, len(best["calls"]))] + cands
            cands.append({k: v for k, v in best.items() if k not in ("cbs", "vmode")})
            for e, ds in enumerate(best["cbs"]):
                if ds:
                    cands.append(dict(best, cbs=best["cbs"][:e] + [[]] + best["cbs"][e + 1:]))
                if len(ds) > 1:
                    cands += [dict(best, cbs=best["cbs"][:e] + [ds[:j] + ds[j + 1:]] + best["cbs"][e + 1:]) for j in range(len(ds))]
            if best.get("vmode", "up") != "up":
                cands.append(dict(best, vmode="up"))
        for cand in cands:
            if fails(cand):
                best, changed = cand, True
                break
    return _canon_shared(best)


def fingerprint_shared(clause, entry, scn):
    ks = [f"e{c['k']}:{call_kind(c)}" for c in scn["calls"]]
    opt = f"history={','.join(ks[:-1]) or '-'};call={ks[-1]};backend={scn['backend']}"
    if int(scn.get("voff", 0)) == 0 and scn.get("vmode", "up") == "up":
        opt += ";zero_objective=True"
    if scn.get("cbs") and any(scn["cbs"]):
        opt += ";callbacks=" + "/".join(_cb_names(ds) or "-" for ds in scn["cbs"])
    return f"C14|{clause}|{entry}|{opt}"


def oracle_shared_ev(scn, obs):
    """evaluator-level scripts on several evaluators: the writes to the shared storage only move forward; no evaluator
    has a job twice in its `jobs_done`; the statuses it reports are terminal, are the ones the jobs reached, and agree
    between the evaluators; the values are kept"""
    entry = "Evaluator.gather"
    if obs.get("error"):
        return [("does-not-return" if "does-not-return" in obs["error"] or "vloop" in obs["error"] else "raises", entry, {"error": obs["error"]})]
    bad = []
    voff = int(scn.get("voff", 0))
    logs = _logs_of(obs, obs["nsub"])
    runlog = obs["runlog"]
    for i, lg in sorted(logs.items()):
        if lg not in ALLOWED_LOGS:
            bad.append(("status-not-monotone", entry, {"job": i, "log": lg}))
    first = {}
    for e, res in sorted(obs["results"].items()):
        ids = [i for i, _, _ in res]
        if len(set(ids)) != len(ids):
            bad.append(("reported-twice", entry, {"evaluator": e, "ids": ids}))
        for i, stt, out in res:
            if stt not in ("DONE", "CANCELLED"):
                bad.append(("non-terminal-status-reported", entry, {"evaluator": e, "job": i, "status": stt}))
            f = first.setdefault(i, (stt, e))
            if f[0] != stt:
                bad.append(("terminal-status-changed", entry, {"job": i, "evaluator": f[1], "reports": f[0], "evaluator2": e, "reports2": stt, "log": logs.get(i)}))
            lg = logs.get(i)
            if lg and stt in ST and ST[stt] != lg[-1]:
                bad.append(("reported-status-not-reached", entry, {"evaluator": e, "job": i, "reported": stt, "log": lg}))
            if i in runlog and "ret" in runlog[i] and out != "F_CANCELLED":
                try:
                    ok = float(out) == float(i + voff)
                except Exception:
                    ok = False
                if not ok:
                    bad.append(("value-not-kept", entry, {"evaluator": e, "job": i, "output": repr(out)}))
    return bad


def lean_request_shared_ev(scn, obs, jobfirst=()):
    voff = int(scn.get("voff", 0))
    specs = [[int(m), int(p), i in jobfirst, i + voff] for i, (m, p) in enumerate(scn["specs"])]
    acts = []
    for rec in obs["ops"]:
        k = rec["op"]
        a = {"e": rec["e"], "op": k}
        if k == "timeout":
            a["t"] = rec["t"]
        elif k == "submit":
            a["k"] = rec["k"]
        elif k == "gather":
            a.update(all=rec["all"], size=rec["size"], rep=rec["rep"], orep=rec["orep"])
        elif k == "other":
            a["orep"] = rec["orep"]
        elif k == "close":
            a["rep"] = rec["new"]
        acts.append(a)
    return {"op": "world", "Ws": list(scn["Ws"]), "hpo": True, "specs": specs, "acts": acts}


def _compare_shared_ev(scn, obs, rep):
    diff = {}
    jobs = rep["jobs"]
    nsub = len(jobs)
    logs = _logs_of(obs, nsub)
    if sorted(logs) != list(range(nsub)) or nsub != obs["nsub"]:
        diff["njobs"] = (len(logs), obs["nsub"], nsub)
        return diff
    for k, (rec, mo) in enumerate(zip(obs["ops"], rep["outs"])):
        if rec.get("err") != mo["err"]:
            diff[f"op{k}.err"] = (rec.get("err"), mo["err"])
        if rec["now"] != mo["now"]:
            diff[f"op{k}.now"] = (rec["now"], mo["now"])
    final = obs.get("final_storage") or {}
    for e, res in sorted(obs["results"].items()):
        if [i for i, _, _ in res] != rep["results"][e]:
            diff[f"evaluator{e}.results"] = ([i for i, _, _ in res], rep["results"][e])
        for i, stt, out in res:
            if i >= nsub:
                continue
            mj = jobs[i]
            want = {"none": None, "F": "F_CANCELLED"}.get(mj["out"][0], float(mj["out"][1]) if mj["out"][0] == "val" else None)
            if out != want:
                diff[f"evaluator{e}.job{i}.output"] = (out, want)
            if ST.get(stt) != mj["status"]:
                diff[f"evaluator{e}.job{i}.status"] = (stt, mj["status"])
    for i, mj in enumerate(jobs):
        if logs[i] != mj["log"]:
            diff[f"job{i}.log"] = (logs[i], mj["log"])
        if i in final and final[i] != mj["status"]:
            diff[f"job{i}.status"] = (final[i], mj["status"])
        rl = obs["runlog"].get(i)
        if mj["pc"] in ("gathered", "returned"):
            if rl is None or "ret" not in rl:
                diff[f"job{i}.returned"] = ("not returned", mj["pc"])
            else:
                got = (_tick(rl["start"]), _tick(rl["ret"]), rl["reads"][-1][1] == "CANCELLING")
                want = (mj["start"], mj["ret"], mj["saw"])
                if got != want:
                    diff[f"job{i}.start/ret/saw"] = (got, want)
        elif rl is not None and "ret" in rl:
            diff[f"job{i}.returned"] = ("returned", mj["pc"])
    return diff


def fingerprint_shared_ev(clause, entry, scn):
    names = [f"e{o['e']}:" + (("gatherALL" if o.get("all") else "gatherBATCH") if o["op"] == "gather" else o["op"]) for o in scn["ops"]]
    names = [n for k, n in enumerate(names) if k == 0 or names[k - 1] != n]
    return f"C14|{clause}|{entry}|ops={','.join(names)};backend=serial" + (";zero_objective=True" if int(scn.get("voff", 0)) == 0 else "")


def _check_shared_ev(ck, scn, obs, drv, do_shrink=True):
    case = _case_of(scn, obs)
    ck.case(case, nontrivial=bool(obs.get("runlog")))
    ck.count("src:" + scn["src"])
    entry = "Evaluator.gather"
    py_bad = oracle_shared_ev(scn, obs)
    fails = list(py_bad)
    if not obs.get("error"):
        # verified checker, one evaluator at a time (scripts need not be complete; no classification: the deadlines are
        # per evaluator and the model comparison below decides every status write anyway)
        logs = _logs_of(obs, obs["nsub"])
        base = dict(start=0, ret=0, natEnd=0, deadline=None, saw=False, pollsAgain=False, loopRan=True, tie=False, gathered=False, valueKept=True)
        jobs = [dict(base, log=logs.get(i, [])) for i in range(obs["nsub"])]
        for e, res in sorted(obs["results"].items()):
            rep = drv.ask({"op": "checklog", "jobs": jobs, "results": [i for i, _, _ in res], "complete": False})
            ck.count("checker:ok" if rep["check"] else "checker:false")
            if not rep["check"] and not any(b[0] in CHECKER_CLAUSES for b in py_bad):
                conj = next(k for k in ("monotone", "once", "complete", "terminal", "classified") if not rep[k])
                fails.insert(0, ("checker-" + conj, entry, {"evaluator": e, "job": rep.get("badMonotone")}))
            elif rep["check"] and any(CHECKER_CLAUSES.get(b[0]) in ("monotone", "once", "terminal") and
                                      (b[2].get("evaluator", e) == e) for b in py_bad):
                ck.mismatch(case, {"oracle-disagreement": "Python oracle reports a clause the verified checker accepts", "python": py_bad[:2]})
    for clause, ent, detail in fails[:1]:
        ck.fail(fingerprint_shared_ev(clause, ent, scn), f"{clause} ({ent}; several evaluators on one storage)", case, {"detail": detail})
    if obs.get("error"):
        return
    for lg in _logs_of(obs, 0).values():
        ck.count("log:" + "".join("RrDcC"[x] for x in lg))
    for rec in obs["ops"]:
        if rec["op"] in ("gather", "other"):
            for i in rec.get("orep") or []:
                ck.count("shared:collected-other:" + "RrDcC"[(_logs_of(obs, 0).get(i) or [0])[-1]])
    rep = drv.ask(lean_request_shared_ev(scn, obs))
    diff = _compare_shared_ev(scn, obs, rep)
    if diff:
        ties = _tie_jobs(rep)
        if ties:
            cand = {i for i in ties if f"job{i}.log" in diff or f"job{i}.start/ret/saw" in diff or f"job{i}.status" in diff}
            if not _compare_shared_ev(scn, obs, drv.ask(lean_request_shared_ev(scn, obs, jobfirst=cand))):
                ck.count("tie-resolved-by-jobFirst")
                diff = {}
    for mj in rep["jobs"]:
        ck.count("world_pc:" + mj["pc"])
    for mo in rep["outs"]:
        if mo.get("err"):
            ck.count("world_err:" + mo["err"])
    if diff:
        ck.mismatch(case, {"impl_vs_world_model": diff})


# clauses of the Python oracle that the verified checker (`checkStatusLog`, theorem C14_checker) also decides
CHECKER_CLAUSES = {
    "status-not-monotone": "monotone", "reported-twice": "once", "submitted-job-missing-from-results": "complete",
    "non-terminal-status-reported": "terminal", "no-timeout-but-cancelled": "classified",
    "finished-before-deadline-not-DONE": "classified", "running-at-deadline-never-saw-CANCELLING": "classified",
    "running-at-deadline-not-CANCELLED": "classified", "started-after-deadline-not-CANCELLED": "classified",
    "started-after-deadline-never-saw-CANCELLING": "classified", "value-not-kept": "classified",
    # multi-evaluator histories (`checkShared`, theorem C14_shared_checker): the status a table reports is the last one
    # written for the job; with monotone logs this also means that all the tables agree
    "reported-status-not-reached": "reached", "terminal-status-changed": "reached",
}
_RT_NUMBERS = {  # real time: ticks that put a job into the class the robust classification found
    "none": dict(start=0, ret=1, natEnd=1, deadline=None), "before": dict(start=0, ret=1, natEnd=1, deadline=3),
    "after": dict(start=0, ret=3, natEnd=5, deadline=2), "late": dict(start=5, ret=6, natEnd=9, deadline=1),
    "either": dict(start=0, ret=2, natEnd=2, deadline=2),
}


def build_obs(scn, obs, reported=None):
    """the observation handed to the verified checker: one record per submitted job (index = job id) built from
    the implementation's status-write log, the run-function's own record and the result table"""
    if obs.get("error") or obs.get("slog") is None:
        return None
    serial = scn.get("backend", "serial") == "serial"
    specs = scn["specs"]
    runlog = obs["runlog"]
    voff = int(scn.get("voff", 0))
    if reported is not None:
        reported = list(reported)
        complete = True
    elif scn["level"] == "search":
        rows = obs["calls"][-1]["rows"] if obs["calls"] else []
        reported = [(r["id"], r["status"], r["objective"]) for r in rows]
        complete = True
    else:
        reported = list(obs["results"])
        ops = scn["ops"]
        last_sub = max([k for k, o in enumerate(ops) if o["op"] == "submit"] + [-1])
        complete = any(o["op"] == "gather" and o.get("all") and k > last_sub for k, o in enumerate(ops)) and \
            all(r.get("err") is None for r in obs["ops"] if r["op"] == "gather")
    closed_inflight = set()
    if scn["level"] == "evaluator":
        for rec in obs["ops"]:
            if rec["op"] == "close":
                closed_inflight |= {i for i in rec["new"] if i not in runlog or "ret" not in runlog[i]}
    rep_status = {i: (s_, o_) for i, s_, o_ in reported}
    nsub = max([i for i, _ in obs["slog"]] + [r[0] for r in reported] + [-1]) + 1
    logs = _logs_of(obs, nsub)
    jobs = []
    for i in range(nsub):
        m, p = specs[i] if i < len(specs) else (0, 1)
        rl = runlog.get(i)
        fin = rep_status.get(i)
        gathered = fin is not None and i not in closed_inflight and rl is not None and "ret" in rl
        rec = dict(log=logs.get(i, []), start=0, ret=0, natEnd=0, deadline=None, saw=False, pollsAgain=False, loopRan=True,
                   tie=False, gathered=bool(gathered), valueKept=True)
        if rl is not None:
            rec["saw"] = bool(rl["reads"]) and rl["reads"][-1][1] == "CANCELLING"
            if serial:
                dl = _deadline_for(obs["timeline"], rl["start"])
                st = _tick(rl["start"])
                rec.update(start=st, ret=_tick(rl["ret"]) if "ret" in rl else st, natEnd=st + m * p,
                           deadline=None if dl is None else _tick(dl), pollsAgain=bool(m >= 1 and p >= 1))
            else:
                cl, dlo, _ = _realtime_class(scn, obs, i, rl)
                rec.update(_RT_NUMBERS[cl], tie=cl == "either", pollsAgain=bool(m * p * scn["unit"] >= 0.5))
                if dlo is not None and "ret" in rl:
                    rec["loopRan"] = _loop_ran(obs, dlo, rl["ret"])
        if gathered:
            try:
                rec["valueKept"] = float(fin[1]) == _expected(scn, i)
            except Exception:
                rec["valueKept"] = False
        jobs.append(rec)
    return {"op": "checklog", "jobs": jobs, "results": [i for i, _, _ in reported], "complete": bool(complete)}


def fingerprint(clause, entry, scn):
    if scn["level"] == "search":
        ks = [call_kind(c) for c in scn["calls"]]
        opt = f"history={','.join(ks[:-1]) or '-'};call={ks[-1]};backend={scn['backend']}"
        if scn.get("cbs"):
            opt += f";callbacks={_cb_names(scn['cbs'])}"
    else:
        names = [("gatherALL" if o.get("all") else "gatherBATCH") if o["op"] == "gather" else o["op"] for o in scn["ops"]]
        names = [n for k, n in enumerate(names) if k == 0 or names[k - 1] != n]  # repeats collapse
        opt = "ops=" + ",".join(names)
        opt += f";jobs>workers={sum(o.get('k', 0) for o in scn['ops']) > scn['W']};backend={scn.get('backend', 'serial')}"
    return f"C14|{clause}|{entry}|{opt}"


def shrink(scn, clause, budget=40):
    if scn.get("backend", "serial") != "serial":
        return scn
    if scn["level"] == "evaluator":
        # towards the canonical script: timeout, one submit of all jobs, gather ALL, close; then fewer jobs / workers
        def fails_e(c):
            nonlocal budget
            if budget <= 0:
                return False
            budget -= 1
            return any(cl == clause for cl, _, _ in oracle(c, run_scenario(c)))

        best = scn
        tos = [o for o in scn["ops"] if o["op"] == "timeout"]
        K = sum(o.get("k", 0) for o in scn["ops"])
        if tos and scn["ops"][0]["op"] == "timeout":
            cand = dict(scn, ops=[tos[0], {"op": "submit", "k": K}, {"op": "gather", "all": True}, {"op": "close"}])
            if cand["ops"] != scn["ops"] and fails_e(cand):
                best = cand
        if [o["op"] for o in best["ops"]] == ["timeout", "submit", "gather", "close"]:
            changed = True
            while changed and budget > 0:
                changed = False
                k = best["ops"][1]["k"]
                cands = []
                if k > 1:
                    cands.append(dict(best, ops=[best["ops"][0], {"op": "submit", "k": k - 1}] + best["ops"][2:], specs=best["specs"][: k - 1]))
                if best["W"] > 1:
                    cands.append(dict(best, W=1))
                for cand in cands:
                    if fails_e(cand):
                        best, changed = cand, True
                        break
        return best

    def fails(c):
        nonlocal budget
        if budget <= 0:
            return False
        budget -= 1
        o = run_scenario(c)
        return any(cl == clause for cl, _, _ in oracle(c, o))

    best = scn
    # shortest failing prefix
    for L in range(1, len(scn["calls"])):
        cand = dict(scn, calls=scn["calls"][:L])
        if fails(cand):
            best = cand
            break
    changed = True
    while changed and budget > 0:
        changed = False
        cands = [dict(best, calls=best["calls"][:j] + best["calls"][j + 1:]) for j in range(len(best["calls"]) - 1)]
        if best["W"] > 1:
            cands.append(dict(best, W=1))
        for j, c in enumerate(best["calls"]):
            if c.get("n") is not None and c.get("t") is not None and j < len(best["calls"]) - 1:
                cands.append(dict(best, calls=best["calls"][:j] + [dict(c, n=None, strict=False)] + best["calls"][j + 1:]))
            if c.get("strict") and j < len(best["calls"]) - 1:
                cands.append(dict(best, calls=best["calls"][:j] + [dict(c, strict=False)] + best["calls"][j + 1:]))
        if best.get("cbs") is not None:
            # which callbacks does the failure need?  none at all, else fewer of them; no slow ask; plain values;
            # the last call without its budget of evaluations
            cands.append({k: v for k, v in best.items() if k not in ("cbs", "vmode")})
            if len(best["cbs"]) > 1:
                cands += [dict(best, cbs=best["cbs"][:j] + best["cbs"][j + 1:]) for j in range(len(best["cbs"]))]
            if best.get("vmode", "up") != "up":
                cands.append(dict(best, vmode="up"))
            for j, c in enumerate(best["calls"]):
                if c.get("delays"):
                    cands.append(dict(best, calls=best["calls"][:j] + [{k: v for k, v in c.items() if k != "delays"}] + best["calls"][j + 1:]))
            c = best["calls"][-1]
            if c.get("n") is not None and c.get("t") is not None:
                cands.append(dict(best, calls=best["calls"][:-1] + [{k: v for k, v in c.items() if k not in ("n", "strict")}]))
        for cand in cands:
            if fails(cand):
                best, changed = cand, True
                break
    return best


# --------------------------------------------------------------------------- generators


def _specs_around(rng, n, c, W):
    """run-functions whose natural finish straddles the deadline tick c by -1/0/+1 (for jobs that start at 0 and
    for queued jobs that start later), with mixed poll intervals"""
    out = []
    for i in range(n):
        p = rng.choice([1, 1, 1, 2, 3])
        r = rng.random()
        if c is None or r < 0.2:
            m = rng.randint(0, 5)
        else:
            target = c + rng.choice([-1, 0, 0, 1, 1, 2]) - (0 if i < W else rng.choice([0, 1, 2, c]))
            m = max(0, target) // p if rng.random() < 0.5 else max(0, -(-max(0, target) // p))
        out.append([m, p])
    return out


def gen_evaluator(ck, n):
    rng = ck.rng
    out = []
    for t in range(n):
        W = rng.choice([1, 2, 2, 4])
        K = rng.randint(1, 8)
        c = rng.choice([None, 2, 3, 3, 4, 5])
        pat = rng.choice(["all", "all", "batches", "batch-close", "late-timeout", "batch2", "two-submits", "close-only"])
        ops = []
        if pat == "late-timeout":
            K1 = rng.randint(1, W)
            K2 = rng.randint(1, 6)
            ops = [{"op": "submit", "k": K1}, {"op": "gather", "all": False, "size": 1},
                   {"op": "timeout", "t": rng.choice([1, 2, 3])}, {"op": "submit", "k": K2},
                   {"op": "gather", "all": True}, {"op": "close"}]
            specs = _specs_around(rng, K1 + K2, 3, W)
            for s in specs[:K1]:
                s[0] = max(1, s[0])
        else:
            if c is not None:
                ops.append({"op": "timeout", "t": c})
            ops.append({"op": "submit", "k": K})
            total = K
            if pat == "all":
                ops += [{"op": "gather", "all": True}, {"op": "close"}]
            elif pat == "batches":
                ops += [{"op": "gather", "all": False, "size": 1} for _ in range(rng.randint(1, K))]
                ops += [{"op": "gather", "all": True}, {"op": "close"}]
            elif pat == "batch-close":
                ops += [{"op": "gather", "all": False, "size": 1} for _ in range(rng.randint(1, 2))]
                ops += [{"op": "close"}]
            elif pat == "batch2":
                ops += [{"op": "gather", "all": False, "size": rng.choice([2, 3, 9])}, {"op": "gather", "all": True}, {"op": "close"}]
            elif pat == "two-submits":
                K2 = rng.randint(1, 4)
                total += K2
                ops += [{"op": "gather", "all": False, "size": 1}, {"op": "submit", "k": K2}, {"op": "gather", "all": True}, {"op": "close"}]
            elif pat == "close-only":
                # right after submit no task has started: closing without letting the loop run cancels them READY
                ops += [{"op": "close", "settle": rng.random() < 0.5}]
            specs = _specs_around(rng, total, c, W)
            if pat == "batch2":
                specs = [[min(m, 3), p] for m, p in specs]  # gather("BATCH", k>=2) busy-spins: keep it short
        scn = {"level": "evaluator", "backend": "serial", "W": W, "specs": specs, "ops": ops, "src": "evaluator:" + pat}
        if pat in ("batch-close", "close-only", "all") and rng.random() < 0.4:
            scn["hpo"] = True  # HPOJobs: close() with jobs in flight reports "F_CANCELLED"
            scn["src"] += ":hpo"
        out.append(scn)
    # a gather with nothing submitted
    out.append({"level": "evaluator", "backend": "serial", "W": 1, "specs": [], "ops": [{"op": "submit", "k": 0}, {"op": "gather", "all": False, "size": 1}], "src": "evaluator:malformed"})
    return out


def _rand_call(rng, kinds):
    k = rng.choice(kinds)
    c = {}
    if k in "PSBQ":
        c["n"] = rng.choice([1, 2, 3, 5])
    if k in "SQ":
        c["strict"] = True
    if k in "TBQ":
        c["t"] = rng.choice([2, 3, 3, 4, 5])
    return c


def gen_search(ck, n):
    rng = ck.rng
    out = []
    fam = [["T", "P"], ["T", "S"], ["B", "P"], ["T", "T"], ["S", "T"], ["P", "T", "P"], ["T", "B", "S"]]
    for t in range(n):
        W = rng.choice([1, 2, 2, 4])
        seq = fam[t % len(fam)] if t < 3 * len(fam) else [rng.choice("PSTTBBQ") for _ in range(rng.choice([1, 2, 3]))]
        calls = [_rand_call(rng, k) for k in seq]
        c = next((x["t"] for x in calls if x.get("t") is not None), 3)
        specs = _specs_around(rng, 60, c, W)
        specs = [[max(1, m), p] for m, p in specs]  # timeout-only calls need jobs that take time
        src = "search"
        if rng.random() < 0.35:
            # a slow ask(): the clock passes the deadline between the time_left test and the next submit, so the
            # evaluation is started after the expiry
            # (the serial backend's ask() blocks the event loop: the model covers a slow ask only while nothing is
            # in flight, i.e. any ask with one worker, the first ask of a call otherwise)
            for x in calls:
                if x.get("t") is not None:
                    if W == 1:
                        x["delays"] = [rng.choice([0, 0, 1]) for _ in range(rng.randint(0, 2))] + [rng.randint(1, x["t"] + 1)]
                    else:
                        x["delays"] = [rng.randint(x["t"] - 1, x["t"] + 2)]
                    src = "search:slow-ask"
        out.append({"level": "search", "backend": "serial", "W": W, "specs": specs, "calls": calls, "src": src})
    return out


CB_CHOICES = [
    # (callbacks of the evaluator, value mode): "up" = every evaluation improves on the previous ones (an early-stopping
    # callback never fires), "down" = none after the first does (it fires after patience + 1 evaluations)
    (["logger"], "up"), (["tqdm"], "up"),
    ([["es", 2]], "up"), ([["es", 50]], "down"),                      # early stopping that never fires
    ([["es", 1]], "down"), ([["es", 2]], "down"), ([["es", 4]], "down"),  # ... that fires before / around / after the deadline
    ([["user", None]], "up"), ([["user", 2]], "up"), ([["user", 5]], "up"),
    (["logger", ["es", 3]], "up"), ([["es", 50], "logger"], "down"), ([["user", None], ["es", 2]], "up"),
    ([["es", 3], ["user", None]], "down"), ([["user", 3], ["es", 50]], "down"),
]


def gen_search_callbacks(ck, n):
    """serial backend, virtual clock: sequences of 1-3 search() calls on an evaluator created with `callbacks=[...]`
    (an option of every evaluator): logger / progress bar (no `search_stopped` attribute), SearchEarlyStopping that never
    fires, that fires before / around / after the deadline, a user's own callback with a `search_stopped` attribute, and
    combinations; the callback objects live across the calls (a fired one stays fired)"""
    rng = ck.rng
    out = []
    fam = [["T"], ["B"], ["T", "T"], ["Q"], ["T", "P"], ["B", "T"], ["P", "T"], ["T", "B", "T"]]
    for t in range(n):
        cbs, vmode = CB_CHOICES[t % len(CB_CHOICES)]
        W = rng.choice([1, 2, 2, 4])
        seq = fam[(t // len(CB_CHOICES)) % len(fam)] if t < 4 * len(CB_CHOICES) else \
            [rng.choice("PTTTBBQ") for _ in range(rng.choice([1, 2, 3]))]
        if not any(k in "TBQ" for k in seq):
            seq[-1] = "T"
        calls = [_rand_call(rng, k) for k in seq]
        for x in calls:
            if x.get("n") is not None and x.get("t") is not None:
                x["n"] = rng.choice([3, 5, 8, 12])  # room for the callback / the deadline to come first
        c = next((x["t"] for x in calls if x.get("t") is not None), 3)
        # mostly short evaluations (several iterations of the loop before the deadline: the flag logic at the end of each
        # one is what these scenarios are about), some straddling the deadline as in gen_search
        around = _specs_around(rng, 120, c, W)
        specs = []
        for m, p in around:
            if rng.random() < 0.7:
                p = rng.choice([1, 1, 2])
                m = max(1, rng.choice([1, 1, 1, 2, 2, 3]) // p)
            specs.append([max(1, m), p])
        src = "search:callbacks"
        if rng.random() < 0.25:
            for x in calls:  # a slow ask(), under the same restriction as in gen_search
                if x.get("t") is not None:
                    if W == 1:
                        x["delays"] = [rng.choice([0, 0, 1]) for _ in range(rng.randint(0, 2))] + [rng.randint(1, x["t"] + 1)]
                    else:
                        x["delays"] = [rng.randint(x["t"] - 1, x["t"] + 2)]
                    src = "search:callbacks:slow-ask"
        out.append({"level": "search", "backend": "serial", "W": W, "specs": specs, "calls": calls, "cbs": [d for d in cbs],
                    "vmode": vmode, "src": src})
    return out


def gen_callbacks_realtime(ck, n, backend):
    """thread / process backend, real time: a timed search() on an evaluator with callbacks that do not fire before the
    deadline (early stopping whose patience is never reached, logger, a user's callback)"""
    rng = ck.rng
    out = []
    unit = 0.05
    choices = [([["es", 3]], "up"), (["logger", ["es", 50]], "down"), ([["user", None]], "up")]
    for t in range(n):
        cbs, vmode = choices[t % len(choices)]
        W = rng.choice([1, 2])
        tt = 1 if backend == "thread" else 2
        calls = [{"t": tt}] if t % 2 == 0 else [{"t": tt, "n": 12}]
        specs = []
        for i in range(80):
            p = rng.choice([1, 2])
            dur = rng.choice([0.25, 0.5, 0.5, 0.75])
            specs.append([int(round(dur / (p * unit))), p])
        out.append({"level": "search", "backend": backend, "W": W, "specs": specs, "calls": calls, "unit": unit,
                    "cbs": [d for d in cbs], "vmode": vmode, "src": f"{backend}:callbacks"})
    return out



def gen_shared_callbacks(ck, n):
    """serial backend: histories of 2-3 search() calls by 2 evaluators on one storage, each created with its own
    callbacks (their `on_done_other` sees the jobs collected from the other evaluator)"""
    rng = ck.rng
    out = []
    fam = [[(0, "T"), (1, "T")], [(0, "T"), (1, "B")], [(0, "B"), (1, "T"), (0, "T")], [(0, "T"), (1, "P"), (1, "T")]]
    for t in range(n):
        seq = fam[t % len(fam)]
        Ws = [rng.choice([1, 2, 2, 4]) for _ in range(2)]
        calls = [dict(_rand_call(rng, kind), k=k) for k, kind in seq]
        for x in calls:
            if x.get("n") is not None and x.get("t") is not None:
                x["n"] = rng.choice([3, 5, 8])
        c0, vmode = CB_CHOICES[(2 * t) % len(CB_CHOICES)]
        c1, _ = CB_CHOICES[(2 * t + 1 + t // len(CB_CHOICES)) % len(CB_CHOICES)]
        c = next((x["t"] for x in calls if x.get("t") is not None), 3)
        specs = []
        for m, p in _specs_around(rng, 120, c, max(Ws)):
            if rng.random() < 0.7:
                p = rng.choice([1, 1, 2])
                m = max(1, rng.choice([1, 1, 1, 2, 2, 3]) // p)
            specs.append([max(1, m), p])
        out.append({"level": "shared", "backend": "serial", "Ws": Ws, "voff": 1, "vmode": vmode, "specs": specs, "calls": calls,
                    "cbs": [list(c0), list(c1)], "src": "shared:callbacks"})
    return out



def gen_shared(ck, n, nzero):
    """serial backend, virtual clock: histories of 2-4 search() calls made by 2-3 evaluators attached to one storage and
    one search_id (call kinds as in gen_search; the evaluator of the first call creates the search, the others continue
    it).  `nzero` of them with value offset 0 (job 0 returns the objective 0.0)"""
    rng = ck.rng
    out = []
    fam = [[(0, "T"), (1, "T")], [(0, "T"), (1, "P")], [(0, "T"), (1, "T"), (0, "P")], [(0, "B"), (1, "T"), (2, "T")],
           [(0, "P"), (1, "T")], [(0, "T"), (1, "S")], [(0, "T"), (0, "P"), (1, "T")], [(0, "T"), (1, "Q"), (0, "T")],
           [(0, "T"), (1, "B"), (2, "P")], [(0, "Q"), (1, "T"), (0, "T"), (1, "P")]]
    for t in range(n + nzero):
        if t < len(fam):
            seq = fam[t]
        else:
            E = rng.choice([2, 2, 3])
            L = rng.choice([2, 3, 3, 4])
            ks = [0] + [rng.randrange(E) for _ in range(L - 1)]
            if len(set(ks)) < 2:
                ks[-1] = 1
            seq = [(k, rng.choice("PSTTTBBQ")) for k in ks]
        E = max(k for k, _ in seq) + 1
        Ws = [rng.choice([1, 2, 2, 4]) for _ in range(E)]
        calls = [dict(_rand_call(rng, kind), k=k) for k, kind in seq]
        c = next((x["t"] for x in calls if x.get("t") is not None), 3)
        specs = _specs_around(rng, 60, c, max(Ws))
        specs = [[max(1, m), p] for m, p in specs]
        src = "shared"
        if rng.random() < 0.25:
            for x in calls:  # a slow ask(), under the same restriction as in gen_search
                if x.get("t") is not None:
                    if Ws[x["k"]] == 1:
                        x["delays"] = [rng.choice([0, 0, 1]) for _ in range(rng.randint(0, 2))] + [rng.randint(1, x["t"] + 1)]
                    else:
                        x["delays"] = [rng.randint(x["t"] - 1, x["t"] + 2)]
                    src = "shared:slow-ask"
        voff = 0 if t >= n else 1
        if voff == 0:
            src += ":zero-objective"
        out.append({"level": "shared", "backend": "serial", "Ws": Ws, "voff": voff, "specs": specs, "calls": calls, "src": src})
    return out


def gen_shared_evaluator(ck, n):
    """serial backend: op scripts on 2 evaluators attached to one storage; an evaluator acts only while the other has
    nothing in flight.  Patterns: continue (e0 gathers everything, e1 submits and gathers: its gather returns e0's jobs
    as `other`; e0 then collects e1's), closed-inflight (e0's close() records in-flight jobs as CANCELLED "F_CANCELLED",
    possibly leaves one CANCELLING; e1 collects what has an output), direct (gather_other_jobs_done called directly,
    twice)"""
    rng = ck.rng
    out = []
    for t in range(n):
        Ws = [rng.choice([1, 2, 2, 4]), rng.choice([1, 2])]
        c = rng.choice([None, 2, 3, 3, 4])
        K = rng.randint(1, 6)
        K2 = rng.randint(1, 3)
        pat = ["continue", "closed-inflight", "direct"][t % 3]
        ops = []
        if c is not None:
            ops.append({"e": 0, "op": "timeout", "t": c})
        ops.append({"e": 0, "op": "submit", "k": K})
        if pat == "continue":
            ops += [{"e": 0, "op": "gather", "all": True}]
            if rng.random() < 0.5:
                ops.append({"e": 1, "op": "timeout", "t": rng.choice([1, 2, 3])})
            ops += [{"e": 1, "op": "submit", "k": K2}, {"e": 1, "op": "gather", "all": True},
                    {"e": 0, "op": "other"}, {"e": 1, "op": "close"}, {"e": 0, "op": "close"}]
        elif pat == "closed-inflight":
            K = max(K, Ws[0] + 1)
            ops[-1]["k"] = K
            ops += [{"e": 0, "op": "gather", "all": False, "size": 1}, {"e": 0, "op": "close"},
                    {"e": 1, "op": "submit", "k": K2}, {"e": 1, "op": "gather", "all": True}, {"e": 1, "op": "other"},
                    {"e": 1, "op": "close"}]
        else:
            ops += [{"e": 0, "op": "gather", "all": True}, {"e": 1, "op": "other"}, {"e": 1, "op": "other"},
                    {"e": 1, "op": "submit", "k": K2}, {"e": 1, "op": "gather", "all": False, "size": 1},
                    {"e": 1, "op": "gather", "all": True}, {"e": 0, "op": "gather", "all": True}, {"e": 0, "op": "close"},
                    {"e": 1, "op": "close"}]
        specs = _specs_around(rng, K + K2, c, Ws[0])
        if pat == "closed-inflight":
            specs = [[max(1, m), p] for m, p in specs]
        out.append({"level": "shared-evaluator", "backend": "serial", "Ws": Ws, "voff": 1, "specs": specs, "ops": ops,
                    "src": "shared-evaluator:" + pat})
    return out


def gen_shared_realtime(ck, n, backend):
    """thread / process backend, real time: a first search ends by its timeout with evaluations DONE before it and
    evaluations running at it (CANCELLED, values kept); a second evaluator on the same storage / search_id continues
    (by timeout or by budget), sometimes the first one once more"""
    rng = ck.rng
    out = []
    unit = 0.05
    fam = [[(0, "T"), (1, "T")], [(0, "T"), (1, "P")], [(0, "T"), (1, "T"), (0, "P")], [(0, "B"), (1, "P")]]
    for t in range(n):
        seq = fam[t % len(fam)]
        E = max(k for k, _ in seq) + 1
        Ws = [rng.choice([1, 2]) for _ in range(E)]
        t0 = 1 if backend == "thread" else 2
        calls = []
        for k, kind in seq:
            c = {"k": k}
            if kind in "PB":
                c["n"] = rng.choice([1, 2]) if kind == "P" else 8
            if kind in "TB":
                c["t"] = t0
            calls.append(c)
        specs = []
        for i in range(80):
            p = rng.choice([1, 2])
            if i < Ws[0]:
                dur = 0.25 if (i % 2 == 0 and Ws[0] > 1) else t0 + 0.75  # short and long evaluations side by side
            else:
                dur = rng.choice([0.25, 0.5, 0.5, 0.75, t0 + 0.75, t0 + 1.5])
            specs.append([int(round(dur / (p * unit))), p])
        out.append({"level": "shared", "backend": backend, "Ws": Ws, "voff": 1, "specs": specs, "calls": calls, "unit": unit,
                    "src": f"shared:{backend}"})
    return out


def gen_busy_realtime(ck, backend, variants):
    """the caller is busy between two gathers (thread / process): job A is collected by gather("BATCH", 1), job B returns
    while the loop is not running -- variant "after": B's run ends after the expiry (must be CANCELLED), variant
    "before": B's run ends well before the expiry although the loop only resumes after it (must be DONE)"""
    rng = ck.rng
    out = []
    unit = 0.05
    for v in variants:
        t = 1
        dB = t + 0.5 if v == "after" else t - 0.5
        p = rng.choice([1, 2])
        specs = [[int(round(0.25 / unit)), 1], [int(round(dB / (p * unit))), p]]
        ops = [{"op": "timeout", "t": t}, {"op": "submit", "k": 2}, {"op": "gather", "all": False, "size": 1},
               {"op": "busy", "until": t + 1.0 if v == "after" else t + 0.5}, {"op": "gather", "all": True}, {"op": "close"}]
        out.append({"level": "evaluator", "backend": backend, "W": 2, "specs": specs, "ops": ops, "unit": unit,
                    "src": f"evaluator:{backend}:caller-busy:{v}"})
    return out


def gen_busy_serial(ck, n):
    """serial backend: the virtual clock advances between two gathers while the loop is not running (jobs in flight)"""
    rng = ck.rng
    out = []
    for _ in range(n):
        W = rng.choice([2, 3])
        c = rng.choice([2, 3, 4])
        K = W + rng.choice([0, 1, 2])
        specs = [[1, 1]] + _specs_around(rng, K - 1, c + 1, W)
        specs = [[max(1, m), p] for m, p in specs]
        ops = [{"op": "timeout", "t": c}, {"op": "submit", "k": K}, {"op": "gather", "all": False, "size": 1},
               {"op": "busy", "d": rng.randint(1, c + 2)}, {"op": "gather", "all": True}, {"op": "close"}]
        out.append({"level": "evaluator", "backend": "serial", "W": W, "specs": specs, "ops": ops, "src": "evaluator:caller-busy"})
    return out


def gen_realtime_evaluator(ck, n, backend):
    """more jobs than workers under an evaluator timeout, real time: one job finishes before the expiry, others are
    running at the expiry, the rest is still queued behind the semaphore at the expiry"""
    rng = ck.rng
    out = []
    unit = 0.05
    for k in range(n):
        W = 1 if k % 2 == 0 else 2
        t = rng.choice([1, 1, 2])
        K = W + rng.choice([2, 2, 3])
        durs = [0.5] + [t + 0.75] * (W - 1) + [rng.choice([1.0, 1.5]) if W == 1 else rng.choice([0.75, 1.0]) for _ in range(K - W)]
        specs = []
        for d in durs:
            p = rng.choice([1, 2])
            specs.append([int(round(d / (p * unit))), p])
        ops = [{"op": "timeout", "t": t}, {"op": "submit", "k": K}, {"op": "gather", "all": True}, {"op": "close"}]
        out.append({"level": "evaluator", "backend": backend, "W": W, "specs": specs, "ops": ops, "unit": unit,
                    "src": f"evaluator:{backend}:queued-at-expiry"})
    return out


def gen_realtime(ck, n, backend):
    """timeouts 1-2 s, durations on a 0.25 s grid; polls every 0.05 or 0.1 s"""
    rng = ck.rng
    out = []
    fam = [["T"], ["T", "P"], ["B", "T"], ["T", "S"]]
    for t in range(n):
        W = rng.choice([1, 2, 4])
        seq = fam[t % len(fam)]
        calls = []
        for k in seq:
            c = {}
            if k in "PSB":
                c["n"] = rng.choice([1, 2])
            if k == "S":
                c["strict"] = True
            if k in "TB":
                c["t"] = rng.choice([1, 2]) if backend == "thread" else 2
            calls.append(c)
        unit = 0.05
        specs = []
        for i in range(80):
            p = rng.choice([1, 2])
            dur = rng.choice([0.25, 0.5, 0.5, 0.75, 1.25, 1.5, 1.75, 2.5])
            specs.append([int(round(dur / (p * unit))), p])
        out.append({"level": "search", "backend": backend, "W": W, "specs": specs, "calls": calls, "unit": unit, "src": backend})
    return out


# --------------------------------------------------------------------------- comparison (L2)


def _compare_serial(ck, scn, obs, rep, case):
    """model reply vs observations; returns a dict of differences (empty = agree)"""
    diff = {}
    jobs = rep["jobs"]
    nsub = len(jobs)
    logs = _logs_of(obs, nsub)
    if sorted(logs) != list(range(nsub)):
        diff["njobs"] = (len(logs), nsub)
        return diff
    if scn["level"] == "evaluator":
        for k, (rec, mo) in enumerate(zip(obs["ops"], rep["outs"])):
            if rec.get("err") != mo["err"]:
                diff[f"op{k}.err"] = (rec.get("err"), mo["err"])
            if rec["now"] != mo["now"]:
                diff[f"op{k}.now"] = (rec["now"], mo["now"])
        real_results = [i for i, _, _ in obs["results"]]
        final = obs["final"]
    else:
        for k, (rec, mo) in enumerate(zip(obs["calls"], rep["outs"])):
            if mo["stop"] not in ("budget", "cap", "timeout"):
                diff[f"call{k}.stop"] = mo["stop"]
            elif (mo["stop"] != "budget") != rec["stopped"]:
                diff[f"call{k}.stopped"] = (rec["stopped"], mo["stop"])
            if rec["now"] != mo["now"]:
                diff[f"call{k}.now"] = (rec["now"], mo["now"])
            if len(rec["rows"]) != mo["nresults"]:
                diff[f"call{k}.rows"] = (len(rec["rows"]), mo["nresults"])
            _flags_diff(diff, f"call{k}", rec, mo, obs["timeline"][k][1])
        rows = obs["calls"][-1]["rows"] if obs["calls"] else []
        real_results = [r["id"] for r in rows]
        final = {r["id"]: r["status"] for r in rows}
    if real_results != rep["results"]:
        diff["results"] = (real_results, rep["results"])
    for i, mj in enumerate(jobs):
        if logs[i] != mj["log"]:
            diff[f"job{i}.log"] = (logs[i], mj["log"])
        if i in final and ST[final[i]] != mj["status"]:
            diff[f"job{i}.status"] = (final[i], mj["status"])
        rl = obs["runlog"].get(i)
        if mj["pc"] in ("gathered", "returned"):
            if rl is None or "ret" not in rl:
                diff[f"job{i}.returned"] = ("not returned", mj["pc"])
            else:
                got = (_tick(rl["start"]), _tick(rl["ret"]), rl["reads"][-1][1] == "CANCELLING")
                want = (mj["start"], mj["ret"], mj["saw"])
                if got != want:
                    diff[f"job{i}.start/ret/saw"] = (got, want)
        elif rl is not None and "ret" in rl:
            diff[f"job{i}.returned"] = ("returned", mj["pc"])
    if scn["level"] == "evaluator":
        for (i, s, o) in obs["results"]:
            mj = jobs[i]
            want = {"none": None, "F": "F_CANCELLED"}.get(mj["out"][0], float(mj["out"][1]) if mj["out"][0] == "val" else None)
            if o != want:
                diff[f"job{i}.output"] = (o, want)
    else:
        for r in rows:
            mj = jobs[r["id"]]
            want = float(mj["out"][1]) if mj["out"][0] == "val" else "F_CANCELLED"
            if r["objective"] != want:
                diff[f"job{r['id']}.objective"] = (r["objective"], want)
    return diff


def _tie_jobs(rep):
    """jobs one of whose reads (or whose acquisition) falls exactly on the deadline tick"""
    out = set()
    for i, mj in enumerate(rep["jobs"]):
        c = mj.get("armed")
        if c is not None and mj["pc"] != "created" and (mj["ret"] == c or mj["start"] == c):
            out.add(i)
    return out


def _case_of(scn, obs=None):
    case = {k: scn[k] for k in ("level", "backend", "W", "Ws", "voff", "vmode", "cbs", "specs", "ops", "calls", "rounds", "unit", "hpo") if k in scn}
    if scn["level"] == "multi-evaluator":
        return case
    if scn["level"] == "multi":
        if obs is not None and obs.get("sids"):
            used = {}
            for jid in obs.get("runlog", {}):
                sid, i = jid.split(".")
                if sid in obs["sids"]:
                    used[obs["sids"].index(sid)] = max(used.get(obs["sids"].index(sid), 0), int(i))
            case["specs"] = [sp[: used.get(k, 0) + 4] for k, sp in enumerate(case["specs"])]
        return case
    if scn["level"] in ("search", "shared") and obs is not None:
        used = [i for i in obs.get("runlog", {})] + [0]
        case["specs"] = case["specs"][: max(used) + 4]  # the run-functions of the jobs that ran (+ a few)
    return case


def _judge_shared(ck, case, scn, obs, drv, py_bad):
    """L3 on a history of search() calls on one storage / one search_id: the verified checker `checkShared` on the real
    status log and tables decides; the Python oracle names the clause, owns the clauses outside the checker, and a clause
    it reports while the checker accepts is a broken correspondence.  -> the failures [(clause, entry, detail)]"""
    entry = "Search.search"
    req = build_shared_obs(scn, obs)
    if req is None:
        ck.count("checker:not-applicable(no status log)")
        return list(py_bad)
    rep = drv.ask(req)
    ck.count("sharedchecker:ok" if rep["check"] else "sharedchecker:false")
    # (the status the storage shows at the very end is not part of the checker's observation: that variant of
    # terminal-status-changed is the Python oracle's alone)
    in_checker = lambda b: b[0] in CHECKER_CLAUSES and not (isinstance(b[2], dict) and "in_storage_at_the_end" in b[2])
    py_core = [b for b in py_bad if in_checker(b)]
    fails = [b for b in py_bad if not in_checker(b)]
    if not rep["check"]:
        if not rep["monotone"]:
            conj, badjob = "monotone", rep.get("badMonotone")
        else:
            bt = rep["badTable"]
            conj = next((k for k in ("once", "complete", "terminal", "classified", "reached") if not bt[k]), "table")
            badjob = bt.get("badClassified") if conj == "classified" else bt.get("badRow") if conj == "reached" else None
        agree = [b for b in py_core if CHECKER_CLAUSES[b[0]] == conj] or py_core
        if agree:
            fails.insert(0, agree[0])
        else:
            ck.count("checker:python-oracle-missed")
            fails.insert(0, ("checker-" + conj, entry, {"job": badjob, "table": rep.get("badTable"),
                                                      "record": req["jobs"][badjob] if isinstance(badjob, int) and badjob < len(req["jobs"]) else None}))
    elif py_core:
        ck.mismatch(case, {"oracle-disagreement": "Python oracle reports a clause the verified checker accepts", "python": py_core[:2]})
    return fails


def _check_shared(ck, scn, obs, drv, do_shrink=True):
    """a history of search() calls of several evaluators on one storage: verified checker `checkShared` on the real
    status log and tables (L3, with the Python oracle as cross-check and for the clause names), world model (L2, serial)"""
    case = _case_of(scn, obs)
    ck.case(case, nontrivial=bool(obs.get("runlog")) and len({c["k"] for c in scn["calls"]}) >= 2)
    ck.count("src:" + scn["src"])
    ck.count(f"evaluators={len(scn['Ws'])}")
    serial = scn["backend"] == "serial"
    entry = "Search.search"
    fails = _judge_shared(ck, case, scn, obs, drv, oracle_shared(scn, obs))
    for clause, ent, detail in fails[:1]:
        s2 = shrink_shared(scn, clause) if (do_shrink and not clause.startswith("checker-")) else scn
        o2 = obs if s2 is scn else run_scenario(s2)
        ck.fail(fingerprint_shared(clause, ent, s2), f"{clause} ({ent}; several evaluators on one storage)", _case_of(s2, o2),
                {"detail": detail, "unshrunk": case if s2 is not scn else None})
    if obs.get("error"):
        return
    # histogram of what was exercised
    logs = _logs_of(obs, 0)
    for lg in logs.values():
        ck.count("log:" + "".join("RrDcC"[x] for x in lg))
    owner = obs.get("owner") or {}
    for rec in obs["calls"]:
        others = [i for pair in rec["reps"] + [rec["drain"]] for i in pair[1]]
        ck.count("shared:other-jobs-collected-by-a-call=" + (">=1" if others else "0"))
        for i in others:
            lg = logs.get(i) or [0]
            ck.count("shared:collected-other:" + "RrDcC"[lg[-1]])
    if not serial:
        return
    # ---- L2: the world model replays the history with the observed reports
    rep = drv.ask(lean_request_shared(scn, obs))
    diff = _compare_shared(scn, obs, rep)
    if diff:
        ties = _tie_jobs(rep)
        if ties:
            cand = {i for i in ties if f"job{i}.log" in diff or f"job{i}.start/ret/saw" in diff or f"job{i}.status" in diff}
            rep2 = drv.ask(lean_request_shared(scn, obs, jobfirst=cand))
            if not _compare_shared(scn, obs, rep2):
                ck.count("tie-resolved-by-jobFirst")
                diff = {}
    for mo in rep["outs"]:
        if mo.get("stop"):
            ck.count("world_stop:" + mo["stop"])
    if diff:
        ck.mismatch(case, {"impl_vs_world_model": diff})


# --------------------------------------------------------------------------- several searches recorded in one storage


def _project_multi(scn, obs, k):
    """what search k (the one opened by evaluator k) looks like on its own: the scenario and the observations of a
    history of search() calls of ONE evaluator on one storage / one search_id (level "shared"), built from the writes,
    run-function records, tables and final statuses of the jobs whose full id starts with that search's id"""
    sid = obs["sids"][k]
    pre = sid + "."
    recs = [r for r in obs["calls"] if r["k"] == k]
    calls = [dict({x: v for x, v in scn["calls"][r["j"]].items() if x != "k"}, k=0) for r in recs]
    scn_k = {"level": "shared", "backend": scn["backend"], "Ws": [scn["Ws"][k]], "voff": int(scn.get("voff", 0)),
             "specs": scn["specs"][k], "calls": calls, "src": scn.get("src", "")}
    if "unit" in scn:
        scn_k["unit"] = scn["unit"]
    serial = scn["backend"] == "serial"
    ocalls = [dict(r, k=0, now=_tick(r["end"]) if serial else None) for r in recs]
    timeline = [(r["T0"], r["dl"]) for r in recs]
    runlog = {int(jid[len(pre):]): dict(rl) for jid, rl in obs["runlog"].items() if jid.startswith(pre)}
    slog = [(int(jid[len(pre):]), code) for kind, jid, code in obs["elog"] if kind == "w" and jid.startswith(pre)]
    final = {int(jid[len(pre):]): v for jid, v in (obs.get("final_storage") or {}).items() if jid.startswith(pre)}
    njobs = len([1 for s_, _ in obs["created"] if s_ == sid])
    obs_k = {"calls": ocalls, "error": None, "timeline": timeline, "owner": {i: 0 for i in range(njobs)}, "slog": slog,
             "runlog": runlog, "final_storage": final}
    return scn_k, obs_k


def lean_request_multi(scn, obs, jobfirst=()):
    """the whole history for the model of one storage object holding several searches (`Model/MultiSearch.lean`, driver op
    `store`): search k = the one opened by evaluator k, one evaluator on each; the calls in the order in which they were
    made, each with the reports observed for it; `jobfirst`: the (search, index) pairs that win their ties"""
    searches = []
    for k, W in enumerate(scn["Ws"]):
        sp = [[int(m), int(p), (k, i) in jobfirst, int(_expected(scn, i))] for i, (m, p) in enumerate(scn["specs"][k])]
        searches.append({"Ws": [W], "hpo": True, "specs": sp})
    acts = []
    for rec in obs["calls"]:
        c = scn["calls"][rec["j"]]
        acts.append({"s": rec["k"], "e": 0, "op": "search", "n": -1 if c.get("n") is None else c["n"], "strict": bool(c.get("strict")),
                     "timeout": c.get("t"), "reps": rec["reps"], "drain": rec["drain"], "delays": list(c.get("delays") or [])})
    return {"op": "store", "searches": searches, "acts": acts}


def _compare_multi(scn, obs, rep):
    """model of the storage with its searches vs observations, search by search (clock, stop reason, rows, every job's write
    log / final status / start / return / last read, the table) -> {search: differences}, ties per search"""
    diffs, ties = {}, set()
    for k in range(len(scn["Ws"])):
        scn_k, obs_k = _project_multi(scn, obs, k)
        if k >= len(rep["searches"]):
            diffs[k] = {"search": "not in the model's storage"}
            continue
        ms = rep["searches"][k]
        rep_k = {"jobs": ms["jobs"], "results": ms["results"],
                 "outs": [o for o, rec in zip(rep["outs"], obs["calls"]) if rec["k"] == k]}
        if not obs_k["calls"] and not ms["jobs"]:
            continue
        d = _compare_shared(scn_k, obs_k, rep_k)
        if d:
            diffs[k] = d
            ties |= {(k, i) for i in _tie_jobs(rep_k) if f"job{i}.log" in d or f"job{i}.start/ret/saw" in d or f"job{i}.status" in d}
    return diffs, ties


def _multi_error(obs):
    err = obs["error"]
    clause = "keeps-submitting-after-expiry" if err.startswith("keeps-submitting-after-expiry") else \
        "does-not-return" if "does-not-return" in err or "vloop" in err else "raises"
    return [(clause, "Search.search", {"error": err, "call": obs.get("error_call"), "asks": obs.get("error_asks"), "tells": obs.get("error_tells")})]


def oracle_multi_cross(scn, obs):
    """the clauses that need the FULL job ids (a storage that holds several searches): (a) the status of each job as the
    storage shows it over time -- every write and every read (`job.status` inside the run-function, `_on_done`, `close`,
    the `job_status` column of a table, `load_job_status` at the end), in the order in which they took effect -- only
    moves forward; (b) the jobs the storage lists for a search are exactly the jobs created for it"""
    entry = "Search.search"
    bad = []
    sid2k = {sid: k for k, sid in enumerate(obs.get("sids") or [])}
    seqs = {}
    for kind, jid, code in obs.get("elog") or []:
        seqs.setdefault(jid, []).append((kind, code))
    for jid, seq in sorted(seqs.items()):
        prev = None
        for n, (kind, code) in enumerate(seq):
            if prev is not None and code not in FWD.get(prev, ()):
                ev = []
                for kd, cd in seq[:n + 1]:  # compact: consecutive repeats collapse
                    x = f"{'read' if kd == 'r' else 'write'}:{'RrDcC'[cd] if 0 <= cd < 5 else cd}"
                    if not ev or ev[-1] != x:
                        ev.append(x)
                bad.append(("observed-status-not-monotone", entry,
                            {"job": jid, "search": sid2k.get(jid.split(".")[0]), "went": [prev, code], "events(R=READY,r=RUNNING,D=DONE,c=CANCELLING,C=CANCELLED)": ev[-12:]}))
                break
            prev = code
    for k, sid in enumerate(obs.get("sids") or []):
        made = sorted(j for s_, j in obs["created"] if s_ == sid)
        listed = sorted((obs.get("listed") or {}).get(k) or [])
        if made != listed or any(not j.startswith(sid + ".") for j in made):
            bad.append(("search-job-list-wrong", entry, {"search": k, "created_for_it": made[:20], "listed_for_it": listed[:20]}))
    return bad


def oracle_multi(scn, obs):
    """the property on a history of search() calls of several evaluators that share ONE storage object but own a search
    EACH: every search, taken on its own (jobs identified by their full id), satisfies every clause of `oracle_shared`
    (monotone writes, terminal statuses final, its tables list exactly its own jobs with the statuses they reached,
    classification against ITS OWN timeouts, value kept, returns), plus the cross-search clauses"""
    if obs.get("error"):
        return _multi_error(obs)
    bad = []
    for k in range(len(scn["Ws"])):
        scn_k, obs_k = _project_multi(scn, obs, k)
        for cl, ent, det in oracle_shared(scn_k, obs_k):
            bad.append((cl, ent, dict(det, search=k) if isinstance(det, dict) else det))
    return bad + oracle_multi_cross(scn, obs)


def _canon_multi(scn):
    """evaluators (= searches) renumbered by first use, unused ones dropped"""
    order = []
    for c in scn["calls"]:
        if c["k"] not in order:
            order.append(c["k"])
    if order == list(range(len(scn["Ws"]))):
        return scn
    return dict(scn, Ws=[scn["Ws"][k] for k in order], specs=[scn["specs"][k] for k in order],
                calls=[dict(c, k=order.index(c["k"])) for c in scn["calls"]])


def shrink_multi(scn, clause, budget=30):
    """serial, one call after the other: fewer calls, plain `max_evals=1` calls where the failure survives, no slow ask,
    no budget next to a timeout, one worker each"""
    if scn["backend"] != "serial" or scn.get("rounds"):
        return scn

    def fails(c):
        nonlocal budget
        if budget <= 0:
            return False
        budget -= 1
        return any(cl == clause for cl, _, _ in oracle_multi(c, run_scenario(c)))

    def with_call(b, j, c):
        return dict(b, calls=b["calls"][:j] + [c] + b["calls"][j + 1:])

    best = scn
    changed = True
    while changed and budget > 0:
        changed = False
        cands = []
        for j in range(len(best["calls"])):
            if len(best["calls"]) > 1:
                cands.append(_canon_multi(dict(best, calls=best["calls"][:j] + best["calls"][j + 1:])))
        for j, c in enumerate(best["calls"]):
            plain = {"k": c["k"], "n": 1}
            if c != plain:
                cands.append(with_call(best, j, plain))
            if c.get("delays"):
                cands.append(with_call(best, j, {x: v for x, v in c.items() if x != "delays"}))
            if c.get("n") is not None and c.get("t") is not None:
                cands.append(with_call(best, j, {x: v for x, v in c.items() if x not in ("n", "strict")}))
            elif c.get("strict"):
                cands.append(with_call(best, j, dict(c, strict=False)))
        if any(W > 1 for W in best["Ws"]):
            cands.append(dict(best, Ws=[1] * len(best["Ws"])))
        for cand in cands:
            if fails(cand):
                best, changed = cand, True
                break
    return _canon_multi(best)


def fingerprint_multi(clause, entry, scn):
    ks = [f"s{c['k']}:{call_kind(c)}" for c in scn["calls"]]
    opt = f"searches-in-one-storage={len(scn['Ws'])};history={','.join(ks[:-1]) or '-'};call={ks[-1]};backend={scn['backend']}"
    if any(len(r) > 1 for r in scn.get("rounds") or []):
        opt += ";concurrent=True"
    return f"C14|{clause}|{entry}|{opt}"


def _check_multi(ck, scn, obs, drv, do_shrink=True):
    """several searches recorded in one storage object.  L3: per search the verified checker `checkShared` on the writes
    and tables of that search's jobs (+ the Python oracle), and the cross-search clauses on full job ids.  L2 (serial):
    the whole history replayed by the model of one storage object with its searches (`Model/MultiSearch.lean`: jobs keyed
    by (search, index), one clock; `C14_search_isolation`), compared search by search."""
    case = _case_of(scn, obs)
    E = len(scn["Ws"])
    ck.case(case, nontrivial=bool(obs.get("runlog")) and len({c["k"] for c in scn["calls"]}) >= 2)
    ck.count("src:" + scn["src"])
    ck.count(f"searches-in-one-storage={E}")
    serial = scn["backend"] == "serial"
    fails = []
    if obs.get("error"):
        fails = _multi_error(obs)
    else:
        for k in range(E):
            scn_k, obs_k = _project_multi(scn, obs, k)
            if not obs_k["calls"]:
                continue
            for cl, ent, det in _judge_shared(ck, case, scn_k, obs_k, drv, oracle_shared(scn_k, obs_k)):
                fails.append((cl, ent, dict(det, search=k) if isinstance(det, dict) else det))
        fails += oracle_multi_cross(scn, obs)
    for clause, ent, detail in fails[:1]:
        s2 = shrink_multi(scn, clause) if (do_shrink and not clause.startswith("checker-")) else scn
        o2 = obs if s2 is scn else run_scenario(s2)
        ck.fail(fingerprint_multi(clause, ent, s2), f"{clause} ({ent}; several searches recorded in one storage)", _case_of(s2, o2),
                {"detail": detail, "unshrunk": case if s2 is not scn else None})
    if obs.get("error"):
        return
    idx = {}
    for s_, jid in obs["created"]:
        idx.setdefault(jid.split(".")[-1], set()).add(s_)
    ck.count("multi:job-indices-shared-by-searches=" + (">=1" if any(len(v) > 1 for v in idx.values()) else "0"))
    ck.count("multi:status-reads=" + ("0" if not any(kd == "r" for kd, _, _ in obs["elog"]) else ">=1"))
    logs = {}
    for kd, jid, code in obs["elog"]:
        if kd == "w":
            logs.setdefault(jid, []).append(code)
    for lg in logs.values():
        ck.count("log:" + "".join("RrDcC"[x] if 0 <= x < 5 else "?" for x in lg))
    if not serial or scn.get("rounds"):
        return
    # ---- L2: the model of ONE storage object holding these searches replays the whole history on the real (virtual) clock
    rep = drv.ask(lean_request_multi(scn, obs))
    diffs, ties = _compare_multi(scn, obs, rep)
    if diffs and ties:
        rep2 = drv.ask(lean_request_multi(scn, obs, jobfirst=ties))
        if not _compare_multi(scn, obs, rep2)[0]:
            ck.count("tie-resolved-by-jobFirst")
            diffs = {}
    for mo in rep["outs"]:
        if mo.get("stop"):
            ck.count("store_stop:" + mo["stop"])
    if diffs:
        ck.mismatch(case, {"impl_vs_store_model(per search)": diffs})


def oracle_multi_ev(scn, obs):
    """interleaved evaluator-level scripts on one storage object holding a search per evaluator: the cross-search clauses
    (every job's status as the storage shows it over time only moves forward; each search lists its own jobs) and, per
    evaluator: the writes of each of its jobs are an allowed sequence, no job twice in `jobs_done`, every reported status
    is terminal, is the one the job reached (its last write) and is what the storage shows at the end, the value is kept,
    and an evaluator on which no timeout was ever set has no job that went through CANCELLING"""
    entry = "Evaluator.gather"
    if obs.get("error"):
        err = obs["error"]
        return [("does-not-return" if "does-not-return" in err or "vloop" in err else "raises", entry, {"error": err})]
    bad = [(cl, entry, det) for cl, _, det in oracle_multi_cross(scn, obs)]
    logs = {}
    for kd, jid, code in obs["elog"]:
        if kd == "w":
            logs.setdefault(jid, []).append(code)
    sid2k = {sid: k for k, sid in enumerate(obs["sids"])}
    closed = set(obs.get("closed_inflight") or [])
    for jid, lg in sorted(logs.items()):
        if lg not in ALLOWED_LOGS:
            bad.append(("status-not-monotone", entry, {"job": jid, "log": lg}))
        k = sid2k.get(jid.split(".")[0])
        if 3 in lg and not obs["timed"].get(k):
            bad.append(("no-timeout-but-cancelled", entry, {"job": jid, "log": lg, "evaluator": k}))
    for e, res in sorted(obs["results"].items()):
        ids = [r[0] for r in res]
        if len(set(ids)) != len(ids):
            bad.append(("reported-twice", entry, {"evaluator": e, "ids": ids}))
        for jid, status, out in res:
            lg = logs.get(jid) or []
            where = {"evaluator": e, "job": jid, "log": lg}
            if sid2k.get(jid.split(".")[0]) != e:
                bad.append(("search-job-list-wrong", entry, dict(where, what="a job of another search in jobs_done")))
            if status not in ("DONE", "CANCELLED"):
                bad.append(("non-terminal-status-reported", entry, dict(where, status=status)))
            elif not lg or ST[status] != lg[-1]:
                bad.append(("reported-status-not-reached", entry, dict(where, reported=status)))
            fs = obs["final_storage"].get(jid)
            if lg and fs is not None and fs != lg[-1]:
                bad.append(("terminal-status-changed", entry, dict(where, reported=status, in_storage_at_the_end=fs)))
            rl = obs["runlog"].get(jid)
            if jid not in closed and rl is not None and "ret" in rl:
                try:
                    ok = float(out) == _expected(scn, int(jid.split(".")[1]))
                except Exception:
                    ok = False
                if not ok:
                    bad.append(("value-not-kept", entry, dict(where, output=repr(out))))
    return bad


def fingerprint_multi_ev(clause, entry, scn):
    names = [f"e{o['e']}:" + (("gatherALL" if o.get("all") else "gatherBATCH") if o["op"] == "gather" else o["op"]) for o in scn["ops"]]
    return f"C14|{clause}|{entry}|searches-in-one-storage={len(scn['Ws'])};ops={','.join(names)};backend=serial"


def _check_multi_ev(ck, scn, obs, drv, do_shrink=True):
    case = _case_of(scn, obs)
    ck.case(case, nontrivial=bool(obs.get("runlog")))
    ck.count("src:" + scn["src"])
    fails = oracle_multi_ev(scn, obs)
    if not obs.get("error"):
        # the verified checker on every evaluator's own jobs (monotone writes, no duplicate, terminal; the scripts need not
        # be complete and make no claim on instants)
        base = dict(start=0, ret=0, natEnd=0, deadline=None, saw=False, pollsAgain=False, loopRan=True, tie=False, gathered=False, valueKept=True)
        for k, sid in enumerate(obs["sids"]):
            n = len([1 for s_, _ in obs["created"] if s_ == sid])
            logs = {i: [] for i in range(n)}
            for kd, jid, code in obs["elog"]:
                if kd == "w" and jid.startswith(sid + ".") and int(jid.split(".")[1]) < n:
                    logs[int(jid.split(".")[1])].append(code)
            res = [int(r[0].split(".")[1]) for r in obs["results"].get(k, []) if r[0].startswith(sid + ".")]
            rep = drv.ask({"op": "checklog", "jobs": [dict(base, log=logs[i]) for i in range(n)], "results": res, "complete": False})
            ck.count("checker:ok" if rep["check"] else "checker:false")
            if not rep["check"] and not fails:  # (otherwise the Python oracle's clause names the failure)
                conj = next(x for x in ("monotone", "once", "complete", "terminal", "classified") if not rep[x])
                fails.insert(0, ("checker-" + conj, "Evaluator.gather", {"evaluator": k, "job": rep.get("badMonotone")}))
    for clause, ent, detail in fails[:1]:
        ck.fail(fingerprint_multi_ev(clause, ent, scn), f"{clause} ({ent}; several searches recorded in one storage)", case, {"detail": detail})
    if obs.get("error"):
        return
    inflight = 0
    for kd, jid, code in obs["elog"]:
        if kd == "r" and code == 1:
            inflight += 1
    ck.count("multi-ev:reads-of-RUNNING=" + (">=1" if inflight else "0"))
    logs = {}
    for kd, jid, code in obs["elog"]:
        if kd == "w":
            logs.setdefault(jid, []).append(code)
    for lg in logs.values():
        ck.count("log:" + "".join("RrDcC"[x] if 0 <= x < 5 else "?" for x in lg))


def gen_multi_evaluator(ck, n):
    """serial backend: interleaved op scripts on 2-3 evaluators of ONE storage object, each owning its search.  Evaluator 0
    (with or without timeout) submits and collects one batch -- other jobs of its search stay in flight, polling their
    status --, then another evaluator (with or without timeout) submits and gathers everything in ITS search (its
    timeout may expire meanwhile), then evaluator 0 gathers the rest; everybody closes"""
    rng = ck.rng
    out = []
    for t in range(n):
        E = 2 if t % 4 else 3
        Ws = [rng.choice([2, 2, 4])] + [rng.choice([1, 2]) for _ in range(E - 1)]
        ops, specs = [], []
        t0 = rng.choice([None, None, 3, 4, 6])
        if t0 is not None:
            ops.append({"e": 0, "op": "timeout", "t": t0})
        K0 = rng.randint(2, Ws[0] + 1)
        ops += [{"e": 0, "op": "submit", "k": K0}, {"e": 0, "op": "gather", "all": False, "size": 1}]
        # one short job (collected by the batch gather), the others long: in flight while the other evaluators act
        sp0 = [[1, 1]] + [[rng.randint(2, 6), rng.choice([1, 1, 2])] for _ in range(K0 - 1)]
        rng.shuffle(sp0)
        specs.append(sp0)
        for e in range(1, E):
            te = rng.choice([None, 1, 2, 2, 3])
            if te is not None:
                ops.append({"e": e, "op": "timeout", "t": te})
            Ke = rng.randint(1, 4)
            ops += [{"e": e, "op": "submit", "k": Ke}, {"e": e, "op": "gather", "all": True}]
            specs.append([[m, p] for m, p in _specs_around(rng, Ke, te, Ws[e])])
        ops.append({"e": 0, "op": "gather", "all": True})
        if rng.random() < 0.5:  # a second round on evaluator 1, after everything of search 0 has been reported
            ops += [{"e": 1, "op": "submit", "k": 1}, {"e": 1, "op": "gather", "all": True}]
            specs[1].append([rng.randint(0, 3), 1])
        ops += [{"e": e, "op": "close"} for e in range(E)]
        out.append({"level": "multi-evaluator", "backend": "serial", "Ws": Ws, "voff": 1, "specs": specs, "ops": ops,
                    "src": "multi-evaluator:interleaved"})
    return out


def gen_multi(ck, n):
    """serial backend, virtual clock: histories of 2-5 search() calls made by 2-3 evaluators created on ONE storage object
    WITHOUT search_id -- each opens a search of its own, the job indices of the searches overlap -- with and without
    timeouts, the evaluators taking turns (call kinds as in gen_search; every search has its own run-functions)"""
    rng = ck.rng
    out = []
    fam = [[(0, "P"), (1, "T")], [(0, "P"), (1, "T"), (0, "P")], [(0, "T"), (1, "T")], [(0, "T"), (1, "P"), (0, "T")],
           [(0, "B"), (1, "T"), (2, "P")], [(0, "T"), (1, "P"), (0, "P"), (1, "T")], [(0, "P"), (1, "P"), (0, "P")],
           [(0, "S"), (1, "Q"), (0, "T")], [(0, "T"), (1, "B"), (2, "T"), (0, "P")], [(0, "P"), (1, "P"), (1, "T"), (0, "S")]]
    for t in range(n):
        if t < len(fam):
            seq = fam[t]
        else:
            E = rng.choice([2, 2, 3])
            L = rng.choice([2, 3, 3, 4, 5])
            ks = [0] + [rng.randrange(E) for _ in range(L - 1)]
            if len(set(ks)) < 2:
                ks[-1] = 1
            seq = [(k, rng.choice("PPSTTTBBQ")) for k in ks]
        order = []
        for k, _ in seq:  # searches numbered by first use
            if k not in order:
                order.append(k)
        seq = [(order.index(k), kind) for k, kind in seq]
        E = len(order)
        Ws = [rng.choice([1, 2, 2, 4]) for _ in range(E)]
        calls = [dict(_rand_call(rng, kind), k=k) for k, kind in seq]
        specs = []
        for k in range(E):
            c = next((x["t"] for x in calls if x["k"] == k and x.get("t") is not None), 3)
            specs.append([[max(1, m), p] for m, p in _specs_around(rng, 40, c, Ws[k])])
        src = "multi"
        if rng.random() < 0.25:
            for x in calls:  # a slow ask(), under the same restriction as in gen_search
                if x.get("t") is not None:
                    if Ws[x["k"]] == 1:
                        x["delays"] = [rng.choice([0, 0, 1]) for _ in range(rng.randint(0, 2))] + [rng.randint(1, x["t"] + 1)]
                    else:
                        x["delays"] = [rng.randint(x["t"] - 1, x["t"] + 2)]
                    src = "multi:slow-ask"
        out.append({"level": "multi", "backend": "serial", "Ws": Ws, "voff": 1, "specs": specs, "calls": calls, "src": src})
    return out


def gen_multi_realtime(ck, n, backend="thread"):
    """thread backend, real time, ONE storage object holding one search per evaluator: (a) the evaluators take turns (an
    untimed search, then another search that ends by its timeout, then the first once more); (b) two search() calls run
    CONCURRENTLY (one thread each): a timed search whose evaluation runs across the deadline next to a search without
    timeout that finishes quick evaluations meanwhile, or two timed searches side by side"""
    rng = ck.rng
    out = []
    unit = 0.05
    fam = [("par", [(0, "T"), (1, "P")]), ("seq", [(0, "P"), (1, "T"), (0, "P")]), ("par", [(0, "T"), (1, "T")]),
           ("seq", [(0, "T"), (1, "P"), (0, "T")]), ("par2", [(0, "P"), (0, "T"), (1, "P")])]
    for t in range(n):
        mode, seq = fam[t % len(fam)]
        Ws = [rng.choice([1, 2]) for _ in range(2)]
        t0 = 1
        calls = []
        for k, kind in seq:
            c = {"k": k}
            if kind == "P":
                c["n"] = rng.choice([2, 3])
            if kind == "T":
                c["t"] = t0
            calls.append(c)
        specs = []
        for k in range(2):
            timed = any(kind == "T" for kk, kind in seq if kk == k)
            sp = []
            for i in range(40):
                p = rng.choice([1, 2])
                if timed and i < Ws[k]:
                    dur = 0.25 if (i % 2 == 1) else t0 + 0.75  # short and long evaluations side by side, at least one long
                elif timed:
                    dur = rng.choice([0.25, 0.5, t0 + 0.75, t0 + 1.5])
                else:
                    dur = rng.choice([0.25, 0.25, 0.5])
                sp.append([int(round(dur / (p * unit))), p])
            specs.append(sp)
        scn = {"level": "multi", "backend": backend, "Ws": Ws, "voff": 1, "specs": specs, "calls": calls, "unit": unit,
               "src": f"multi:{backend}:{'concurrent' if mode != 'seq' else 'turns'}"}
        if mode == "par":
            scn["rounds"] = [[0, 1]]
        elif mode == "par2":
            scn["rounds"] = [[0], [1, 2]]
        out.append(scn)
    return out


def _check_one(ck, scn, obs, drv, do_shrink=True):
    if scn["level"] == "shared":
        return _check_shared(ck, scn, obs, drv, do_shrink)
    if scn["level"] in ("multi", "multi-evaluator"):
        try:
            return (_check_multi if scn["level"] == "multi" else _check_multi_ev)(ck, scn, obs, drv, do_shrink)
        except HarnessError:
            raise
        except (ValueError, KeyError, IndexError, TypeError) as e:
            # job ids / tables of a shape the projection per search cannot read: on a changed tree that is a broken
            # correspondence (with the case as replay), on the unchanged tree a defect of the harness
            if not common.tree_differs_from_head():
                raise
            ck.mismatch(_case_of(scn), {"uninterpretable-observations": f"{type(e).__name__}: {e}"[:300]})
            return
    if scn["level"] == "shared-evaluator":
        return _check_shared_ev(ck, scn, obs, drv, do_shrink)
    case = _case_of(scn, obs)
    nontrivial = bool(obs.get("runlog")) and (scn["level"] == "search" or any(o["op"] == "timeout" for o in scn["ops"]))
    scn.setdefault("backend", "serial")
    ck.case(case, nontrivial=nontrivial)
    ck.count("src:" + scn["src"])
    ck.count(f"W={scn['W']}")
    serial = scn["backend"] == "serial"
    # ---- L3: the verified checker on the real logs decides; the Python oracle is a cross-check (and supplies the
    # clause name / the clauses outside the checker: raises, does-not-return, returns-later, cancelled-without-cancelling)
    py_bad = oracle(scn, obs)
    req = build_obs(scn, obs)
    if req is None:
        ck.count("checker:not-applicable(no status log)")
        fails = py_bad
    else:
        rep = drv.ask(req)
        ck.count("checker:ok" if rep["check"] else "checker:false")
        py_core = [b for b in py_bad if b[0] in CHECKER_CLAUSES]
        py_extra = [b for b in py_bad if b[0] not in CHECKER_CLAUSES]
        fails = list(py_extra)
        entry0 = "Search.search" if scn["level"] == "search" else "Evaluator.gather"
        if not rep["check"]:
            conj = next(k for k in ("monotone", "once", "complete", "terminal", "classified") if not rep[k])
            agree = [b for b in py_core if CHECKER_CLAUSES[b[0]] == conj] or py_core
            if agree:
                fails.insert(0, agree[0])
            else:
                ck.count("checker:python-oracle-missed")
                bad = rep.get("badClassified") if conj == "classified" else rep.get("badMonotone")
                fails.insert(0, ("checker-" + conj, entry0, {"job": bad, "record": req["jobs"][bad] if isinstance(bad, int) else None}))
        elif py_core:
            ck.mismatch(case, {"oracle-disagreement": "Python oracle reports a clause the verified checker accepts",
                               "python": py_core[:2], "checker": {k: rep[k] for k in ("monotone", "once", "complete", "terminal", "classified")}})
    for clause, entry, detail in fails[:1]:
        s2 = shrink(scn, clause) if (do_shrink and not clause.startswith("checker-")) else scn
        o2 = obs if s2 is scn else run_scenario(s2)
        ck.fail(fingerprint(clause, entry, s2), f"{clause} ({entry})", _case_of(s2, o2), {"detail": detail, "unshrunk": case if s2 is not scn else None})
    if obs.get("error"):
        return
    # histogram of what was exercised
    logs = _logs_of(obs, 0) if obs.get("slog") is not None else {}
    for lg in logs.values():
        ck.count("log:" + "".join("RrDcC"[x] for x in lg))
    for i, rl in obs["runlog"].items():
        dl = _deadline_for(obs["timeline"], rl["start"])
        if dl is None or i >= len(scn["specs"]):
            ck.count("job:no-deadline")
            continue
        m, p = scn["specs"][i]
        if serial:
            d = _tick(rl["start"]) + m * p - _tick(dl)
            ck.count("job:finish-deadline=" + ("<=-2" if d <= -2 else ">=+2" if d >= 2 else f"{d:+d}"))
            if _tick(rl["start"]) >= _tick(dl):
                ck.count("job:acquired-at/after-deadline")
    # ---- L2
    if serial and scn["level"] == "evaluator" and any(o["op"] == "busy" for o in scn["ops"]):
        # a caller-busy interval stalls the serial event loop with jobs in flight: run-functions resume late, which the
        # timeline model does not describe; these scripts are judged by the verified checker / oracle only
        ck.count("L2-skipped:stalled-serial-loop")
    elif serial:
        rep = drv.ask(lean_request(scn, obs))
        diff = _compare_serial(ck, scn, obs, rep, case)
        if diff:
            ties = _tie_jobs(rep)
            if ties:  # exact ties: let the job win the ties the implementation let it win
                cand = {i for i in ties if f"job{i}.log" in diff or f"job{i}.start/ret/saw" in diff or f"job{i}.status" in diff}
                rep2 = drv.ask(lean_request(scn, obs, jobfirst=cand))
                diff2 = _compare_serial(ck, scn, obs, rep2, case)
                if not diff2:
                    ck.count("tie-resolved-by-jobFirst")
                    diff = {}
        for mo in rep["outs"]:
            if mo.get("stop"):
                ck.count("model_stop:" + mo["stop"])
            if mo.get("err"):
                ck.count("model_err:" + mo["err"])
        for mj in rep["jobs"]:
            ck.count("model_pc:" + mj["pc"])
        if diff:
            ck.mismatch(case, {"impl_vs_model": diff})
    else:
        # per-job replay of the status machine for the jobs whose clause is certain (see _realtime_class)
        reqs, metas = [], []
        if scn["level"] == "search":
            rows = {r["id"]: r for r in (obs["calls"][-1]["rows"] if obs["calls"] else [])}
        else:
            closed = {i for rec in obs["ops"] if rec["op"] == "close" for i in rec["new"]}
            rows = {i: {"status": st_} for (i, st_, _) in obs["results"] if i not in closed}
        flagged = {b[2].get("job") for b in py_bad if isinstance(b[2], dict)}  # already reported by the oracle (L3)
        for i, rl in sorted(obs["runlog"].items()):
            if i not in rows or i >= len(scn["specs"]) or i in flagged:
                continue
            cl, dl_lo, dl_hi = _realtime_class(scn, obs, i, rl)
            if cl == "either":
                ck.count("realtime:tie-zone-skipped")
                continue
            # ticks of 0.05 s from the job's start; one sleep covering what the job certainly did
            q = lambda x: max(0, int(round((x - rl["start"]) / 0.05)))
            if cl == "none":
                spec, armed = [1, 1, False, i], None
            elif cl == "before":
                spec, armed = [1, max(1, q(rl["ret"])), False, i], q(dl_lo) + 1
            elif cl == "after":
                spec, armed = [1, q(dl_hi) + 4, False, i], q(dl_hi)
            else:  # late: acquired its worker after the deadline (C14_cancelled_after_deadline)
                spec, armed = [1, 4, False, i], -1
            start = 0
            if armed == -1:
                start, armed = 5, 1
            reqs.append({"W": 1, "hpo": True, "specs": [spec], "ops": [{"op": "jobonly", "start": start, "armed": armed}]})
            metas.append((i, rows[i], cl))
        for (i, row, cl), req, rep in zip(metas, reqs, drv.ask_all(reqs)):
            mj = rep["jobs"][0]
            lg = logs.get(i)
            d = {}
            if ST[row["status"]] != mj["status"]:
                d["status"] = (row["status"], mj["status"])
            if lg is not None and lg != mj["log"]:
                d["log"] = (lg, mj["log"])
            ck.count("realtime:job-replayed:" + cl)
            if d:
                ck.mismatch(case, {"job": i, "class": cl, "impl_vs_model": d, "request": req})


def _corpus():
    d = common.VERIF / "corpus" / "C14"
    out = []
    if d.is_dir():
        for f in sorted(d.glob("*.json")):
            scn = dict(json.loads(f.read_text())["case"])
            scn["src"] = "corpus"
            out.append(scn)
    return out


def _run_chunk(scns):
    common.use_repo_sources()
    return [run_scenario(s) for s in scns]


def _isolated_child(scn, conn):
    try:
        os.setsid()  # own process group: the evaluator's worker processes / storage manager can be killed with it
    except Exception:
        pass
    try:
        common.use_repo_sources()
        conn.send(run_scenario(scn))
    except BaseException as e:  # noqa: BLE001
        try:
            conn.send({"__harness_error__": f"{type(e).__name__}: {e}"[:500]})
        except Exception:
            pass
    finally:
        try:
            conn.close()
        finally:
            os._exit(0)  # no atexit handlers, no waiting for lingering executor threads


def _run_isolated(scns, workers=4, limit=300.0):
    """thorough tier, real-time scenarios: each one in a process of its own (forked from the main process, which has
    imported the library once), at most `workers` side by side.  A worker that handles several scenarios in a row forks
    the process backend's children while threads of an earlier thread-backend scenario are still alive; a child can then
    inherit a locked lock and never answer (observed: 2 thorough runs out of 7 did not end).  A scenario whose process
    does not answer within `limit` seconds (they take 2-15 s) is killed with its descendants and run once more; a second
    silence is `does-not-return` on a tree that differs from its HEAD (as main.py's watchdog does for the whole run) and a
    harness error on an unchanged tree."""
    import multiprocessing as mp
    import signal

    ctx = mp.get_context("fork")
    out = [None] * len(scns)
    todo = [(i, 1) for i in range(len(scns))]
    running = []  # (index, attempt, process, connection, start time)

    def kill(proc):
        for sig_target in (lambda: os.killpg(proc.pid, signal.SIGKILL), lambda: proc.kill()):
            try:
                sig_target()
            except Exception:
                pass
        proc.join(timeout=5)

    try:
        while todo or running:
            while todo and len(running) < workers:
                i, attempt = todo.pop(0)
                parent, child = ctx.Pipe(duplex=False)
                proc = ctx.Process(target=_isolated_child, args=(scns[i], child), daemon=False)
                proc.start()
                child.close()
                running.append((i, attempt, proc, parent, _time.time()))
            progressed = False
            for item in list(running):
                i, attempt, proc, conn, t0 = item
                got = None
                try:
                    if conn.poll(0):
                        got = conn.recv()
                    elif not proc.is_alive() and not conn.poll(0.2):
                        got = {"__harness_error__": f"scenario process died (exit code {proc.exitcode})"}
                except (EOFError, OSError):
                    got = {"__harness_error__": "scenario process closed its pipe without an answer"}
                if got is not None:
                    running.remove(item)
                    conn.close()
                    kill(proc)
                    progressed = True
                    if "__harness_error__" in got:
                        raise HarnessError(f"C14 real-time scenario {scns[i].get('src')}: {got['__harness_error__']}")
                    out[i] = got
                elif _time.time() - t0 > limit:
                    running.remove(item)
                    conn.close()
                    kill(proc)
                    progressed = True
                    if attempt == 1:
                        todo.append((i, 2))
                    elif common.tree_differs_from_head():
                        out[i] = {"error": f"does-not-return: no answer within {limit:.0f} s, twice", "calls": [], "ops": [], "timeline": [],
                                  "runlog": {}, "slog": None, "results": [], "final": {}, "nsub": 0, "owner": {}}
                    else:
                        raise HarnessError(f"C14 real-time scenario {scns[i].get('src')} did not answer within {limit:.0f} s (twice) "
                                           "on a tree identical to its HEAD")
            if not progressed:
                _time.sleep(0.05)
    finally:
        for _, _, proc, conn, _ in running:
            try:
                conn.close()
            except Exception:
                pass
            kill(proc)
    return out


def run(ck):
    logging.getLogger("asyncio").setLevel(logging.CRITICAL)  # "Task was destroyed but it is pending" of shielded runs after close()
    ck.rule = ("serial backend on the virtual clock: evaluator op scripts (timeout, submit of 1-8 jobs on 1-4 workers, "
               "gather ALL / BATCH 1 / BATCH k, close; patterns all / batches / batch-close / late-timeout / batch2 / "
               "two-submits / close-only) and sequences of 1-3 search() calls over {n, strict n, timeout, timeout+n, "
               "timeout+strict n}; run-functions with m sleeps of p ticks whose natural finish straddles the deadline by "
               "-1/0/+1 tick, poll intervals 1-3; thread (and, thorough, process) backend in real time with timeouts "
               "1-2 s and durations on a 0.25 s grid; SEVERAL evaluators (2-3) attached to one storage and one search_id: "
               "histories of 2-4 search() calls in which the evaluators take turns (a later evaluator continues the search, "
               "its gathers collect the finished jobs of the others through gather_other_jobs_done) on the serial backend "
               "(virtual clock, replayed by the world model of Model/SharedStorage.lean) and on the thread and process "
               "backends (real time; every status write to the shared storage is logged on all three), a few of them with "
               "an objective of exactly 0.0, and evaluator-level scripts on 2 serial evaluators (continue / closed-inflight "
               "/ direct gather_other_jobs_done); evaluators created with callbacks (logger, progress bar, "
               "SearchEarlyStopping that never fires / fires before, around or after the deadline, a user's callback with a "
               "search_stopped attribute, combinations; increasing or decreasing objectives): sequences of 1-3 search() "
               "calls on the serial backend replayed by the model's loop with the explicit stopped flag "
               "(Model/StopFlag.lean, fed with what _search saw of each callback per iteration), timed searches on the "
               "thread (thorough: process) backend; SEVERAL SEARCHES recorded in one storage object (2-3 evaluators created "
               "with the same storage and no search_id, each opening its own search, overlapping job indices): histories of "
               "2-5 search() calls with and without timeouts in which the searches take turns (serial, virtual clock; replayed "
               "by the model of one storage object with its searches, Model/MultiSearch.lean) and, on the thread backend, "
               "turns and CONCURRENT calls (one thread per search); every status write and READ of the storage recorded with "
               "the full job id; distinct by canonical scenario; non-trivial = a timeout is in play "
               "and at least one job ran (multi-evaluator histories: at least two evaluators acted)")
    ck.assumptions = [
        "asyncio.wait reports only finished tasks, each once, at least as many as awaited (checked by the model on the observed reports: otherwise badEnv)",
        "asyncio.Semaphore hands permits over in FIFO order; wait_for(shield(f), t) raises TimeoutError at the deadline unless f finished first, immediately when t <= 0; exact ties are an input (jobFirst), observed",
        "virtual clock: time passes only inside run_until_complete; everything due at an instant happens before the clock moves (harness/vloop.py)",
        "thread / process backends: same execute() body with run_in_executor; compared per job on observed start and deadline, only for jobs >= 0.25 s away from a tie; never an assertion on a duration",
        "close() while a job is CANCELLING leaves it CANCELLING and unreported (modelled as Pc.aborted; outside the property: the evaluation has not returned)",
        "several evaluators on one storage: an evaluator acts only while the others have nothing in flight (their event loops do not run meanwhile); the order in which gather_other_jobs_done reports the jobs of the others (ids sorted as strings) is an observed input whose contract (exactly the collectable jobs not yet gathered, each once) the model checks",
        "does-not-return (multi-evaluator histories) = 2000 consecutive polls of the storage by the caller without any write to it (progress, not a duration)",
        "several searches in one storage object: jobs are identified by their full id 'search.index'; the recording storage subclass holds one lock around each status read / write and its record, so the recorded order is the order in which they took effect (threads included); each search is judged against its own calls' timeouts only",
        "callbacks: what _search sees of a callback is whether it has a search_stopped attribute and its value after each tell (observed on the harness-held objects, input of the model); keeps-submitting-after-expiry = an ask() of a timed call after a tell() of that call whose clock reading was already >= (instant of the call's first ask + budget) >= the evaluator's deadline (order of events); runs with callbacks are cut short after 12 such asks, or 60 asks in one call (every evaluation of these scenarios takes >= 1 tick, a call needs at most max(n, t + 2) asks)",
    ]
    ck.trusted_extra = ["harness/vloop.py (virtual-time event loop, patched time of deephyper.evaluator._evaluator)"]
    from . import vloop

    serial = _corpus() + gen_evaluator(ck, ck.pick(260, 4000)) + gen_search(ck, ck.pick(120, 1500)) + \
        gen_busy_serial(ck, ck.pick(30, 400))
    real = gen_realtime(ck, ck.pick(4, 24), "thread") + gen_realtime_evaluator(ck, ck.pick(3, 16), "thread")
    if ck.thorough:
        real += gen_realtime(ck, 8, "process") + gen_realtime_evaluator(ck, 6, "process")
        real += gen_busy_realtime(ck, "thread", ["after", "before"] * 3) + gen_busy_realtime(ck, "process", ["after", "before"] * 3)
    else:
        real += gen_realtime_evaluator(ck, 1, "process")  # ProcessPoolEvaluator.execute at least once in quick
        real += gen_busy_realtime(ck, "thread", ["after", "before"]) + gen_busy_realtime(ck, "process", ["after"])
    # several evaluators on one storage (generated last: the scenarios above are the same as before for a given seed)
    serial += gen_shared(ck, ck.pick(70, 900), ck.pick(3, 6)) + gen_shared_evaluator(ck, ck.pick(30, 300))
    real += gen_shared_realtime(ck, ck.pick(2, 8), "thread") + gen_shared_realtime(ck, ck.pick(1, 4), "process")
    # evaluators with callbacks (generated after everything else, for the same reason)
    serial += gen_search_callbacks(ck, ck.pick(60, 750)) + gen_shared_callbacks(ck, ck.pick(16, 200))
    real += gen_callbacks_realtime(ck, ck.pick(2, 6), "thread")
    if ck.thorough:
        real += gen_callbacks_realtime(ck, 3, "process")
    # several searches recorded in ONE storage object (evaluators created with the same `storage=` and no search_id);
    # generated after everything else, for the same reason
    serial += gen_multi(ck, ck.pick(30, 400)) + gen_multi_evaluator(ck, ck.pick(16, 200))
    real += gen_multi_realtime(ck, ck.pick(2, 10), "thread")
    if ck.thorough:
        import concurrent.futures as cf

        chunks = [serial[i::16] for i in range(16)]
        with cf.ProcessPoolExecutor(max_workers=16) as ex:
            res = list(ex.map(_run_chunk, chunks))
        pairs = [(s, o) for ch, os_ in zip(chunks, res) for s, o in zip(ch, os_)]
        # real-time scenarios afterwards, few at a time (they should not compete with the batch above for the CPUs), each
        # in a process of its own
        common.use_repo_sources()
        import deephyper.evaluator  # noqa: F401  (imported once here: the scenario processes are forked from this one)
        import deephyper.hpo  # noqa: F401

        pairs += list(zip(real, _run_isolated(real, workers=4)))
    else:
        pairs = [(s, run_scenario(s)) for s in serial]
        vloop.uninstall()
        pairs += [(s, run_scenario(s)) for s in real]
    vloop.uninstall()
    with ck.driver() as drv:
        for scn, obs in pairs:
            _check_one(ck, scn, obs, drv)


def replay(ck, case):
    from . import vloop

    scn = dict(case)
    scn.setdefault("src", "replay")
    obs = run_scenario(scn)
    vloop.uninstall()
    brief = {k: obs.get(k) for k in ("error", "results", "final")}
    if scn["level"] in ("search", "shared", "multi"):
        brief["calls"] = [{"evaluator": c.get("k", 0), "rows": [(r["id"], r["status"]) for r in c["rows"]], "stopped": c["stopped"]} for c in obs["calls"]]
    print("replay:", json.dumps(brief, default=str)[:3000])
    with ck.driver() as drv:
        _check_one(ck, scn, obs, drv, do_shrink=False)


def search(ck):
    """deeper failing-input search (L3 only) when L1/L2 broke and run() found no failing input"""
    from . import vloop

    for scn in gen_shared(ck, ck.pick(150, 1000), 0):
        scn["src"] = "search()"
        obs = run_scenario(scn)
        for clause, entry, detail in oracle_shared(scn, obs)[:1]:
            s2 = shrink_shared(scn, clause)
            o2 = obs if s2 is scn else run_scenario(s2)
            ck.fail(fingerprint_shared(clause, entry, s2), f"{clause} ({entry}; several evaluators on one storage)", _case_of(s2, o2), {"detail": detail})
    for scn in gen_multi(ck, ck.pick(60, 400)):
        scn["src"] = "search()"
        obs = run_scenario(scn)
        for clause, entry, detail in oracle_multi(scn, obs)[:1]:
            s2 = shrink_multi(scn, clause)
            o2 = obs if s2 is scn else run_scenario(s2)
            ck.fail(fingerprint_multi(clause, entry, s2), f"{clause} ({entry}; several searches recorded in one storage)", _case_of(s2, o2), {"detail": detail})
    scns = gen_search(ck, ck.pick(400, 3000)) + gen_evaluator(ck, ck.pick(400, 3000))
    for scn in scns:
        scn["src"] = "search()"
        obs = run_scenario(scn)
        for clause, entry, detail in oracle(scn, obs)[:1]:
            s2 = shrink(scn, clause)
            o2 = obs if s2 is scn else run_scenario(s2)
            ck.fail(fingerprint(clause, entry, s2), f"{clause} ({entry})", _case_of(s2, o2), {"detail": detail})
    vloop.uninstall()
