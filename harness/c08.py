"""C08 — no configuration is proposed twice until the space is exhausted.

Real `CBO` ask/tell sessions (filter_duplicated=True, random initial design) on finite spaces
of 4..64 configurations and on continuous spaces x surrogate {ET, RF, GP, DUMMY} x multi-point
strategy {cl_min, cl_mean, cl_max, qUCB, qUCBd} x batch sizes 1..8 x seeds x told objectives
including failures and every failure policy.  `Space.rvs` is wrapped from outside so that the
model sees the candidate lists the optimizer drew.

L2: every session is replayed through `Model/Ask.lean` (same candidate draws => same number of
    draws, same proposals, each proposal one of the duplicate-filtered candidates).
L3: (a) the verified checker `selsOKb` (theorem `C08_checker`) on the replayed proposals with
        the exact candidate list each one was selected from;
    (b) directly on the implementation's outputs: on a finite space whose candidate draws all
        cover the space the first N proposals are N distinct configurations; a proposal that
        repeats an earlier one while *every* candidate list drawn for it still offered a
        never-proposed configuration is a violation.
"""
from __future__ import annotations

import concurrent.futures as cf
import itertools
import json
import os

from . import askcommon as ac
from .common import VERIF, HarnessError

PROP = "C08"
C08_STRATEGIES = ["cl_min", "cl_mean", "cl_max", "qUCB", "qUCBd"]
C08_SURROGATES = ["ET", "RF", "GP", "DUMMY"]
BASE = {"surrogate": "ET", "strategy": "cl_max", "filter_failures": "min"}


def _finite_spec(rng, mixed=None):
    """products of categorical / ordinal / small integer ranges with 4..64 points.  Ordinal
    sequences are all-int, all-float or mix ints and floats (`[0, 0.1, 0.25, 0.5]`,
    `[1, 2.5, 4.5, 8]`: `Space.rvs` hands the declared objects out, the tree surrogates' identity
    transformer hands the same numbers back as floats — `1` and `1.0` are ONE configuration);
    `mixed=True` asks for at least one such sequence."""
    if mixed is None:
        mixed = rng.random() < 0.25
    for _ in range(200):
        n = rng.randint(1, 3)
        hps = []
        for i in range(n):
            kind = rng.choice(["cat_str", "cat_bool", "ord_int", "ord_float", "ord_mixed", "small_int", "small_int", "small_int_log"])
            if mixed and i == 0:
                kind = "ord_mixed"
            if kind == "ord_mixed" and rng.random() < 0.5:
                # sequences that start at 0 / hold several ints
                seq = rng.choice([[0, 0.1, 0.25, 0.5], [0, 0.5, 1, 2], [1, 2.5, 4, 8], [0.5, 1, 2, 4, 8], [0, 1, 1.5]])
                hps.append({"name": f"h{i}", "kind": "ord", "choices": list(seq)})
                continue
            if kind == "small_int":
                lo = rng.choice([-2, 0, 1, 5])
                hps.append({"name": f"h{i}", "kind": "int", "lo": lo, "hi": lo + rng.randint(1, 5), "log": False})
            elif kind == "small_int_log":
                # a small integer range with a log-uniform prior (the surrogate sees log(k); the
                # round trip of every integer of the range must be the integer itself)
                lo = rng.choice([1, 1, 2, 8])
                hps.append({"name": f"h{i}", "kind": "int", "lo": lo, "hi": lo + rng.choice([3, 7, 15, 23, 40, 56]), "log": True})
            else:
                hps.append(ac.gen_hp(rng, f"h{i}", [kind]))
        if mixed:
            rng.shuffle(hps)
            for i, h in enumerate(hps):
                h["name"] = f"h{i}"
        spec = {"hps": hps, "conds": [], "forbs": []}
        size = ac.space_size(spec)
        if size is not None and 4 <= size <= 64:
            return spec, size
    raise HarnessError("could not generate a finite space of 4..64 points")


def _universe(spec, names):
    by = {h["name"]: h for h in spec["hps"]}
    axes = []
    for n in names:
        h = by[n]
        axes.append(list(h["choices"]) if h["kind"] in ("cat", "ord", "const") else list(range(h["lo"], h["hi"] + 1)))
    return [list(p) for p in itertools.product(*axes)]


def _initial_points(rng, spec, k):
    """`k` distinct members of the space, as the dicts a user passes to `CBO(initial_points=...)`
    (e.g. the documented `[problem.default_configuration]`)"""
    names = [h["name"] for h in spec["hps"]]
    if ac.space_size(spec) is not None:
        univ = _universe(spec, names)
        pts = rng.sample(univ, min(k, max(1, len(univ) - 1)))
    else:
        pts, seen = [], set()
        for _ in range(20 * k):
            x = []
            for h in spec["hps"]:
                if h["kind"] == "float":
                    lo, hi = float(h["lo"]), float(h["hi"])
                    x.append(rng.choice([lo, hi, (lo + hi) / 2, lo + (hi - lo) * rng.random()]))
                elif h["kind"] == "int":
                    x.append(rng.randint(h["lo"], h["hi"]))
                else:
                    x.append(rng.choice(h["choices"]))
            if _key(x) not in seen:
                seen.add(_key(x))
                pts.append(x)
            if len(pts) == k:
                break
    return [dict(zip(names, x)) for x in pts]


def _foreign_results(rng, spec, k):
    """`k` results about members of the space that the search did not ask for"""
    return [[p, rng.choice([round(rng.uniform(-3, 3), 3), float(rng.randint(-2, 5))])] for p in _initial_points(rng, spec, k)]


def gen_cells(ck):
    rng = ck.rng
    n_cells = int(os.environ.get("VERIF_CELLS", "0") or 0) or ck.pick(110, 1400)
    cells = []
    combos = [(s, st) for s in C08_SURROGATES for st in C08_STRATEGIES]
    for k in range(n_cells):
        surrogate, strategy = combos[k % len(combos)] if k < 2 * len(combos) else (rng.choice(C08_SURROGATES), rng.choice(C08_STRATEGIES))
        finite = rng.random() < 0.7
        if finite:
            spec, size = _finite_spec(rng)
            if surrogate == "GP":
                # lbfgs is only used when some dimension is numeric (an all-categorical space
                # gets a Hamming kernel and the sampling optimiser)
                for _ in range(20):
                    if any(h["kind"] == "int" for h in spec["hps"]):
                        break
                    spec, size = _finite_spec(rng)
        else:
            spec = ac.gen_spec(rng, n_hps=rng.randint(1, 3), kinds=["float", "float_log", "int", "int_log", "cat_str", "ord_float"])
            if ac.space_size(spec) is not None:
                spec["hps"].append(ac.gen_hp(rng, f"h{len(spec['hps'])}", ["float"]))
            size = None
        batch = rng.choice([1, 1, 2, 3, 4, 5, 8])
        vary = rng.random() < 0.3
        if size is not None:
            want = size + rng.randint(1, 4)
            n_rounds = min(-(-want // batch), 16 if surrogate != "GP" else 9)
            n_points = max(64, 8 * size)
        else:
            n_rounds = rng.randint(4, 9) if surrogate != "GP" else rng.randint(3, 6)
            n_points = rng.choice([16, 32])
        cell = {"search": "CBO", "seed": rng.randint(0, 10**6), "surrogate": surrogate, "strategy": strategy,
                "acq": rng.choice(["UCB", "EI", "PI"]), "design": "random",
                "n_initial": rng.randint(1, 4), "n_points": n_points,
                "filter_failures": rng.choice(["min", "mean", "ignore", "ignore"]),
                # lbfgs (GP) at every fit, not only every 10th
                "acq_optimizer_freq": rng.choice([1, 1, 10])}
        batches = [batch] if not vary else [rng.randint(1, 8) for _ in range(n_rounds)]
        script = ac.gen_script(rng, n_rounds, 8, fail_p=rng.choice([0.0, 0.2, 0.5]), batches=batches,
                               again_p=rng.choice([0.0, 0.0, 0.2, 0.4]), moo=rng.random() < 0.08)
        if rng.random() < 0.5:
            for st in script:
                st["tell"] = [True]  # results of a batch all come back before the next ask
        if rng.random() < 0.2:
            # results of configurations evaluated elsewhere are told too (Search._search tells the
            # `other_results` of a shared storage; a warm start through tell)
            for st in script[: rng.randint(1, 3)]:
                st["foreign"] = _foreign_results(rng, spec, rng.randint(1, 4))
        if not spec["conds"] and not spec["forbs"] and rng.random() < 0.25:
            # initial points given by the user: handed out first, the random ones complete the
            # initial phase (fewer, as many or more points than n_initial_points)
            cell["initial_points"] = _initial_points(rng, spec, rng.randint(1, 4))
        cells.append((cell, spec, script, "asktell"))
    # initial points given by the user (the documented way to start from known configurations,
    # e.g. the default one) on finite spaces, handed out one by one or in batches, alone or
    # together with random points; then enough model-based rounds to propose the whole space:
    # what was handed out in the initial phase must not come back
    for k in range(ck.pick(30, 200)):
        spec, size = _finite_spec(rng)
        surrogate = rng.choice(["ET", "RF", "ET", "GP", "DUMMY"])
        batch = rng.choice([1, 2, 2, 3, 4, 4, 6])
        n_given = rng.randint(1, min(5, size - 1))
        n_rounds = min(-(-(size + 2) // batch), 14 if surrogate != "GP" else 7)
        cell = {"search": "CBO", "seed": rng.randint(0, 10**6), "surrogate": surrogate,
                "strategy": C08_STRATEGIES[k % len(C08_STRATEGIES)],
                "acq": rng.choice(["UCB", "EI"]), "design": "random",
                "n_initial": max(1, n_given + rng.choice([-1, 0, 0, 1, 2])),
                "n_points": max(64, 8 * size), "filter_failures": rng.choice(["min", "mean", "ignore"]),
                "acq_optimizer_freq": rng.choice([1, 10]),
                "initial_points": _initial_points(rng, spec, n_given)}
        script = ac.gen_script(rng, max(n_rounds, 3), 8, fail_p=rng.choice([0.0, 0.0, 0.15]),
                               batches=[batch] if rng.random() < 0.75 else [rng.randint(1, 6) for _ in range(n_rounds)])
        for st in script:
            st["tell"] = [True]
        cells.append((cell, spec, script, "asktell"))
    # a search that is told more than it asked: results evaluated elsewhere arrive with the first
    # tells (enough of them to end the random phase), then free workers are filled one ask at a
    # time — several asks in a row before the next tell
    for k in range(ck.pick(16, 100)):
        finite = rng.random() < 0.6
        if finite:
            spec, size = _finite_spec(rng)
        else:
            spec, size = ac.gen_spec(rng, n_hps=rng.randint(1, 3), kinds=["float", "int", "cat_str", "float_log"]), None
            if ac.space_size(spec) is not None:
                spec["hps"].append(ac.gen_hp(rng, f"h{len(spec['hps'])}", ["float"]))
        surrogate = rng.choice(["ET", "RF", "ET", "GP"])
        n_initial = rng.randint(1, 3)
        cell = {"search": "CBO", "seed": rng.randint(0, 10**6), "surrogate": surrogate,
                "strategy": C08_STRATEGIES[k % len(C08_STRATEGIES)], "acq": rng.choice(["UCB", "EI"]),
                "design": "random", "n_initial": n_initial,
                "n_points": max(64, 8 * size) if size else 32, "filter_failures": rng.choice(["min", "mean", "ignore"]),
                "acq_optimizer_freq": rng.choice([1, 10])}
        n_rounds = rng.randint(5, 8) if surrogate != "GP" else rng.randint(4, 6)
        script = ac.gen_script(rng, n_rounds, 3, fail_p=0.0, batches=[rng.choice([1, 1, 2, 3])], again_p=0.6)
        for st in script:
            st["tell"] = [True]
        script[0].pop("no_tell", None)
        script[0]["foreign"] = _foreign_results(rng, spec, n_initial + rng.randint(2, 6))
        if rng.random() < 0.5 and len(script) > 2:
            script[2]["foreign"] = _foreign_results(rng, spec, rng.randint(1, 4))
        cells.append((cell, spec, script, "asktell"))
    # whole batches of failures told back (policies min / mean: the failures ARE passed to the
    # optimizer), then an ask of the same size — what Search.search does with a fixed number of
    # workers — for every constant-liar strategy (and the others) on finite spaces
    for k in range(ck.pick(16, 200)):
        spec, size = _finite_spec(rng)
        surrogate = rng.choice(["ET", "RF", "ET", "GP"])
        batch = rng.choice([2, 2, 3, 4])
        n_rounds = min(-(-(size + 2) // batch), 10 if surrogate != "GP" else 7)
        cell = {"search": "CBO", "seed": rng.randint(0, 10**6), "surrogate": surrogate,
                "strategy": (["cl_min", "cl_mean", "cl_max"] * 2 + ["qUCB", "qUCBd"])[k % 8],
                "acq": rng.choice(["UCB", "EI"]), "design": "random", "n_initial": rng.randint(1, 3),
                "n_points": max(64, 8 * size), "filter_failures": rng.choice(["min", "mean"]),
                "acq_optimizer_freq": rng.choice([1, 10])}
        script = ac.gen_script(rng, max(n_rounds, 4), 8, fail_p=0.0, batches=[batch])
        for j, st in enumerate(script):
            st["tell"] = [True]
            if j >= 1 and rng.random() < 0.45:
                st["objs"] = [rng.choice(["F", "F_timeout", "F_crash"]) for _ in st["objs"]]
        cells.append((cell, spec, script, "asktell"))
    return cells


def _key(x):
    """identity of a configuration: numbers by value (`1` and `1.0` are the same configuration —
    a numeric sequence mixing ints and floats comes out of `Space.rvs` as the declared objects and
    out of the identity transformer as floats), everything else with its kind"""
    return json.dumps([["n", e[1] if e[0] == "f" else f"{e[1]}/1"] if e[0] in ("i", "f") else e for e in ac.enc_cfg(x)])


def _direct_oracle(spec, rec):
    """(b) of the module docstring, on the implementation's outputs only.  Returns a list of
    (clause, site, detail)."""
    out = []
    names = rec["names"]
    size = ac.space_size(spec)
    seen, order = set(), []
    univ = None
    all_cover = False
    if size is not None:
        univ = {_key(u) for u in _universe(spec, names)}
        draws = [dr for r in rec["rounds"] for dr in r["askDraws"] + r["tellDraws"]]
        all_cover = bool(draws) and all(univ <= {_key(c) for c in dr} for dr in draws)
    prev_tell = []
    last_lists = []
    for k, r in enumerate(rec["rounds"]):
        lists = [dr for dr in (prev_tell + r["askDraws"]) if dr]
        if not lists:
            # nothing drawn since the previous ask (asked again before a tell): the proposal
            # still comes from the lists drawn before
            lists = last_lists
        last_lists = lists
        in_batch = set()
        for j, x in enumerate(r["X"]):
            kx = _key(x)
            if kx in seen:
                # certain violation only if every candidate list drawn for this ask (and the
                # tell before it) still offered a configuration never proposed before
                fresh_everywhere = bool(lists) and all(any(_key(c) not in seen for c in dr) for dr in lists)
                finite_viol = all_cover and len(order) < size
                if fresh_everywhere or finite_viol:
                    clause = "duplicate-within-batch" if kx in in_batch else "duplicate-across-batches"
                    out.append((clause, f"CBO.ask(n{'>1' if r['n'] > 1 else '=1'})",
                                {"round": k, "index": j, "x": x, "proposals_before": len(order),
                                 "space_size": size, "draws_cover_space": all_cover}))
            seen.add(kx)
            in_batch.add(kx)
            order.append(kx)
        prev_tell = r["tellDraws"]
    return out, univ is not None and all_cover


def _failures_of(cell, spec, rec, rep):
    fails, covered = _direct_oracle(spec, rec)
    keys = {(c, s) for c, s, _ in fails}
    if rep is not None and rep["mismatch"] is None and not rep["fresh_ok"] and not keys:
        fails.append(("checker", "CBO.ask", {"what": "selsOKb is false on the replayed proposals"}))
    return fails, covered


def _same_failure(key):
    def pred(cell, spec, script):
        rec = ac.run_cell((cell, spec, script, "asktell"))
        if rec["not_accepted"] or rec["error"]:
            return False
        fails, _ = _direct_oracle(spec, rec)
        return any(f"{c}|{s}" == key for c, s, _ in fails)
    return pred


def _shrink_job(args):
    key, c = args
    from . import common

    common.use_repo_sources()
    pred = _same_failure(key)
    cell, spec, script = dict(c["cell"]), json.loads(json.dumps(c["spec"])), json.loads(json.dumps(c["script"]))
    budget = [26]

    def ok(ce, sp, sc, seeds=1):
        """does the same failure show with this variant?  A variant changes what the random
        generator is asked for, so a few seeds are tried before an option is declared necessary"""
        for d in range(seeds):
            if budget[0] <= 0:
                return None
            budget[0] -= 1
            ce2 = dict(ce, seed=ce["seed"] + d)
            if pred(ce2, sp, sc):
                return ce2
        return None

    # the rounds after the failing one play no part (the session is deterministic given its seed)
    r_fail = c.get("detail", {}).get("round")
    if isinstance(r_fail, int) and r_fail + 1 < len(script) and ok(cell, spec, script[: r_fail + 1]):
        script = script[: r_fail + 1]
    for opt in ("filter_failures", "surrogate", "strategy"):
        if cell.get(opt) != BASE[opt]:
            c2 = ok(dict(cell, **{opt: BASE[opt]}), spec, script, seeds=3)
            if c2:
                cell = c2
    # no failures told
    sc2 = json.loads(json.dumps(script))
    for st in sc2:
        st["objs"] = [o if not isinstance(o, str) else 1.0 for o in st["objs"]]
    if sc2 != script:
        c2 = ok(cell, spec, sc2, seeds=3)
        if c2:
            cell, script = c2, sc2
    # every ask followed by a tell
    sc3 = json.loads(json.dumps(script))
    for st in sc3:
        st.pop("no_tell", None)
    if sc3 != script:
        c2 = ok(cell, spec, sc3, seeds=3)
        if c2:
            cell, script = c2, sc3
    # nothing told but what was asked
    sc4 = json.loads(json.dumps(script))
    for st in sc4:
        st.pop("foreign", None)
    if sc4 != script:
        c2 = ok(cell, spec, sc4, seeds=3)
        if c2:
            cell, script = c2, sc4
    # no initial points given by the user
    if cell.get("initial_points"):
        c2 = ok({k: v for k, v in cell.items() if k != "initial_points"}, spec, script, seeds=3)
        if c2:
            cell = c2
    # a numeric sequence mixing ints and floats: does the failure survive its all-float version?
    if _has_mixed(spec):
        sp2 = json.loads(json.dumps(spec))
        for h in sp2["hps"]:
            if h["kind"] == "ord" and ac.ord_kind(h["choices"]) == "mixed":
                h["choices"] = [float(v) for v in h["choices"]]
        cell2 = dict(cell)
        if cell2.get("initial_points"):
            mixed_names = {h["name"] for h in spec["hps"] if h["kind"] == "ord" and ac.ord_kind(h["choices"]) == "mixed"}
            cell2["initial_points"] = [{k: (float(v) if k in mixed_names else v) for k, v in p.items()} for p in cell2["initial_points"]]
        sc2 = json.loads(json.dumps(script))
        for st in sc2:
            st.pop("foreign", None)
        c2 = ok(cell2, sp2, sc2, seeds=3)
        if c2:
            cell, spec, script = c2, sp2, sc2
    return _req(cell, script, spec), {"cell": cell, "spec": spec, "script": script}


def _has_mixed(spec):
    return any(h["kind"] == "ord" and ac.ord_kind(h["choices"]) == "mixed" for h in spec["hps"])


def _req(cell, script, spec=None):
    req = {k: cell[k] for k in ("surrogate", "strategy", "filter_failures") if cell.get(k) != BASE[k]}
    if spec is not None and _has_mixed(spec):
        req["dims=ord-mixed"] = True
    if any(isinstance(o, str) for st in script for o in st["objs"]):
        req["failures-told"] = True
    if any(st.get("no_tell") for st in script):
        req["ask-again-before-tell"] = True
    if cell.get("initial_points"):
        req["initial-points"] = True
    if any(st.get("foreign") for st in script):
        req["results-of-others-told"] = True
    return req


def _sat(case, req):
    have = _req(case["cell"], case["script"], case["spec"])
    return all(have.get(k) == v for k, v in req.items())


def _req_tags(req):
    tags = [f"{k}={v}" for k, v in req.items()
            if k not in ("failures-told", "ask-again-before-tell", "initial-points", "results-of-others-told", "dims=ord-mixed")]
    if req.get("dims=ord-mixed"):
        tags.append("dims=ord-mixed")
    if req.get("failures-told"):
        tags.append("failures-told")
    if req.get("ask-again-before-tell"):
        tags.append("ask-again-before-tell")
    if req.get("initial-points"):
        tags.append("initial-points")
    if req.get("results-of-others-told"):
        tags.append("results-of-others-told")
    return ",".join(tags) if tags else "baseline"


def _tags(cell, script, spec=None):
    return _req_tags(_req(cell, script, spec))


def _load_corpus():
    d = VERIF / "corpus" / PROP
    out = []
    if d.is_dir():
        for f in sorted(d.glob("*.json")):
            data = json.loads(f.read_text())
            c = data.get("case", data)
            if "cell" in c:
                out.append((c["cell"], c["spec"], c["script"], "asktell"))
    return out


def run(ck):
    ck.rule = ("generated CBO sessions: finite spaces (products of categorical / ordinal — all-int, all-float or mixing ints "
               "and floats — / small integer ranges, 4..64 "
               "configurations, candidate draws 8x the space) and continuous spaces x surrogate {ET,RF,GP,DUMMY} x strategy "
               "{cl_min,cl_mean,cl_max,qUCB,qUCBd} x batch 1..8 (fixed or varying) x seeds x told objectives incl. failures x "
               "filter_failures {min,mean,ignore}, optionally initial points given by the user (handed out one by one or "
               "in batches, fewer / as many / more than n_initial_points); enough rounds to propose the whole finite "
               "space and a few more.  "
               "non-trivial = session with at least 2 proposals after the random phase")
    ck.assumptions = [
        "round trip contract (FitRT): transform -> clip -> inverse_transform -> deactivate of a sampled candidate is the candidate itself (exact for categorical/ordinal/integer dimensions; C09's subject; re-checked here on every session: the proposal must be one of the filtered candidates)",
        "argsort/argmin of the acquisition values returns valid candidate indices (OrdersCover)",
        "the search loop alternates ask and tell (Search._search); two asks without a tell in between return the cached batch by design",
        "pandas merge/duplicated implement keep-first de-duplication and the anti-join with `sampled` (compared on every session through the model's filterDup)",
    ]
    ck.trusted_extra = [
        "the Space.rvs observation shim", "CBO._setup_optimizer() called directly by the harness",
        "Drivers/AskSession.lean glue (guess of argmin indices; verdicts come from the model functions and the verified checker)",
    ]
    cells = _load_corpus()
    n_corpus = len(cells)
    cells += gen_cells(ck)
    recs = ac.run_cells(ck, cells, inprocess=[n_corpus + k for k in range(0, 20, 2)])
    reqs, idx = [], []
    for i, ((cell, spec, script, mode), rec) in enumerate(zip(cells, recs)):
        if rec["not_accepted"] or not rec["rounds"]:
            continue
        biggest = max([len(dr) for r in rec["rounds"] for dr in r["askDraws"] + r["tellDraws"]] or [0])
        if biggest > 600:
            continue
        univ = _universe(spec, rec["names"]) if ac.space_size(spec) is not None else None
        reqs.append(ac.session_request(cell, rec["decl"], rec, univ=univ))
        idx.append(i)
    with ck.driver() as d:
        reps = dict(zip(idx, d.ask_all(reqs)))
    prov = {}
    for i, ((cell, spec, script, mode), rec) in enumerate(zip(cells, recs)):
        case = ac.cell_public(cell, spec, script)
        size = ac.space_size(spec)
        nprops = sum(len(r["X"]) for r in rec["rounds"])
        ck.count("surrogate:" + cell["surrogate"])
        ck.count("strategy:" + cell["strategy"])
        ck.count("filter_failures:" + cell["filter_failures"])
        ck.count("space:" + ("finite" if size is not None else "continuous"))
        if _has_mixed(spec):
            ck.count("space:with-a-numeric-sequence-mixing-int-and-float:" + cell["surrogate"])
        ck.count("batch:" + ("varying" if len({st["n"] for st in script}) > 1 else str(script[0]["n"])))
        if rec["not_accepted"]:
            ck.case(case, nontrivial=False)
            ck.count(f"not-accepted:{rec['not_accepted']['type']}")
            continue
        if rec["error"]:
            # an ask/tell that raises is C02's subject ("every call succeeds"); here the session
            # simply ends early
            ck.count(f"session-ended-by:{rec['error']['type']}@{rec['error']['site']}")
        rep = reps.get(i)
        fails, covered = _failures_of(cell, spec, rec, rep)
        fitted_props = 0
        if rep is not None:
            for p in rep["paths"]:
                ck.count("path:" + p)
            fitted_props = sum(1 for p in rep["paths"] if p in ("single-next", "qLCB", "constant-liar"))
            if rep["mismatch"] is not None and (rep["replayed"] in {d.get("round") for _, _, d in fails}
                                                or ac.repeats_initial_point(rep["replayed"], reqs[idx.index(i)])):
                # the model describes code on which the property holds: at the very ask where
                # the implementation repeats a configuration (reported below as a violation
                # with its replay) it necessarily departs from the model; the same for a batch
                # that repeats one of its own initial points on an exhausted space (the
                # mechanism of the recorded finding 8e where it breaks nothing)
                ck.count("session:departs-from-model-at-a-violation")
            elif rep["mismatch"] is not None:
                ck.count("session:MISMATCH")
                ck.mismatch(case, {"model_vs_impl": rep["mismatch"], "rounds_replayed": rep["replayed"]})
            else:
                ck.count("session:replayed")
            if rep["mismatch"] is not None:
                pass
            elif size is not None:
                ck.count("finite:" + ("draws-cover-space" if rep["covers"] else "draws-do-not-cover"))
                if rep["covers"] and not rep["firstN_distinct"]:
                    raise HarnessError("model replay: first N proposals not distinct although fresh_ok/covers — contradicts C08_finite")
        ck.case(case, nontrivial=nprops >= 2 and fitted_props >= 1)
        if size is not None:
            ck.count(f"space-size:{'4-8' if size <= 8 else '9-24' if size <= 24 else '25-64'}")
        if cell.get("initial_points"):
            ck.count("initial-points:" + ("batches" if any(st["n"] > 1 for st in script[:2]) else "single"))
        if size is not None and nprops >= size:
            ck.count("finite:whole-space-proposed")
        for clause, site, detail in fails:
            prov.setdefault(f"{clause}|{site}", []).append({"detail": detail, "cell": cell, "spec": spec, "script": script})
    ck.count("corpus_cases", n_corpus)
    for v in prov.values():
        # the cheapest sessions are shrunk first (they explain the others)
        v.sort(key=lambda c: (c["cell"]["surrogate"] in ("GP", "RF"), len(c["script"]) * max(st["n"] for st in c["script"])))
    what = ("{site} proposed a configuration it had already proposed although unproposed configurations were "
            "still offered by its candidate sampling ({clause})")
    for key, req, shrunk, explained in ac.fingerprint_groups(prov, _shrink_job, sat=_sat, fallback=lambda c: _req(c["cell"], c["script"], c["spec"])):
        clause, site = key.split("|")[:2]
        fp = f"{PROP}|{clause}|{site}|{_req_tags(req)}"
        for c in explained:
            ck.fail(fp, what.format(site=site, clause=clause), ac.cell_public(shrunk["cell"], shrunk["spec"], shrunk["script"]),
                    explained[0]["detail"])


def replay(ck, case):
    cell, spec, script = case["cell"], case["spec"], case["script"]
    rec = ac.run_cell((cell, spec, script, "asktell"))
    ck.case(case)
    print("replay:", json.dumps({"not_accepted": rec["not_accepted"], "error": rec["error"],
                                 "proposals": [r["X"] for r in rec["rounds"]]}, default=str)[:3000])
    if rec["not_accepted"] or not rec["rounds"]:
        return
    univ = _universe(spec, rec["names"]) if ac.space_size(spec) is not None else None
    with ck.driver() as d:
        rep = d.ask(ac.session_request(cell, rec["decl"], rec, univ=univ))
    print("replay: model session:", {k: rep[k] for k in ("mismatch", "replayed", "fresh_ok", "covers", "firstN_distinct")})
    if rep["mismatch"] is not None:
        ck.mismatch(case, rep["mismatch"])
    fails, _ = _failures_of(cell, spec, rec, rep)
    for clause, site, detail in fails:
        ck.fail(f"{PROP}|{clause}|{site}|{_tags(cell, script, spec)}", f"{site}: {clause}", case, detail)
