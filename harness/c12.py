"""C12 — deephyper.skopt.moo.hypervolume (and its use in ObjectiveRecorder).

L2: the real `hypervolume(pointset, ref)` vs. the functional model of `_hv.py`
    (`Model/Hypervolume.lean: hypervolumeCode`, given the argsort order observed inside the
    NDS pre-filter) — identical exact value.
L3: the real value vs. the proved specification `hv` (exact rational; the driver runs `hvFast`,
    theorem C12_fast_eq, and the plain `hv`, the last-coordinate-first slicing and the cell
    count on small inputs), plus the property's clauses evaluated directly on the real code:
    permutation / duplication invariance, "adding a point never decreases", boundary points
    contribute nothing, caller's arrays unchanged, no exception.

The glue in evaluator/callback.py (`Model/HvRecorder.lean`): ONE `ObjectiveRecorder` object is driven
through whole job streams (1 .. several hundred jobs, failures mixed in, tuple / list / ndarray /
NumPy-scalar objectives, a second recorder object alive at the same time); the value after EVERY job
must be the exact hypervolume of the history so far w.r.t. its componentwise worst point (Lean
`recRun`), must never decrease (theorem C12_recorder_monotone), the caller's objective arrays must
stay untouched, and `LoggerCallback` / `SearchEarlyStopping` / `TqdmCallback` fed the same jobs must
show that value; the stop decision of `SearchEarlyStopping` is compared with the model `stopRun` (L2).
Growing-archive histories call `hypervolume` repeatedly on the SAME array / reference objects.

All generated inputs satisfy the property's quantifier (every point <= ref component-wise; the
docstring itself says that anything else "quietly fails").  Lattice and dyadic inputs make the
float arithmetic of the implementation exact, so those comparisons are exact (Fractions);
non-dyadic float sets are compared with relative tolerance 1e-9 of the bounding-box volume.
"""
import itertools
import math
import threading
import types
from fractions import Fraction

import numpy as np

from .common import HarnessError, rat, unrat

TOL = 1e-9


# ----------------------------------------------------------------------------- helpers


class _NpSpy:
    """stands in for the module-global `np` of _pf.py: records what argsort returns"""

    def __init__(self):
        self.orders = []

    def argsort(self, a, *args, **kw):
        o = np.argsort(a, *args, **kw)
        self.orders.append([int(i) for i in o])
        return o

    def __getattr__(self, k):
        return getattr(np, k)


def _branch(m):
    return "m=1" if m == 1 else "m=2" if m == 2 else "m>=3"


def _wd(a, b):
    return all(x <= y for x, y in zip(a, b))


def _hv_py(ref, pts):
    """independent exact slicing (Fractions), used only to shrink failing cases"""
    if not ref:
        return Fraction(1 if pts else 0)
    r = ref[0]
    cuts = sorted({p[0] for p in pts if p[0] <= r})
    tot = Fraction(0)
    for k, c in enumerate(cuts):
        nxt = cuts[k + 1] if k + 1 < len(cuts) else r
        if nxt == c:
            continue
        tot += (nxt - c) * _hv_py(ref[1:], [p[1:] for p in pts if p[0] <= c])
    return tot


def _exact_py(ref, pts):
    return _hv_py([Fraction(r) for r in ref], [[Fraction(v) for v in p] for p in pts])


def _front(S):
    """non-dominated subset of a set of tuples (minimisation)"""
    out = []
    for p in sorted(S):
        if not any(_wd(q, p) for q in out):
            out.append(p)
    return out


def _hv_int(ref, pts):
    """exact hypervolume on integer coordinates (cross-sections pruned to their fronts); used only to
    shrink failing job streams, the verdict always comes from the Lean value"""
    m = len(ref)
    pts = {tuple(p) for p in pts}
    if not pts:
        return 0
    if m == 0:
        return 1
    if m == 1:
        return max(ref[0] - min(p[0] for p in pts), 0)
    cuts = sorted({p[0] for p in pts if p[0] <= ref[0]})
    tot = 0
    for k, c in enumerate(cuts):
        nxt = cuts[k + 1] if k + 1 < len(cuts) else ref[0]
        if nxt != c:
            tot += (nxt - c) * _hv_int(ref[1:], _front({p[1:] for p in pts if p[0] <= c}))
    return tot


_FAIL_LABELS = ["F", "F", "F_timeout", "F_nan", "F_oom"]
_CONTAINERS = ["tuple", "tuple", "list", "ndarray", "npscalar", "intarray"]


def _common_unit(values):
    """e such that every value is k * 2^e with |k| <= 512 (float arithmetic on such streams is exact
    for <= 5 objectives), else None"""
    vals = [float(v) for v in values if v != 0]
    if not vals:
        return 0
    if not all(math.isfinite(v) for v in vals):
        return None
    e = min(math.frexp(v)[1] for v in vals) - 53
    ints = [Fraction(v) / Fraction(2) ** e for v in vals]
    if any(i.denominator != 1 for i in ints):
        return None
    g = 0
    for i in ints:
        g = math.gcd(g, int(i))
    while g % 2 == 0 and g > 0:
        g //= 2
        e += 1
    return e if all(abs(Fraction(v) / Fraction(2) ** e) <= 512 for v in vals) else None


def _stream_raw(case):
    """the job objectives of a stream case as Python floats: compact form (`jobs` = integer vectors or failure
    labels, value = integer * 2^unit_exp) or raw form (`objectives`)"""
    if "jobs" in case:
        u = 2.0 ** case.get("unit_exp", 0)
        return [j if isinstance(j, str) else tuple(float(v) * u for v in j) for j in case["jobs"]]
    return [o if isinstance(o, str) else tuple(float(v) for v in o) for o in case["objectives"]]


# NUMERIC KIND of every component of every job (`case["kinds"]`, one string per job, one letter per component;
# "" for a failed job).  A run-function may return `(1, 2)` for one job and `(0.5, 2.5)` for the next, NumPy integers,
# single-precision floats, a flag next to a number: the recorder's value is the hypervolume of the VALUES.
#   f Python float   F np.float64   s np.float32   i Python int   I np.int64   H np.int32   b bool   B np.bool_
_KIND_CTOR = {"f": float, "F": np.float64, "s": np.float32, "i": int, "I": np.int64, "H": np.int32, "b": bool, "B": np.bool_}
_KINDS_INT, _KINDS_BOOL, _KINDS_NARROW = "iIH", "bB", "sHbB"


def _resolve_kinds(o, kinds, exact=True, narrow_ok=False):
    """the kinds actually used for the float vector `o`: a requested kind that cannot hold the value EXACTLY is replaced
    by a float (an integer kind needs an integral value, bool needs 0 or 1, single precision needs a representable value
    on an exact stream; on a tolerance stream single precision rounds and the rounded value is the objective).
    Kept outside the explored part on purpose (numpy artefacts of the unchanged code, not the property): a history of
    bool-only vectors (`-np.asarray(...)` raises on dtype bool), and -- unless the stream was generated such that
    single-precision / 32-bit arithmetic is exact on it (`narrow_ok`) -- a history of float32-only or int32-only vectors
    (numpy then computes the whole hypervolume in that type)."""
    ks = list((kinds or "").ljust(len(o), "f")[:len(o)])
    for i, (v, k) in enumerate(zip(o, ks)):
        if k not in _KIND_CTOR:
            ks[i] = "f"
        elif k in _KINDS_INT and not (float(v).is_integer() and abs(v) < (2 ** 31 if k == "H" else 2 ** 40)):
            ks[i] = "f"
        elif k in _KINDS_BOOL and v not in (0.0, 1.0):
            ks[i] = "f"
        elif k == "s" and (not math.isfinite(float(np.float32(v))) or (exact and float(np.float32(v)) != v)):
            ks[i] = "f"
    if ks and all(k in _KINDS_BOOL for k in ks):
        ks[-1] = "i"
    if ks and not narrow_ok and all(k in _KINDS_NARROW for k in ks):
        ks[0] = {"s": "F", "H": "I"}.get(ks[0], "I")
    return "".join(ks)


def _mk_objective(o, container, kinds=None, exact=True, narrow_ok=False):
    """the objective object a job carries; returns (object, pristine copy of an ndarray objective or None)"""
    if isinstance(o, str):
        return o, None
    if kinds is not None:
        comps = [_KIND_CTOR[k](v) for v, k in zip(o, _resolve_kinds(o, kinds, exact, narrow_ok))]
        if container in ("ndarray", "intarray"):
            obj = np.array(comps)          # dtype as numpy infers it from the components
            return obj, obj.copy()
        return (comps if container == "list" else tuple(comps)), None
    if container == "list":
        return [float(v) for v in o], None
    if container == "ndarray":
        obj = np.array(o, dtype=float)
        return obj, obj.copy()
    if container == "intarray" and all(float(v).is_integer() and abs(v) < 2 ** 40 for v in o):
        obj = np.array([int(v) for v in o], dtype=np.int64)
        return obj, obj.copy()
    if container == "npscalar":
        return tuple(np.float64(v) for v in o), None
    return tuple(float(v) for v in o), None


def _job_kinds(case):
    ks = case.get("kinds")
    n = len(case["jobs"] if "jobs" in case else case["objectives"])
    return [None] * n if ks is None else [(ks[k] if k < len(ks) else "") for k in range(n)]


def _stream_objectives(case):
    """the job objectives of a stream case as the VALUES the recorder receives (a single-precision component of a
    tolerance stream is the rounded number): this is what goes to Lean, exactly"""
    raw = _stream_raw(case)
    if case.get("kinds") is None:
        return raw
    exact, nok, cont = case.get("exact", True), bool(case.get("narrow_ok")), case.get("container", "tuple")
    return [o if isinstance(o, str) else tuple(float(x) for x in _mk_objective(o, cont, kd, exact, nok)[0])
            for o, kd in zip(raw, _job_kinds(case))]


def _kinds_descr(case):
    """numeric kinds of the vectors of a (shrunk) stream in order of first appearance, e.g. `int>float`"""
    seen = []
    exact, nok = case.get("exact", True), bool(case.get("narrow_ok"))
    for o, kd in zip(_stream_raw(case), _job_kinds(case)):
        if isinstance(o, str):
            continue
        ks = set(_resolve_kinds(o, kd, exact, nok))
        c = ("int" if ks <= set(_KINDS_INT + _KINDS_BOOL) else "f32" if ks <= {"s"} else "float" if ks <= {"f", "F"}
             else "int+float" if ks <= set(_KINDS_INT + _KINDS_BOOL + "fF") else "mixed")
        if c not in seen:
            seen.append(c)
    return ">".join(seen)


_KIND_PLANS = ["int-then-float", "int-then-float", "int-then-float", "float-then-int", "alternate", "per-component", "per-component",
               "bool-mix", "f32-then-float", "float-then-f32", "f32-then-fine", "random", "random"]


def _add_kinds(rng, case, plan=None):
    """give every job of a generated stream a numeric kind that may CHANGE ALONG THE STREAM (in place; returns the case).
    Exact streams get the unit 2^-1 .. 2^-3 so that integral and non-integral values occur side by side; the values of
    the jobs that are to carry integers (bools) are rounded to integers (0 / 1) first."""
    m = case["m"]
    plan = plan or rng.choice(_KIND_PLANS)
    key = "jobs" if "jobs" in case else "objectives"
    jobs = case[key]
    numeric = [k for k, j in enumerate(jobs) if not isinstance(j, str)]
    n = len(numeric)
    if plan == "f32-then-fine" and (m > 2 or key != "jobs"):
        plan = "f32-then-float"
    if key == "jobs":
        top = max([abs(x) for k in numeric for x in jobs[k]] + [2])
        e = 24 if plan == "f32-then-fine" else rng.choice([c for c in (1, 2, 3) if 2 ** c <= max(2, top // 2)])
        case["unit_exp"] = -e          # (the threshold of the stopper is in units of unit^m: same place inside the range)
        s = 2 ** e
        if plan == "f32-then-fine" and case.get("threshold") is not None:
            case["threshold"] = rng.randint(0, (4 * s) ** m)
    else:
        s = 1
    ikind, fkind = rng.choice(["i", "i", "I", "I", "H"]), rng.choice(["f", "f", "f", "F"])
    p = rng.choice([1, 1, 1, 2, 3, max(1, n // 2)])
    kinds = [""] * len(jobs)

    def to_int(x):
        return s * int(round(x / s))

    for t, k in enumerate(numeric):
        v = list(jobs[k])
        first = t < p
        cls = {"int-then-float": "int" if first else rng.choice(["float"] * 4 + ["comp"]),
               "float-then-int": "float" if first else rng.choice(["int"] * 4 + ["comp"]),
               "alternate": ["int", "float"][(t + p) % 2],
               "per-component": "comp", "bool-mix": "bool",
               "f32-then-float": "f32" if first else rng.choice(["float", "float", "int", "f32"]),
               "float-then-f32": "float" if first else rng.choice(["f32", "f32", "float", "int"]),
               "f32-then-fine": "coarse" if first or rng.random() < 0.2 else "fine",
               "random": rng.choice(["int", "float", "comp", "bool", "f32"])}[plan]
        if cls == "int":
            v, kd = [to_int(x) for x in v], ikind * m
        elif cls == "float":
            kd = fkind * m
        elif cls == "f32":
            kd = "s" * m
        elif cls == "coarse":
            # small integers in single precision, then (fine) values on a 2^-24 grid: exact in double precision only
            v, kd = [s * rng.randint(-2, 2) for _ in v], "s" * m
        elif cls == "fine":
            v, kd = [rng.randint(-2 * s, 2 * s) for _ in v], fkind * m
        else:
            kd = ""
            for i in range(m):
                c = rng.choice("iiffIFsb" if cls == "comp" else "bbbifs")      # (np.bool_ is not generated: LoggerCallback cannot round() it)
                if c in _KINDS_INT:
                    v[i] = to_int(v[i])
                elif c in _KINDS_BOOL:
                    v[i] = s * rng.randint(0, 1)
                kd += c
        jobs[k], kinds[k] = v, kd
    case["kinds"], case["kind_plan"] = kinds, plan
    if case.get("container") not in ("tuple", "list", "ndarray"):
        case["container"] = rng.choice(["tuple", "tuple", "list", "ndarray"])
    # a history of single-precision-only (32-bit-integer-only) vectors is computed in that type by numpy: admitted only
    # when every volume of such vectors is an integer below 2^22 in their common power-of-two unit (shrinking keeps that)
    narrow = [jobs[k] for k in numeric if kinds[k] and all(c in _KINDS_NARROW for c in kinds[k])]
    if narrow and key == "jobs":
        g = 0
        for v in narrow:
            for x in v:
                g = math.gcd(g, int(x))
        g = (g & -g) if g else 1
        span = max(max(v[i] for v in narrow) - min(v[i] for v in narrow) for i in range(m)) // g
        case["narrow_ok"] = (span + 1) ** m <= 2 ** 22 and max(abs(x) for v in narrow for x in v) // g <= 2 ** 22
    case["kind"] = case["kind"] + "+kinds"
    return case


def _expand(case):
    """a stream case in generator form ({"gen": {"seed", "length", "m"}, "upto": k}: very long streams, whose job
    list would not fit into a replay file) -> the explicit case; other cases unchanged"""
    if "gen" not in case:
        return case
    import random

    g = case["gen"]
    full = _gen_stream(random.Random(int(g["seed"])), int(g["length"]), int(g["m"]), allow_float=False, shape=g.get("shape"))
    if "upto" in case:
        full["jobs"] = full["jobs"][:int(case["upto"])]
    full["kind"] = full["kind"] + "-gen"
    full["_src"] = {k: v for k, v in case.items() if k != "upto"}
    return full


def _hist_bucket(n):
    for b in (1, 4, 16, 64, 256):
        if n <= b:
            return f"hist<={b}"
    return "hist>256"


def _gen_stream(rng, length, m, allow_float=True, shape=None):
    """one job stream for one recorder object (compact exact form, or raw non-dyadic floats);
    `length` = number of NUMERIC jobs, failures come on top"""
    shape = shape or rng.choice(["iid", "iid", "improving", "front", "late-worst", "dups", "float" if allow_float else "iid"])
    # long histories on a small lattice saturate it (some row then attains the worst value in every objective at once)
    R = rng.choice([4, 16, 32]) if length <= 40 else rng.choice([16, 32, 32])
    sign = rng.choice(["mixed", "mixed", "negative", "positive"])
    off = {"mixed": 0, "negative": -(R + rng.randint(1, 8)), "positive": R + rng.randint(1, 8)}[sign]
    pf = rng.choice([0.0, 0.1, 0.15, 0.3])
    burst = rng.randint(1, 4) if rng.random() < 0.25 else 0
    pool = [[rng.randint(-R, R) for _ in range(m)] for _ in range(max(2, length // 6))]
    tgt = rng.randint(-R // 2, R // 2) * m
    jobs, k = [], 0
    while k < length:
        if len(jobs) < burst or rng.random() < pf:
            jobs.append(rng.choice(_FAIL_LABELS))
            continue
        k += 1
        if shape == "improving":
            # mostly: better than everything before in every objective; the worst point is then made of
            # coordinates of several different (dominated) early rows
            base = min(R, -R + (2 * R * (k - 1)) // max(length, 1))
            v = [max(-R, min(R, base + rng.randint(-1, 0))) for _ in range(m)]
            if rng.random() < 0.2:
                v[rng.randrange(m)] = rng.randint(-R, R)
        elif shape == "front":
            v = [rng.randint(-R, R) for _ in range(m)]
            for _t in range(4 * R * m):
                d = sum(v) - tgt
                if d == 0:
                    break
                i = rng.randrange(m)
                if d > 0 and v[i] > -R:
                    v[i] -= 1
                elif d < 0 and v[i] < R:
                    v[i] += 1
            if rng.random() < 0.15:
                v[rng.randrange(m)] = -R - rng.randint(0, 3)      # dominated, new worst coordinate
        elif shape == "late-worst":
            v = [rng.randint(0, R) for _ in range(m)]
            if rng.random() < 0.06:
                v[rng.randrange(m)] = -R - rng.randint(0, k)      # ever worse in one objective
        elif shape == "dups":
            v = list(rng.choice(pool))
        else:
            v = [rng.randint(-R, R) for _ in range(m)]
        jobs.append([x + off for x in v])
    case = {"kind": "stream-" + shape, "m": m, "container": rng.choice(_CONTAINERS),
            "job": rng.choice(["hpo", "hpo", "ns"]), "via": rng.choice(["on_done", "on_done", "mixed"]),
            "patience": rng.choice([1, 2, 3, 5, 8, 13]), "threshold": None,
            # the callbacks own a recorder object each: all of them on short streams, on a part of the long ones
            "callbacks": True if length <= 40 else rng.random() < 0.4}
    if shape == "float":
        sc = 10.0 ** rng.randint(-2, 2)
        case["objectives"] = [j if isinstance(j, str) else [round(x * sc * rng.uniform(0.5, 1.0), 4) for x in j] for j in jobs]
        case["container"] = rng.choice(["tuple", "list", "ndarray", "npscalar"])
        case["exact"] = False
    else:
        case["unit_exp"] = rng.choice([0, 0, -3, -3, -3, -30, -40, -100, 100])
        case["jobs"] = jobs
        case["exact"] = True
        if rng.random() < 0.3:
            # in units of the hypervolume (unit^m): somewhere inside the range the values take
            case["threshold"] = rng.randint(0, (2 * R) ** m)
    if rng.random() < 0.2:
        jobs.append(rng.choice(_FAIL_LABELS))      # the value after a trailing failure is still the hypervolume of the history
    if rng.random() < 0.35:
        # a second recorder object fed alternately (its own, different history)
        case["decoy"] = [rng.choice(_FAIL_LABELS) if rng.random() < 0.1 else [rng.randint(-40, 40) for _ in range(m)]
                         for _ in range(min(length, rng.randint(1, 90)))]
    return case


def _arr(pts, m, layout="C", dtype=float):
    """the caller's array in several memory layouts; returns (array passed, owner to compare)"""
    n = len(pts)
    y = np.array(pts, dtype=dtype).reshape(n, m)
    if layout == "F":
        y = np.asfortranarray(y)
        return y, y
    if layout == "view":
        big = np.zeros((n, 2 * m), dtype=dtype)
        big[:, ::2] = y
        big[:, 1::2] = -7
        return big[:, ::2], big
    return y, y


def _call(hypervolume, pts, ref, layout="C"):
    """one real call; returns (value or exception, mutated?)"""
    m = len(ref)
    y, owner = _arr(pts, m, layout)
    r = np.array(ref, dtype=float)
    o0, r0 = owner.copy(), r.copy()
    try:
        h = hypervolume(y, r)
    except Exception as e:  # noqa
        return e, False
    mutated = not (np.array_equal(owner, o0) and np.array_equal(r, r0))
    return float(h), mutated


# ----------------------------------------------------------------------------- generators


def _lattice_sets(side, m, kmax):
    lat = list(itertools.product(range(side), repeat=m))
    for k in range(1, kmax + 1):
        yield from itertools.combinations(lat, k)


def _gen_exhaustive(ck):
    """sets of <= k points on {0..s}^m, reference (s,..,s): (m, s, kmax, sample or None)"""
    rng = ck.rng
    if ck.thorough:
        plan = [(1, 4, 4, None), (2, 4, 4, None), (3, 2, 4, None), (3, 3, 3, None), (3, 4, 4, 40000),
                (4, 1, 4, None), (4, 2, 3, None), (4, 4, 4, 40000), (5, 1, 3, None), (5, 4, 4, 5000)]
    else:
        plan = [(1, 4, 4, None), (2, 4, 3, None), (2, 4, 4, 1500), (3, 2, 3, None), (3, 4, 4, 2500),
                (4, 1, 3, None), (4, 4, 4, 2000), (5, 4, 4, 300)]
    for m, s, kmax, sample in plan:
        ref = [float(s)] * m
        if sample is None:
            for c in _lattice_sets(s + 1, m, kmax):
                pts = [list(map(float, p)) for p in c]
                if len(pts) > 1 and rng.random() < 0.5:
                    rng.shuffle(pts)
                yield {"kind": f"exh-{m}d-s{s}-k{kmax}", "ref": ref, "pts": pts, "exact": True}
        else:
            for _ in range(sample):
                k = rng.randint(1, kmax)
                pts = list({tuple(rng.randint(0, s) for _ in range(m)) for _ in range(k)})
                pts = [list(map(float, p)) for p in pts]
                yield {"kind": f"smp-{m}d-s{s}-k{kmax}", "ref": ref, "pts": pts, "exact": True}


_KINDS = ["lattice", "dyadic", "dups", "collinear", "boundary", "front", "zero-ref", "tiny-ref", "cluster", "cluster", "float", "float"]


def _gen_random_one(rng, nmax, mmax, kind=None):
    kind = kind or rng.choice(_KINDS)
    m = rng.randint(1, mmax)
    n = rng.choice([0, 1, 2, 3, 4, 6, 9, 14, 22, 35, 60])
    n = min(n, nmax)
    exact = True
    if kind == "lattice":
        R = rng.choice([2, 4, 8])
        ref = [float(R)] * m
        pts = [[float(rng.randint(0, R)) for _ in range(m)] for _ in range(n)]
    elif kind == "dyadic":
        den = rng.choice([2, 4, 8])
        off = [rng.randint(-16, 16) / den for _ in range(m)]
        span = [rng.randint(1, 4 * den) for _ in range(m)]
        ref = [off[i] + span[i] / den for i in range(m)]
        pts = [[off[i] + rng.randint(0, span[i]) / den for i in range(m)] for _ in range(n)]
    elif kind == "dups":
        R = 4
        ref = [float(R)] * m
        pool = [[float(rng.randint(0, R)) for _ in range(m)] for _ in range(max(1, n // 3))]
        pts = [list(rng.choice(pool)) for _ in range(n)]
    elif kind == "collinear":
        R = 8
        ref = [float(R)] * m
        p0 = [rng.randint(0, R) for _ in range(m)]
        d = [rng.choice([-1, 0, 1]) for _ in range(m)]
        pts = []
        for _ in range(n):
            t = rng.randint(0, R)
            pts.append([float(min(R, max(0, p0[i] + t * d[i]))) for i in range(m)])
    elif kind == "boundary":
        R = 4
        ref = [float(R)] * m
        pts = []
        for _ in range(n):
            p = [float(rng.randint(0, R)) for _ in range(m)]
            if rng.random() < 0.6:
                p[rng.randrange(m)] = float(R)
            pts.append(p)
    elif kind == "front":
        # mutually non-dominated: constant coordinate sum on a lattice
        R = 8
        ref = [float(R)] * m
        pts = []
        for _ in range(n):
            p = [rng.randint(0, R) for _ in range(m)]
            tgt = (R * m) // 2
            for _t in range(50):
                s = sum(p)
                if s == tgt:
                    break
                i = rng.randrange(m)
                if s < tgt and p[i] < R:
                    p[i] += 1
                elif s > tgt and p[i] > 0:
                    p[i] -= 1
            pts.append([float(v) for v in p])
    elif kind == "cluster":
        # many objectives, few distinct values, points sharing their leading or trailing coordinates:
        # equal projections and ties in every sweep list (where the pruning flags / cached areas matter)
        m = rng.randint(4, 7)
        n = min(n, 14)
        R = rng.randint(1, 3)
        ref = [float(R)] * m
        base = [[rng.randint(0, R) for _ in range(m)] for _ in range(rng.randint(1, 3))]
        pts = []
        for _ in range(n):
            b = list(rng.choice(base))
            k = rng.randint(0, m)
            rngs = range(k, m) if rng.random() < 0.5 else range(0, k)
            for i in rngs:
                b[i] = rng.randint(0, R)
            if rng.random() < 0.3:
                b[rng.randrange(m)] = rng.randint(0, R)
            pts.append([float(v) for v in b])
    elif kind == "tiny-ref":
        # small-magnitude problems: reference components exactly zero, tiny positive or tiny negative
        # (all multiples of a power of two, so the arithmetic stays exact)
        u = 2.0 ** rng.choice([-30, -33, -40, -60, -100])
        ref = [rng.choice([0.0, 0.0, 1.0, 2.0, 3.0, -1.0, -2.0]) * u for _ in range(m)]
        if rng.random() < 0.3:
            ref[rng.randrange(m)] = float(rng.randint(1, 4)) * u
        pts = [[ref[i] - rng.randint(0, 6) * u for i in range(m)] for _ in range(n)]
    elif kind == "zero-ref":
        # `if any(referencePoint)` is False: no shift; some coordinates of ref zero, others not
        den = rng.choice([1, 2, 4])
        ref = [0.0 if rng.random() < 0.7 else float(rng.randint(1, 3)) for _ in range(m)]
        if rng.random() < 0.5:
            ref = [0.0] * m
        pts = [[ref[i] - rng.randint(0, 4 * den) / den for i in range(m)] for _ in range(n)]
    else:
        exact = False
        n = min(n, 22) if m >= 4 else n
        scale = 10.0 ** rng.randint(-3, 3)
        ref = [rng.uniform(-1, 1) * scale for _ in range(m)]
        pts = [[ref[i] - rng.random() * scale * rng.choice([1.0, 1.0, 0.0, 1e-3]) for i in range(m)] for _ in range(n)]
    return {"kind": kind, "ref": ref, "pts": pts, "exact": exact}


def _variants(rng, case):
    """permuted, duplicated and add-a-point variants of one base case"""
    pts, ref, m = case["pts"], case["ref"], len(case["ref"])
    out = []
    n = len(pts)
    if n >= 2:
        perm = list(range(n))
        rng.shuffle(perm)
        out.append({"variant": "perm", "pts": [pts[i] for i in perm]})
    if n >= 1:
        extra = [pts[rng.randrange(n)] for _ in range(rng.randint(1, 3))]
        vp = pts + extra
        rng.shuffle(vp)
        out.append({"variant": "dup", "pts": vp})
    # the same problem scaled by an exact power of two: hv scales by s^m (exact while nothing under/overflows)
    if case["exact"]:
        big = max([abs(v) for p in pts for v in p] + [abs(r) for r in ref] + [1e-300])
        for e in (-40, -100, 100):
            if 2.0 ** (-900 / max(m, 1)) < big * 2.0 ** e < 2.0 ** (900 / max(m, 1)):
                sc = 2.0 ** e
                out.append({"variant": f"scale2^{e}", "pts": [[v * sc for v in p] for p in pts],
                            "ref": [r * sc for r in ref], "scale_exp": e})
    # add a point: below the reference, anywhere in (or slightly below) the cloud
    # extent of the cloud below the reference, in the problem's own scale (tiny / huge problems stay exact)
    spans = [ref[i] - min([p[i] for p in pts] + [ref[i]]) for i in range(m)]
    D = max(spans + [0.0]) or max([abs(r) for r in ref] + [0.0]) or 1.0
    lo = [ref[i] - max(spans[i], D) for i in range(m)]
    if case["exact"]:
        q = []
        for i in range(m):
            cands = sorted({p[i] for p in pts} | {ref[i], lo[i], ref[i] - (ref[i] - lo[i]) / 2, lo[i] - D / 2})
            q.append(rng.choice(cands))
    else:
        q = [ref[i] - rng.random() * (ref[i] - lo[i]) for i in range(m)]
    out.append({"variant": "add", "pts": pts + [q], "q": q})
    # a boundary point must not change the value
    b = [rng.choice([p[i] for p in pts] + [lo[i]]) for i in range(m)]
    j = rng.randrange(m)
    b[j] = ref[j]
    out.append({"variant": "add-boundary", "pts": pts + [b], "q": b})
    return out


# ----------------------------------------------------------------------------- the run


def _lean_all(ck, reqs, nproc):
    """answer `reqs` with `nproc` driver processes (order preserved)"""
    if not reqs:
        return []
    weight = sum(max(1, len(r.get("jobs", ())) // 4) for r in reqs)      # a stream request answers one value per job
    nproc = max(1, min(nproc, weight // 200 + 1, len(reqs)))
    chunks = [reqs[i::nproc] for i in range(nproc)]
    outs = [None] * nproc
    errs = []

    def work(i):
        try:
            with ck.driver() as d:
                outs[i] = d.ask_all(chunks[i])
        except BaseException as e:  # noqa
            errs.append(e)

    ths = [threading.Thread(target=work, args=(i,), daemon=True) for i in range(nproc)]
    for t in ths:
        t.start()
    for t in ths:
        t.join()
    if errs:
        e = errs[0]
        raise e if isinstance(e, HarnessError) else HarnessError(f"lean driver thread failed: {e!r}")
    res = [None] * len(reqs)
    for i in range(nproc):
        res[i::nproc] = outs[i]
    return res


def _req(pts, ref, want, order=None):
    r = {"op": "hv", "ref": [rat(v) for v in ref], "pts": [[rat(v) for v in p] for p in pts], "want": want}
    if order is not None:
        r["order"] = order
    return r


def _scale(ref, pts):
    """bounding-box volume: the natural scale for the float tolerance"""
    s = 1.0
    for i, r in enumerate(ref):
        s *= max(r - min([p[i] for p in pts] + [r]), 0.0)
    return s


def _close(h, e, ref, pts):
    return abs(h - float(e)) <= TOL * max(_scale(ref, pts), abs(float(e)))


class _Runner:
    def __init__(self, ck):
        import deephyper.skopt.moo._pf as pf
        from deephyper.skopt.moo import hypervolume

        self.ck, self.pf, self.hypervolume = ck, pf, hypervolume
        self.spy = _NpSpy()
        self.reqs, self.metas = [], []
        self._cls = None

    def close(self):
        if self._cls is not None:
            self._cls.close()
            self._cls = None

    # -- failure reporting with a shrunk case
    def fail(self, clause, site, case, detail, extra=""):
        m = len(case["ref"])
        fp = f"C12|{clause}|{site}|{_branch(m)}{extra}"
        what = {"exact": "hypervolume differs from the exact dominated volume",
                "perm-invariant": "value changes when the points are permuted",
                "dup-invariant": "value changes when points are duplicated",
                "monotone": "value decreases when a point is added",
                "boundary-zero": "a point on the reference boundary changes the value",
                "scale-invariant": "hv(s*P, s*ref) differs from s^m * hv(P, ref) for a power of two s",
                "mutates-input": "the caller's array (or reference) was modified",
                "raises": "hypervolume raised on an input inside the property's quantifier"}.get(clause, clause)
        self.ck.fail(fp, f"{site}: {what} ({_branch(m)})", case, detail)

    def classify(self, case):
        """which modelled repair makes the model exact on this (shrunk) input: the oracle clause's
        input class.  area-init = fix 9767936 (running product), tie-order = fix ecd8f06."""
        pts, ref = case["pts"], case["ref"]
        self.spy.orders.clear()
        h, _ = _call(self.hypervolume, pts, ref)
        order = self.spy.orders[-1] if self.spy.orders else None
        if order is None or isinstance(h, Exception):
            return "unclassified"
        if self._cls is None:
            self._cls = self.ck.driver()
        rep = self._cls.ask(_req(pts, ref, ["fast", "code", "variants"], order))
        spec = unrat(rep["fast"])
        val = {k: (unrat(rep[k]) if rep.get(k) is not None else None) for k in ("code", "code_ff", "code_tf", "code_ft")}
        exact = case.get("exact", True)
        same = (lambda a: a is not None and ((a == spec) if exact else _close(float(a), spec, ref, pts)))
        if not same(val["code"]):
            return "repaired-model-also-wrong"
        tf, ft = same(val["code_tf"]), same(val["code_ft"])
        if same(val["code_ff"]):
            return "not-reproduced-by-model"
        if tf and not ft:
            return "needs=area-init"
        if ft and not tf:
            return "needs=tie-order"
        if tf and ft:
            return "needs=area-init-or-tie-order"
        return "needs=area-init+tie-order"

    def shrink_exact(self, case):
        """greedy point deletion while real != exact (python oracle)"""
        pts, ref = [list(p) for p in case["pts"]], case["ref"]

        def bad(ps):
            h, _ = _call(self.hypervolume, ps, ref)
            if isinstance(h, Exception):
                return False
            e = _exact_py(ref, ps)
            return (Fraction(h) != e) if case.get("exact", True) else not _close(h, e, ref, ps)

        if len(pts) > 40 or not bad(pts):
            return case
        changed = True
        while changed:
            changed = False
            for i in range(len(pts)):
                cand = pts[:i] + pts[i + 1:]
                if bad(cand):
                    pts, changed = cand, True
                    break
        return {**case, "pts": pts, "shrunk_from": len(case["pts"])}

    # -- one base case (+ variants): real calls now, Lean later
    def submit(self, case, with_variants, want_small):
        ck = self.ck
        pts, ref, m = case["pts"], case["ref"], len(case["ref"])
        n = len(pts)
        layout = case.get("layout", "C")
        self.spy.orders.clear()
        h, mutated = _call(self.hypervolume, pts, ref, layout)
        order = self.spy.orders[-1] if self.spy.orders else None
        ck.count("kind:" + case["kind"].split("-")[0])
        ck.count(_branch(m) if n else "n=0")
        ck.count(f"n={n}" if n < 5 else "n=5..9" if n < 10 else "n=10..29" if n < 30 else "n>=30")
        front = [p for p in {tuple(p) for p in pts} if not any(_wd(q, p) and tuple(q) != p for q in map(tuple, pts))]
        ck.count("front=" + ("0" if not front else "1" if len(front) == 1 else "2..4" if len(front) < 5 else "5+"))
        nontriv = m >= 2 and len(front) >= 2
        ck.case({k: case[k] for k in ("kind", "ref", "pts")}, nontrivial=nontriv)
        if isinstance(h, Exception):
            self.fail("raises", "hypervolume", case, repr(h), "|" + type(h).__name__)
            return
        if mutated:
            self.fail("mutates-input", "hypervolume", case, {"layout": layout})
        if order is None:
            ck.count("no-argsort-observed")
        want = ["fast"] + (["code"] if order is not None else [])
        if want_small:
            want += ["hv", "last"]
            if case["kind"].startswith(("exh", "smp")) and (int(ref[0]) ** m) <= 1300:
                want += ["cells"]
        self.reqs.append(_req(pts, ref, want, order))
        self.metas.append(("base", case, h, None))
        if not with_variants:
            return
        for v in _variants(ck.rng, case):
            if "scale_exp" in v:
                self._scaled(case, v, h)
                continue
            vc = {**case, "pts": v["pts"], "variant": v["variant"], "base_pts": pts}
            if "q" in v:
                vc["q"] = v["q"]
            self.spy.orders.clear()
            hv_, mut = _call(self.hypervolume, v["pts"], ref, ck.rng.choice(["C", "C", "F", "view"]))
            ck.count("variant:" + v["variant"])
            if isinstance(hv_, Exception):
                self.fail("raises", "hypervolume", vc, repr(hv_), "|" + type(hv_).__name__)
                continue
            if mut:
                self.fail("mutates-input", "hypervolume", vc, None)
            tol = 0.0 if case["exact"] else TOL * max(_scale(ref, v["pts"]), abs(h))
            if v["variant"] == "perm" and abs(hv_ - h) > tol:
                self.fail("perm-invariant", "hypervolume", vc, {"base": h, "variant": hv_})
            elif v["variant"] == "dup" and abs(hv_ - h) > tol:
                self.fail("dup-invariant", "hypervolume", vc, {"base": h, "variant": hv_})
            elif v["variant"] == "add" and hv_ < h - tol:
                self.fail("monotone", "hypervolume", vc, {"before": h, "after": hv_})
            elif v["variant"] == "add-boundary" and abs(hv_ - h) > tol:
                self.fail("boundary-zero", "hypervolume", vc, {"before": h, "after": hv_})
            if v["variant"] == "add":
                ck.case({"kind": case["kind"] + "+add", "ref": ref, "pts": v["pts"]}, nontrivial=m >= 2 and len(v["pts"]) >= 2)
                o2 = self.spy.orders[-1] if self.spy.orders else None
                self.reqs.append(_req(v["pts"], ref, ["fast"] + (["code"] if o2 is not None else []), o2))
                self.metas.append(("add", vc, hv_, None))

    def _scaled(self, case, v, h):
        """scale-invariance on the real code: hv(s*P, s*ref) == s^m * hv(P, ref), exactly for s = 2^e;
        the scaled problem is itself a case inside the quantifier and is also sent to Lean"""
        ck = self.ck
        m = len(case["ref"])
        sc_case = {"kind": case["kind"] + "*" + v["variant"], "ref": v["ref"], "pts": v["pts"], "exact": True,
                   "variant": v["variant"], "base_pts": case["pts"], "base_ref": case["ref"], "scale_exp": v["scale_exp"]}
        self.spy.orders.clear()
        hs, mut = _call(self.hypervolume, v["pts"], v["ref"])
        order = self.spy.orders[-1] if self.spy.orders else None
        ck.count("variant:scale")
        ck.case({"kind": sc_case["kind"], "ref": v["ref"], "pts": v["pts"]}, nontrivial=m >= 2 and len(v["pts"]) >= 2)
        if isinstance(hs, Exception):
            self.fail("raises", "hypervolume", sc_case, repr(hs), "|" + type(hs).__name__)
            return
        if mut:
            self.fail("mutates-input", "hypervolume", sc_case, None)
        expect = Fraction(h) * Fraction(2) ** (v["scale_exp"] * m)
        if Fraction(hs) != expect:
            self.fail("scale-invariant", "hypervolume", sc_case,
                      {"base": h, "scaled": hs, "expected_scaled": float(expect), "scale": f"2^{v['scale_exp']}"})
        self.reqs.append(_req(v["pts"], v["ref"], ["fast"] + (["code"] if order is not None else []), order))
        self.metas.append(("scaled", sc_case, hs, None))

    # -- job streams on ONE recorder object (the glue in evaluator/callback.py)
    def _mk_job(self, k, o, container, jobkind, kinds=None, exact=True, narrow_ok=False):
        """a job as the evaluator hands it to the callbacks; returns (job, pristine copy of an ndarray objective or None)"""
        obj, keep = _mk_objective(o, container, kinds, exact, narrow_ok)
        job = None
        if jobkind == "hpo":
            try:
                from deephyper.evaluator import HPOJob

                job = HPOJob(k, {"x": k}, None, None)
                job.set_output({"objective": obj})
                if job.objective is not obj:
                    job = None
            except Exception:  # noqa
                job = None
        if job is None:
            job = types.SimpleNamespace(id=k, objective=obj)
        return job, keep

    def _drive(self, case, callbacks=True, count=True):
        # (a single-precision history makes numpy warn "overflow encountered in cast" when _hv.py compares its
        # sentinel -1.0e308 with a float32: the comparison is still right; keep stderr readable)
        with np.errstate(over="ignore"):
            return self._drive_(case, callbacks, count)

    def _drive_(self, case, callbacks=True, count=True):
        """run the REAL recorder (one object) over the whole stream.  Returns a record:
        vals[k] = value returned after job k (float; nan if not a number), stops[k] = search_stopped of the
        deciding stopper, err = (k, exception) if a call raised, mutated = first k whose objective array changed"""
        from deephyper.evaluator.callback import ObjectiveRecorder

        ck = self.ck
        objs = _stream_objectives(case)         # the values as handed in (what Lean gets)
        raw, kinds = _stream_raw(case), _job_kinds(case)
        exact, nok = case.get("exact", True), bool(case.get("narrow_ok"))
        container, jobkind = case.get("container", "tuple"), case.get("job", "ns")
        rec = ObjectiveRecorder()
        decoy_rec = ObjectiveRecorder() if case.get("decoy") else None
        decoy = case.get("decoy") or []
        cbs = self._mk_callbacks(case) if callbacks else None
        out = {"objs": objs, "vals": [], "stops": [], "err": None, "mutated": None}
        kept = []
        for k, o in enumerate(raw):
            job, keep = self._mk_job(k, o, container, jobkind, kinds[k], exact, nok)
            kept.append((job, keep))
            try:
                val = rec(job)
            except Exception as e:  # noqa
                out["err"] = (k, e)
                return out
            try:
                v = float(val)
            except Exception:  # noqa
                v = float("nan")
            out["vals"].append(v)
            if cbs is not None:
                self._callbacks(cbs, job, v, case, k, raw=val)
                out["stops"].append(bool(getattr(cbs["decider"], "search_stopped", False)))
            if decoy_rec is not None and k < len(decoy):
                d = decoy[k]
                try:
                    decoy_rec(self._mk_job(k, d if isinstance(d, str) else tuple(float(x) for x in d), "ndarray", "ns")[0])
                except Exception:  # noqa
                    pass
            if out["mutated"] is None:
                # the newest objective array after every job, all of them every 32 jobs and at the end
                chk = kept if (k % 32 == 31 or k == len(objs) - 1) else kept[-1:]
                for (j2, kp) in chk:
                    if kp is not None and not (isinstance(j2.objective, np.ndarray) and np.array_equal(j2.objective, kp)):
                        out["mutated"] = k
                        break
            if count:
                ck.count("recorder-call")
        return out

    def _mk_callbacks(self, case):
        try:
            return self._mk_callbacks_(case)
        except Exception as e:  # noqa
            self.ck.fail(f"C12|raises|callbacks|{type(e).__name__}", "LoggerCallback / SearchEarlyStopping / TqdmCallback cannot be constructed",
                         {"kind": case.get("kind"), "patience": case.get("patience"), "threshold": case.get("threshold")}, repr(e))
            return None

    def _mk_callbacks_(self, case):
        from deephyper.evaluator.callback import LoggerCallback, SearchEarlyStopping, TqdmCallback

        thr = case.get("threshold")
        if thr is not None and "jobs" in case:
            thr = float(thr) * 2.0 ** (case.get("unit_exp", 0) * case["m"])
        cbs = {"logger": LoggerCallback(), "printer": SearchEarlyStopping(patience=10 ** 9, verbose=1),
               "decider": SearchEarlyStopping(patience=int(case.get("patience", 10)), threshold=thr, verbose=0),
               "tqdm": None, "tqdm_buf": None, "threshold": thr}
        if case.get("job") == "hpo":
            try:
                import io

                cbs["tqdm"], cbs["tqdm_buf"] = TqdmCallback(), io.StringIO()
            except Exception:  # noqa
                cbs["tqdm"] = None
        return cbs

    def stream(self, case):
        """one recorder object through a whole job stream: real code now, Lean `recRun` later (judge)"""
        ck = self.ck
        case = _expand(case)
        rec = self._drive(case, callbacks=bool(case.get("callbacks", True)))
        objs = rec["objs"]
        ck.count("stream:" + case.get("kind", "?").replace("stream-", ""))
        ck.count("stream-container:" + case.get("container", "tuple"))
        kinds = _job_kinds(case)
        if case.get("kinds") is not None:
            ck.count("stream-kinds:" + str(case.get("kind_plan", "given")))
            for o_, kd_ in zip(_stream_raw(case), kinds):
                if not isinstance(o_, str):
                    for c_ in set(_resolve_kinds(o_, kd_, case.get("exact", True), bool(case.get("narrow_ok")))):
                        ck.count("stream-kind-letter:" + c_)
        n_num = sum(1 for o in objs if not isinstance(o, str))
        ck.count("stream-" + _hist_bucket(n_num))
        import hashlib

        h = hashlib.sha1(repr((case.get("m"), case.get("unit_exp"), case.get("container"))).encode())
        for k, o in enumerate(objs[:len(rec["vals"]) + (1 if rec["err"] else 0)]):
            h.update(repr((o, kinds[k])).encode())
            ck.case({"kind": case.get("kind", "stream"), "prefix": h.hexdigest()[:20], "n": k + 1}, nontrivial=k >= 1 and not isinstance(o, str))
        numeric = [o for o in objs if not isinstance(o, str)]
        mbr = _branch(len(numeric[0]) if numeric else 1)
        if rec["err"] is not None:
            k, e = rec["err"]
            sc = self._prefix(case, k + 1)
            ck.fail(f"C12|raises|ObjectiveRecorder|{mbr}|{type(e).__name__}",
                    "ObjectiveRecorder raised on numeric multi-objective jobs", sc, repr(e))
            return
        if rec["mutated"] is not None:
            sc = self._prefix(case, rec["mutated"] + 1)
            ck.fail(f"C12|mutates-input|ObjectiveRecorder|{mbr}|{case.get('container')}",
                    "an objective array handed to the recorder was modified", sc, {"first_seen_after_job": rec["mutated"] + 1})
        thr = None
        if case.get("exact", True) and rec["stops"]:
            cbthr = case.get("threshold")
            if cbthr is not None and "jobs" in case:
                thr = rat(float(cbthr) * 2.0 ** (case.get("unit_exp", 0) * case["m"]))
        self.reqs.append({"op": "recorder", "jobs": [None if isinstance(o, str) else [rat(v) for v in o] for o in objs],
                          "patience": int(case.get("patience", 10)), "threshold": thr})
        self.metas.append(("stream", case, rec, None))

    @staticmethod
    def _prefix(case, k):
        if "_src" in case:
            return {**case["_src"], "upto": k}
        c = {kk: v for kk, v in case.items() if kk != "decoy"}
        if "jobs" in c:
            c["jobs"] = c["jobs"][:k]
        else:
            c["objectives"] = c["objectives"][:k]
        if c.get("kinds") is not None:
            c["kinds"] = list(c["kinds"][:k])
        if "decoy" in case:
            c["decoy"] = case["decoy"][:k]
        return c

    def _stream_bad(self, case, clause):
        """does the (plain, callback-free) run of `case` still show the failure `clause`?  exact: the value
        after the LAST job differs from the exact hypervolume of the whole history (Python oracle)"""
        rec = self._drive(case, callbacks=False, count=False)
        if rec["err"] is not None or not rec["vals"]:
            return False
        vals = rec["vals"]
        exact = case.get("exact", True)
        numeric = [o for o in rec["objs"] if not isinstance(o, str)]
        if clause == "monotone":
            prev, first = None, True
            for o, v in zip(rec["objs"], vals):
                first = first and isinstance(o, str)
                if first:
                    continue
                if prev is not None and not v >= prev - (0.0 if exact else TOL * max(abs(prev), abs(v))):
                    return True
                prev = v
            return False
        if not numeric:
            return False
        v = vals[-1]
        if not math.isfinite(v):
            return True
        m = len(numeric[0])
        if "jobs" in case:
            ipts = [[-x for x in j] for j in case["jobs"] if not isinstance(j, str)]
            iref = [max(p[i] for p in ipts) for i in range(m)]
            return Fraction(v) != _hv_int(iref, ipts) * Fraction(2) ** (case.get("unit_exp", 0) * m)
        if len(numeric) > 40:
            return False
        pts = [[-x for x in o] for o in numeric]
        ref = [max(p[i] for p in pts) for i in range(m)]
        e = _exact_py(ref, pts)
        return (Fraction(v) != e) if exact else not _close(v, e, ref, pts)

    def shrink_stream(self, case, clause):
        """delta-debugging on the job list (bounded number of re-runs), then simpler containers"""
        key = "jobs" if "jobs" in case else "objectives"
        base = {k: v for k, v in case.items() if k != "decoy"}
        if not self._stream_bad(base, clause):
            base = dict(case)
            if not self._stream_bad(base, clause):
                return case
        # a job and its numeric kinds go together
        has_kinds = base.get("kinds") is not None
        jobs = list(zip(base[key], _job_kinds(base)))

        def mk(js, b=None):
            c = {**(b or base), key: [j for j, _ in js]}
            if has_kinds:
                c["kinds"] = [kd for _, kd in js]
            return c

        attempts, chunk = 0, max(1, len(jobs) // 2)
        while attempts < 250:
            i, removed = 0, False
            while i < len(jobs) and attempts < 250:
                cand = jobs[:i] + jobs[i + chunk:]
                attempts += 1
                if cand and self._stream_bad(mk(cand), clause):
                    jobs, removed = cand, True
                else:
                    i += chunk
            if chunk > 1:
                chunk = max(1, chunk // 2)
            elif not removed:
                break
        out = {**mk(jobs), "shrunk_from": len(case[key])}
        if has_kinds:
            # do the numeric kinds matter?  (all components as Python floats: the kind-free stream of the same values)
            cand = {kk: v for kk, v in out.items() if kk not in ("kinds", "kind_plan", "narrow_ok")}
            if "objectives" in cand:
                cand["objectives"] = [o if isinstance(o, str) else list(o) for o in _stream_objectives(out)]
            if self._stream_bad(cand, clause):
                out = cand
            else:
                # plainer kinds where the failure survives them: Python int / float for the NumPy and bool ones, then job
                # by job all components as Python floats
                plain = str.maketrans("IHbBFs", "iiiiff")
                cand = {**out, "kinds": [kd.translate(plain) for kd in out["kinds"]]}
                if cand != out and self._stream_bad(cand, clause):
                    out = cand
                for i, kd in enumerate(out["kinds"][:12]):
                    if kd.strip("f"):
                        cand = {**out, "kinds": out["kinds"][:i] + ["f" * len(kd)] + out["kinds"][i + 1:]}
                        if self._stream_bad(cand, clause):
                            out = cand
        for simpler in ({"container": "tuple", "job": "ns"}, {"job": "ns"}, {"container": "tuple"}):
            cand = {**out, **simpler}
            if cand != out and self._stream_bad(cand, clause):
                out = cand
                break
        return out

    def _stream_class(self, case):
        """where the failure sits: is a DIRECT hypervolume(-objectives, worst point) call on the final history
        exact?  yes -> the glue (recorder) is wrong; no -> the input class of the _hv.py failure"""
        numeric = [o for o in _stream_objectives(case) if not isinstance(o, str)]
        if not numeric:
            return "no-objective"
        m = len(numeric[0])
        pts = [[-x for x in o] for o in numeric]
        ref = [max(p[i] for p in pts) for i in range(m)]
        h, _ = _call(self.hypervolume, pts, ref)
        if isinstance(h, Exception):
            return "direct-call-raises"
        if self._cls is None:
            self._cls = self.ck.driver()
        spec = unrat(self._cls.ask(_req(pts, ref, ["fast"]))["fast"])
        ok = (Fraction(h) == spec) if case.get("exact", True) else _close(h, spec, ref, pts)
        if ok:
            return "recorder-glue"
        return self.classify({"pts": pts, "ref": ref, "exact": case.get("exact", True)})

    def _report_stream(self, clause, case, k, detail):
        """shrink (first few per clause), classify, report"""
        self.nstream = getattr(self, "nstream", {})
        key = (clause, _branch(case.get("m", 2)), _hist_bucket(k + 1), case.get("kinds") is not None)
        self.nstream[key] = self.nstream.get(key, 0) + 1
        sc = self._prefix(case, k + 1)
        if self.nstream[key] > 1 or len(self.nstream) > 8:
            # one shrunk replay per (clause, objectives, history length) class is enough
            self.ck.count(f"stream-{clause}-failures-not-shrunk")
            return
        if "gen" not in sc:
            sc = self.shrink_stream(sc, clause)
        numeric = [o for o in _stream_objectives(_expand(sc)) if not isinstance(o, str)]
        mbr = _branch(len(numeric[0]) if numeric else 1)
        extra = f"|{self._stream_class(_expand(sc))}|{_hist_bucket(len(numeric))}"
        if sc.get("kinds") is not None:
            # the failure needs the numeric kinds of the shrunk stream (it is gone when every component is a Python float)
            extra += "|kinds=" + _kinds_descr(sc)
        what = {"exact": "value reported after a job differs from the exact hypervolume of the history so far (reference = componentwise worst point)",
                "monotone": "value reported by one recorder object decreases when a job is added"}[clause]
        self.ck.fail(f"C12|{clause}|ObjectiveRecorder|{mbr}{extra}", f"ObjectiveRecorder: {what} ({mbr})", sc, detail)

    def _judge_stream(self, case, rec, rep):
        ck = self.ck
        objs, vals = rec["objs"], rec["vals"]
        exact = case.get("exact", True)
        lean = rep["values"]
        if len(lean) != len(objs):
            raise HarnessError("recorder reply has a wrong length")
        # Lean-internal: the reference point kept incrementally (refRun) is the worst point of the values handed in
        allnum = [o for o in objs if not isinstance(o, str)]
        if "ref" in rep and len(vals) == len(objs):
            want = [max(Fraction(-x) for x in col) for col in zip(*allnum)] if allnum else None
            got = None if rep["ref"] is None else [unrat(x) for x in rep["ref"]]
            if got != want:
                ck.mismatch(self._prefix(case, len(objs)), {"what": "model: incremental reference point (refRun) differs from the componentwise worst point",
                                                            "refRun": rep["ref"], "worst": None if want is None else [str(x) for x in want]})
            ck.count("stream-ref-compared")
        numeric, prev, all_ok = [], None, True
        for k, (o, v) in enumerate(zip(objs, vals)):
            if not isinstance(o, str):
                numeric.append(o)
            if lean[k] is None:
                if v != -float("inf"):
                    all_ok = False
                    ck.fail("C12|exact|ObjectiveRecorder|no-objective", "recorder value before any numeric objective is not -inf",
                            self._prefix(case, k + 1), v)
                    break
                continue
            spec = unrat(lean[k])
            m = len(numeric[0])
            pts = [[-x for x in q] for q in numeric]
            ref = [max(p[i] for p in pts) for i in range(m)]
            ok = math.isfinite(v) and ((Fraction(v) == spec) if exact else _close(v, spec, ref, pts))
            ck.count("stream-step-compared")
            if not ok:
                all_ok = False
                self._report_stream("exact", case, k, {"job": k + 1, "impl": v, "exact": f"{spec.numerator}/{spec.denominator}", "exact_float": float(spec)})
            if prev is not None and not v >= prev - (0.0 if exact else TOL * max(_scale(ref, pts), abs(prev))):
                # theorem C12_recorder_monotone: the exact values never decrease along a stream
                all_ok = False
                self._report_stream("monotone", case, k, {"job": k + 1, "before": prev, "after": v})
            if not all_ok:
                break
            prev = v
        # L2: the stop decision of SearchEarlyStopping against the model (exact streams with exact values only)
        if all_ok and exact and rec["stops"] and len(rec["stops"]) == len(objs):
            ck.count("stream-stopper-compared")
            for k, (a, b) in enumerate(zip(rec["stops"], rep["stopped"])):
                if bool(a) != bool(b):
                    ck.mismatch(self._prefix(case, k + 1), {"what": "SearchEarlyStopping.search_stopped differs from the model stopRun",
                                                            "job": k + 1, "impl": bool(a), "model": bool(b), "patience": case.get("patience"),
                                                            "threshold": case.get("threshold")})
                    break

    # -- growing archive: repeated calls on the SAME array / reference objects
    def archive(self, case):
        """`hypervolume(A[:k], ref)` for k = 1..n on one preallocated array and one reference array, then rows
        overwritten in place: each value must equal the value of a fresh call on fresh copies (which goes
        through the ordinary exactness check), and neither object may change"""
        ck = self.ck
        rows, ref, m = case["rows"], case["ref"], len(case["ref"])
        n = len(rows)
        A = np.zeros((n, m), dtype=float)
        r = np.array(ref, dtype=float)
        r0 = r.copy()
        steps = [("append", k, rows[k]) for k in range(n)] + [("overwrite", i, row) for i, row in case.get("overwrites", [])]
        cur = []
        for t, (op, i, row) in enumerate(steps):
            if op == "append":
                cur.append(list(row))
            else:
                cur[i] = list(row)
            A[i] = row
            view = A[:len(cur)]
            sc = {**case, "upto": t + 1}
            try:
                h = float(self.hypervolume(view, r))
            except Exception as e:  # noqa
                self.fail("raises", "hypervolume-history", sc, repr(e), "|" + type(e).__name__)
                return
            ck.count("archive-call")
            if not (np.array_equal(r, r0) and np.array_equal(view, np.array(cur, dtype=float).reshape(len(cur), m))):
                self.fail("mutates-input", "hypervolume-history", sc, {"step": t + 1})
                return
            hf, _ = _call(self.hypervolume, cur, ref)
            if isinstance(hf, Exception) or hf != h:
                self.fail("history-independent", "hypervolume-history", sc, {"step": t + 1, "same_objects": h, "fresh_copies": repr(hf)})
                return
        self.submit({"kind": "archive-final", "ref": ref, "pts": cur, "exact": True}, with_variants=False, want_small=False)

    def _callbacks(self, cbs, job, val, case, k, raw=None):
        """LoggerCallback / SearchEarlyStopping / TqdmCallback on the same job: the hypervolume they show is
        the recorder's value `val` (which is compared with the exact value separately)"""
        import contextlib
        import io
        import re

        ck = self.ck
        numeric = not isinstance(job.objective, str)
        other = case.get("via") == "mixed" and k % 3 == 1
        for name in ("logger", "printer", "decider", "tqdm"):
            cb = cbs[name]
            if cb is None:
                continue
            cname = type(cb).__name__
            buf, ebuf = io.StringIO(), (cbs["tqdm_buf"] if name == "tqdm" else io.StringIO())
            pos = ebuf.tell()
            try:
                with contextlib.redirect_stdout(buf), contextlib.redirect_stderr(ebuf):
                    (cb.on_done_other if other else cb.on_done)(job)
            except Exception as e:  # noqa
                if numeric:
                    ck.fail(f"C12|raises|{cname}|{type(e).__name__}", f"{cname}.on_done raised on a numeric multi-objective job",
                            self._prefix(case, k + 1), repr(e))
                else:
                    ck.count(f"{cname}:raises-on-failure-string")
                if name == "tqdm":
                    cbs["tqdm"] = None
                continue
            out = buf.getvalue()
            ck.count(f"{cname}:on_done")
            if name == "logger" and numeric:
                mm = re.search(r"HVI Objective: (-?[0-9.]+(?:e[-+]?[0-9]+)?|-?inf|nan)", out)
                if mm is None:
                    ck.count("LoggerCallback:format-not-recognised")
                elif mm.group(1) != f"{val:.5f}":
                    ck.fail("C12|exact|LoggerCallback|printed-hvi", "LoggerCallback prints a hypervolume different from the recorder's",
                            self._prefix(case, k + 1), {"printed": mm.group(1), "recorder": val})
                else:
                    ck.count("LoggerCallback:hvi-compared")
            if name == "printer":
                mm = re.search(r"improved from (\S+) -> (\S+)", out)
                if mm is not None:
                    if mm.group(2) != f"{val:.5f}":
                        ck.fail("C12|exact|SearchEarlyStopping|printed-improvement", "SearchEarlyStopping reports a hypervolume different from the recorder's",
                                self._prefix(case, k + 1), {"printed": mm.group(2), "recorder": val})
                    else:
                        ck.count("SearchEarlyStopping:improvement-compared")
            if name == "tqdm" and numeric:
                try:
                    from tqdm import tqdm as _tq

                    shown = re.findall(r"hvi=([^\s,\]]+)", ebuf.getvalue()[pos:])
                    want = str(_tq.format_num(val))
                    # (format_num goes through str(), which depends on the float type the recorder returned)
                    wants = {want, str(_tq.format_num(raw))} if isinstance(raw, (float, np.floating)) else {want}
                except Exception:  # noqa
                    shown, want, wants = [], None, set()
                if not shown or want is None:
                    ck.count("TqdmCallback:format-not-recognised")
                elif shown[-1] not in wants:
                    ck.fail("C12|exact|TqdmCallback|shown-hvi", "TqdmCallback shows a hypervolume different from the recorder's",
                            self._prefix(case, k + 1), {"shown": shown[-1], "recorder": val, "recorder_as_tqdm_formats_it": want})
                else:
                    ck.count("TqdmCallback:hvi-compared")

    # -- judge the Lean replies
    def judge(self, nproc):
        ck = self.ck
        reps = _lean_all(ck, self.reqs, nproc)
        for (tag, case, h, _), rep in zip(self.metas, reps):
            if tag == "stream":
                self._judge_stream(case, h, rep)
                continue
            ref, pts = case["ref"], case["pts"]
            spec = unrat(rep["fast"])
            for k in ("hv", "last"):
                if k in rep and unrat(rep[k]) != spec:
                    ck.mismatch(case, {"what": f"Lean '{k}' evaluation differs from hvFast (theorem/evaluator out of sync)",
                                       k: rep[k], "fast": rep["fast"]})
            if "cells" in rep and Fraction(rep["cells"]) != spec:
                ck.mismatch(case, {"what": "cell count differs from hv on a lattice input", "cells": rep["cells"], "hv": rep["fast"]})
            exact = case.get("exact", True)
            site = "hypervolume"
            ok_spec = (Fraction(h) == spec) if exact else _close(h, spec, ref, pts)
            if not ok_spec:
                self.nexact = getattr(self, "nexact", {})
                self.nexact[site] = self.nexact.get(site, 0) + 1
                if self.nexact[site] > 40:
                    # plenty of replays already; do not spend the budget shrinking/classifying more
                    ck.count("exact-failures-beyond-40-not-classified")
                else:
                    sc = self.shrink_exact(case)
                    self.fail("exact", site, sc, {"impl_on_original": h, "exact_on_original": f"{spec.numerator}/{spec.denominator}",
                                                  "exact_float": float(spec)}, "|" + self.classify(sc))
            if rep.get("code") is not None:
                code = unrat(rep["code"])
                ok_code = (Fraction(h) == code) if exact else _close(h, code, ref, pts)
                if not ok_code:
                    ck.mismatch(case, {"impl": h, "model_code": rep["code"], "spec": rep["fast"]})
                ck.count("L2-compared")
        self.reqs, self.metas = [], []


def run(ck):
    ck.rule = ("all sets of <=k points on {0..s}^m with reference (s,..,s) for the (m,s,k) plan of the tier (random row order) "
               "+ uniform samples of sets of <=4 points on {0..4}^m, m<=5 + generated sets up to 60x5 "
               "(lattice/dyadic/duplicates/collinear/boundary/constant-sum fronts/zero reference/tiny reference with zero, tiny positive "
               "and tiny negative components/non-dyadic floats) each with permuted, duplicated, add-a-point, add-a-boundary-point and "
               "power-of-two scaled (2^-40, 2^-100, 2^100) variants and C/Fortran/strided-view layouts "
               "+ job streams on ONE ObjectiveRecorder object (1..40, 66..300 and 500..1100 numeric jobs in quick, up to 3100 in thorough; shapes iid / "
               "improving chain / constant-sum front with dominated new-worst rows / late new worst coordinates / duplicates / non-dyadic floats; "
               "all-negative, all-positive and mixed signs; units 1, 2^-3, 2^-30..2^-100, 2^100; failure labels mixed in, leading failure bursts, trailing "
               "failure; tuple / list / float ndarray / int ndarray / NumPy-scalar objectives on real HPOJob or plain job objects; on 40 % of the short and "
               "30 % of the medium streams the numeric kind of every component varies along the stream (Python int / np.int64 / np.int32 vectors first and "
               "non-integral floats later, the reverse, alternating, int and float and bool components inside one vector, np.float32 first and float64 values "
               "on a 2^-24 grid later, ...; the exact VALUE of every component goes to the model); a second recorder "
               "object fed alternately; LoggerCallback, two SearchEarlyStopping and TqdmCallback fed the same jobs through on_done / on_done_other), "
               "value compared after EVERY job + growing-archive histories of hypervolume calls on one array / reference object with in-place row "
               "overwrites; distinct by canonical (ref, point list) resp. stream prefix; non-trivial = >=2 objectives and "
               ">=2 mutually non-dominated points")
    ck.assumptions = [
        "every point is <= the reference in every coordinate (the property's quantifier; other inputs are documented as unsupported)",
        "pointset is a 2-D float ndarray (list input and int-array-with-float-reference raise; outside the property, see notes/C12.md)",
        "np.argsort inside the NDS pre-filter returns a permutation (observed, passed to the model)",
        "ObjectiveRecorder: every numeric objective of one recorder is a vector of the same length m >= 1 (its multi-objective branch; "
        "scalar objectives take the running-maximum branch, which does not call hypervolume)",
        "IEEE arithmetic is exact on the lattice/dyadic inputs (products < 2^53); non-dyadic floats compared with relative tolerance 1e-9",
    ]
    ck.trusted_extra = ["one case is covered by correspondence only: >= 5 objectives together with a point that has a coordinate equal to "
                        "the reference's in an objective 3..m-2 (the nested levelN with ignore flags / cached areas is proved equal to hv for "
                        "<= 4 objectives and for every number of objectives outside that case; see Props/C12.lean, C12_nd_code)"]
    R = _Runner(ck)
    pf = R.pf
    real_np = pf.np
    nproc = ck.pick(4, 12)
    import os
    import sys
    import time

    t_sec = [time.time()]

    def mark(name):
        # development aid: C12_PROFILE=1 prints the wall time of each section (never used for a verdict)
        if os.environ.get("C12_PROFILE"):
            print(f"[C12 profile] {name}: {time.time() - t_sec[0]:.1f}s", file=sys.stderr)
        t_sec[0] = time.time()

    try:
        pf.np = R.spy
        # corpus first
        from .common import VERIF
        import json

        for f in sorted((VERIF / "corpus" / "C12").glob("*.json")):
            c = json.loads(f.read_text())
            c = c.get("case", c)
            if "jobs" in c and "pts" not in c:
                R.stream(c)
                ck.count("corpus")
            if "pts" in c and "ref" in c:
                c.setdefault("kind", "corpus")
                c.setdefault("exact", True)
                R.submit(c, with_variants=True, want_small=len(c["pts"]) <= 8)
                ck.count("corpus")
        # (a) exhaustive / sampled small lattice sets
        for case in _gen_exhaustive(ck):
            R.submit(case, with_variants=ck.rng.random() < 0.03, want_small=True)
            if len(R.reqs) >= 60000:
                R.judge(nproc)
        R.judge(nproc)
        mark("a exhaustive")
        # (b) generated sets with all variants
        nrand = ck.pick(700, 6000)
        for t in range(nrand):
            case = _gen_random_one(ck.rng, 60, 5)
            case["layout"] = ck.rng.choice(["C", "C", "C", "F", "view"])
            small = len(case["pts"]) <= 6 and case["exact"]
            R.submit(case, with_variants=True, want_small=small)
        R.judge(nproc)
        mark("b generated")
        # (b2) many-objective clustered sets (ties and equal projections), no variants
        for t in range(ck.pick(6000, 60000)):
            case = _gen_random_one(ck.rng, 10, 7, kind="cluster")
            R.submit(case, with_variants=False, want_small=False)
            if len(R.reqs) >= 30000:
                R.judge(nproc)
        R.judge(nproc)
        mark("b2 clustered")
        # (c) the glue: ONE ObjectiveRecorder object (+ the callbacks that own one) through whole job streams
        #     short, medium and long histories; lengths around the sizes at which an implementation might
        #     start to bound / compact / cache its history (powers of two, round numbers)
        #     A part of the streams (not additional ones) varies the NUMERIC KIND of the components along the stream:
        #     its own generator, so that the other streams are the same with and without this dimension
        import random

        krng = random.Random((ck.seed << 12) ^ 0xC12)
        for t in range(ck.pick(90, 600)):
            m = ck.rng.choice([1, 2, 2, 2, 3, 3, 4, 5])
            length = ck.rng.choice([1, 2, 3, 5, 8, 12, 20, 40])
            case = _gen_stream(ck.rng, ck.rng.randint(1, length), m)
            R.stream(_add_kinds(krng, case) if krng.random() < 0.4 else case)
        for t in range(ck.pick(36, 120)):
            m = ck.rng.choice([1, 2, 2, 2, 3, 3, 3, 4])
            base = ck.rng.choice([64, 64, 100, 128, 128] + ([200, 256] if m <= 2 or ck.thorough else []) + ([512] if ck.thorough and m <= 3 else []))
            length = base + ck.rng.randint(2, 40)
            if m >= 4:
                length = min(length, 110)
            case = _gen_stream(ck.rng, length, m, allow_float=(m <= 3 and length <= 140))
            R.stream(_add_kinds(krng, case) if length <= 170 and krng.random() < 0.3 else case)
            if len(R.reqs) >= 40:
                R.judge(nproc)
        R.judge(nproc)
        mark("c streams")
        # very long histories (generator form: the replay regenerates the stream from its seed)
        vlong = ck.pick([(2, 1024, "late-worst"), (2, 1024, "iid"), (2, 512, "improving"), (3, 512, "late-worst")],
                        [(2, 1024, "late-worst"), (2, 1024, "iid"), (2, 1024, "front"), (2, 1024, "improving"), (2, 2048, "late-worst"),
                         (2, 2048, "iid"), (2, 3072, "late-worst"), (3, 512, "iid"), (3, 1024, "late-worst"), (3, 256, "front"),
                         (4, 256, "late-worst"), (1, 1024, "iid")])
        for (m, base, shape) in vlong:
            R.stream({"kind": "stream-gen", "gen": {"seed": ck.rng.randrange(2 ** 31), "length": base + ck.rng.randint(2, 60), "m": m, "shape": shape}})
        R.judge(nproc)
        mark("c very long streams")
        # (d) growing archive on the same array / reference objects
        for t in range(ck.pick(25, 200)):
            m = ck.rng.randint(1, 5)
            n = ck.rng.randint(2, 40 if m <= 3 else 14)
            Rr = ck.rng.choice([2, 4, 8])
            ref = [float(Rr)] * m if ck.rng.random() < 0.7 else [float(ck.rng.randint(0, Rr)) for _ in range(m)]
            rows = [[ref[i] - ck.rng.randint(0, 2 * Rr) for i in range(m)] for _ in range(n)]
            ov = [(ck.rng.randrange(n), [ref[i] - ck.rng.randint(0, 2 * Rr) for i in range(m)]) for _ in range(ck.rng.randint(0, 6))]
            R.archive({"kind": "archive", "ref": ref, "rows": rows, "overwrites": ov})
        R.judge(nproc)
        mark("d archive")
    finally:
        pf.np = real_np
        R.close()


def replay(ck, case):
    import deephyper.skopt.moo._pf as pf

    R = _Runner(ck)
    real_np = pf.np
    try:
        pf.np = R.spy
        if ("objectives" in case or "jobs" in case or "gen" in case) and "pts" not in case:
            c = dict(case)
            if "objectives" in c and "exact" not in c:
                # raw objectives (also the pre-stream replay format): exact iff on a common power-of-two grid
                c["exact"] = _common_unit([v for o in c["objectives"] if not isinstance(o, str) for v in o]) is not None
            if "m" not in c and "gen" not in c:
                num = [o for o in c.get("jobs", c.get("objectives")) if not isinstance(o, str)]
                c["m"] = len(num[0]) if num else 1
            R.stream(c)
            rec = R.metas[-1][2] if R.metas and R.metas[-1][0] == "stream" else None
            if rec is not None:
                print("replay stream: jobs =", len(rec["objs"]), "last values =", rec["vals"][-3:])
        elif case.get("kind") == "archive" and "rows" in case:
            R.archive(case)
        else:
            c = dict(case)
            c.setdefault("kind", "replay")
            c.setdefault("exact", all(float(v).is_integer() or (float(v) * 1024).is_integer() for p in c["pts"] + [c["ref"]] for v in p))
            if "scale_exp" in c:
                # a scaled variant: the clause itself, then the scaled problem as an ordinary case
                hb, _ = _call(R.hypervolume, c["base_pts"], c["base_ref"])
                hs, _ = _call(R.hypervolume, c["pts"], c["ref"])
                print("replay scale variant: base =", hb, "scaled =", hs, "scale = 2^%d" % c["scale_exp"])
                if isinstance(hs, Exception) or isinstance(hb, Exception):
                    R.fail("raises", "hypervolume", c, repr(hs))
                elif Fraction(hs) != Fraction(hb) * Fraction(2) ** (c["scale_exp"] * len(c["ref"])):
                    R.fail("scale-invariant", "hypervolume", c, {"base": hb, "scaled": hs})
                c = {k: v for k, v in c.items() if k not in ("base_pts", "base_ref", "scale_exp", "variant")}
            if "base_pts" in c:
                # a variant failure: run the base with fresh variants and the stored variant itself
                base = {**c, "pts": c["base_pts"]}
                base.pop("variant", None)
                R.submit(base, with_variants=False, want_small=len(base["pts"]) <= 8)
                hb, _ = _call(R.hypervolume, c["base_pts"], c["ref"])
                hv_, mut = _call(R.hypervolume, c["pts"], c["ref"])
                print("replay variant:", c.get("variant"), "base =", hb, "variant =", hv_, "mutated =", mut)
                if isinstance(hv_, Exception):
                    R.fail("raises", "hypervolume", c, repr(hv_), "|" + type(hv_).__name__)
                else:
                    tol = 0.0 if c["exact"] else TOL * max(_scale(c["ref"], c["pts"]), abs(hb))
                    v = c.get("variant")
                    if v == "perm" and abs(hv_ - hb) > tol:
                        R.fail("perm-invariant", "hypervolume", c, {"base": hb, "variant": hv_})
                    if v == "dup" and abs(hv_ - hb) > tol:
                        R.fail("dup-invariant", "hypervolume", c, {"base": hb, "variant": hv_})
                    if v == "add" and hv_ < hb - tol:
                        R.fail("monotone", "hypervolume", c, {"before": hb, "after": hv_})
                    if v == "add-boundary" and abs(hv_ - hb) > tol:
                        R.fail("boundary-zero", "hypervolume", c, {"before": hb, "after": hv_})
            R.submit({k: v for k, v in c.items() if k != "base_pts"}, with_variants=True, want_small=len(c["pts"]) <= 8)
        metas = list(R.metas)
        R.judge(1)
        for tag, cs, h, _ in metas[:3]:
            if tag != "stream":
                print("replay:", tag, "impl =", h, "exact(py) =", _exact_py(cs["ref"], cs["pts"]))
    finally:
        pf.np = real_np
        R.close()
