"""C12 — deephyper.skopt.moo.hypervolume (and its use in ObjectiveRecorder).

L2: the real `hypervolume(pointset, ref)` vs. the functional model of `_hv.py`
    (`Model/Hypervolume.lean: hypervolumeCode`, given the argsort order observed inside the
    NDS pre-filter) — identical exact value.
L3: the real value vs. the proved specification `hv` (exact rational; the driver runs `hvFast`,
    theorem C12_fast_eq, and the plain `hv`, the last-coordinate-first slicing and the cell
    count on small inputs), plus the property's clauses evaluated directly on the real code:
    permutation / duplication invariance, "adding a point never decreases", boundary points
    contribute nothing, caller's arrays unchanged, no exception.

All generated inputs satisfy the property's quantifier (every point <= ref component-wise; the
docstring itself says that anything else "quietly fails").  Lattice and dyadic inputs make the
float arithmetic of the implementation exact, so those comparisons are exact (Fractions);
non-dyadic float sets are compared with relative tolerance 1e-9 of the bounding-box volume.
"""
import itertools
import math
import threading
import types
from fractions import Fraction

import numpy as np

from .common import HarnessError, rat, unrat

TOL = 1e-9


# ----------------------------------------------------------------------------- helpers


class _NpSpy:
    """stands in for the module-global `np` of _pf.py: records what argsort returns"""

    def __init__(self):
        self.orders = []

    def argsort(self, a, *args, **kw):
        o = np.argsort(a, *args, **kw)
        self.orders.append([int(i) for i in o])
        return o

    def __getattr__(self, k):
        return getattr(np, k)


def _branch(m):
    return "m=1" if m == 1 else "m=2" if m == 2 else "m>=3"


def _wd(a, b):
    return all(x <= y for x, y in zip(a, b))


def _hv_py(ref, pts):
    """independent exact slicing (Fractions), used only to shrink failing cases"""
    if not ref:
        return Fraction(1 if pts else 0)
    r = ref[0]
    cuts = sorted({p[0] for p in pts if p[0] <= r})
    tot = Fraction(0)
    for k, c in enumerate(cuts):
        nxt = cuts[k + 1] if k + 1 < len(cuts) else r
        if nxt == c:
            continue
        tot += (nxt - c) * _hv_py(ref[1:], [p[1:] for p in pts if p[0] <= c])
    return tot


def _exact_py(ref, pts):
    return _hv_py([Fraction(r) for r in ref], [[Fraction(v) for v in p] for p in pts])


def _arr(pts, m, layout="C", dtype=float):
    """the caller's array in several memory layouts; returns (array passed, owner to compare)"""
    n = len(pts)
    y = np.array(pts, dtype=dtype).reshape(n, m)
    if layout == "F":
        y = np.asfortranarray(y)
        return y, y
    if layout == "view":
        big = np.zeros((n, 2 * m), dtype=dtype)
        big[:, ::2] = y
        big[:, 1::2] = -7
        return big[:, ::2], big
    return y, y


def _call(hypervolume, pts, ref, layout="C"):
    """one real call; returns (value or exception, mutated?)"""
    m = len(ref)
    y, owner = _arr(pts, m, layout)
    r = np.array(ref, dtype=float)
    o0, r0 = owner.copy(), r.copy()
    try:
        h = hypervolume(y, r)
    except Exception as e:  # noqa
        return e, False
    mutated = not (np.array_equal(owner, o0) and np.array_equal(r, r0))
    return float(h), mutated


# ----------------------------------------------------------------------------- generators


def _lattice_sets(side, m, kmax):
    lat = list(itertools.product(range(side), repeat=m))
    for k in range(1, kmax + 1):
        yield from itertools.combinations(lat, k)


def _gen_exhaustive(ck):
    """sets of <= k points on {0..s}^m, reference (s,..,s): (m, s, kmax, sample or None)"""
    rng = ck.rng
    if ck.thorough:
        plan = [(1, 4, 4, None), (2, 4, 4, None), (3, 2, 4, None), (3, 3, 3, None), (3, 4, 4, 40000),
                (4, 1, 4, None), (4, 2, 3, None), (4, 4, 4, 40000), (5, 1, 3, None), (5, 4, 4, 5000)]
    else:
        plan = [(1, 4, 4, None), (2, 4, 3, None), (2, 4, 4, 1500), (3, 2, 3, None), (3, 4, 4, 2500),
                (4, 1, 3, None), (4, 4, 4, 2000), (5, 4, 4, 300)]
    for m, s, kmax, sample in plan:
        ref = [float(s)] * m
        if sample is None:
            for c in _lattice_sets(s + 1, m, kmax):
                pts = [list(map(float, p)) for p in c]
                if len(pts) > 1 and rng.random() < 0.5:
                    rng.shuffle(pts)
                yield {"kind": f"exh-{m}d-s{s}-k{kmax}", "ref": ref, "pts": pts, "exact": True}
        else:
            for _ in range(sample):
                k = rng.randint(1, kmax)
                pts = list({tuple(rng.randint(0, s) for _ in range(m)) for _ in range(k)})
                pts = [list(map(float, p)) for p in pts]
                yield {"kind": f"smp-{m}d-s{s}-k{kmax}", "ref": ref, "pts": pts, "exact": True}


_KINDS = ["lattice", "dyadic", "dups", "collinear", "boundary", "front", "zero-ref", "tiny-ref", "cluster", "cluster", "float", "float"]


def _gen_random_one(rng, nmax, mmax, kind=None):
    kind = kind or rng.choice(_KINDS)
    m = rng.randint(1, mmax)
    n = rng.choice([0, 1, 2, 3, 4, 6, 9, 14, 22, 35, 60])
    n = min(n, nmax)
    exact = True
    if kind == "lattice":
        R = rng.choice([2, 4, 8])
        ref = [float(R)] * m
        pts = [[float(rng.randint(0, R)) for _ in range(m)] for _ in range(n)]
    elif kind == "dyadic":
        den = rng.choice([2, 4, 8])
        off = [rng.randint(-16, 16) / den for _ in range(m)]
        span = [rng.randint(1, 4 * den) for _ in range(m)]
        ref = [off[i] + span[i] / den for i in range(m)]
        pts = [[off[i] + rng.randint(0, span[i]) / den for i in range(m)] for _ in range(n)]
    elif kind == "dups":
        R = 4
        ref = [float(R)] * m
        pool = [[float(rng.randint(0, R)) for _ in range(m)] for _ in range(max(1, n // 3))]
        pts = [list(rng.choice(pool)) for _ in range(n)]
    elif kind == "collinear":
        R = 8
        ref = [float(R)] * m
        p0 = [rng.randint(0, R) for _ in range(m)]
        d = [rng.choice([-1, 0, 1]) for _ in range(m)]
        pts = []
        for _ in range(n):
            t = rng.randint(0, R)
            pts.append([float(min(R, max(0, p0[i] + t * d[i]))) for i in range(m)])
    elif kind == "boundary":
        R = 4
        ref = [float(R)] * m
        pts = []
        for _ in range(n):
            p = [float(rng.randint(0, R)) for _ in range(m)]
            if rng.random() < 0.6:
                p[rng.randrange(m)] = float(R)
            pts.append(p)
    elif kind == "front":
        # mutually non-dominated: constant coordinate sum on a lattice
        R = 8
        ref = [float(R)] * m
        pts = []
        for _ in range(n):
            p = [rng.randint(0, R) for _ in range(m)]
            tgt = (R * m) // 2
            for _t in range(50):
                s = sum(p)
                if s == tgt:
                    break
                i = rng.randrange(m)
                if s < tgt and p[i] < R:
                    p[i] += 1
                elif s > tgt and p[i] > 0:
                    p[i] -= 1
            pts.append([float(v) for v in p])
    elif kind == "cluster":
        # many objectives, few distinct values, points sharing their leading or trailing coordinates:
        # equal projections and ties in every sweep list (where the pruning flags / cached areas matter)
        m = rng.randint(4, 7)
        n = min(n, 14)
        R = rng.randint(1, 3)
        ref = [float(R)] * m
        base = [[rng.randint(0, R) for _ in range(m)] for _ in range(rng.randint(1, 3))]
        pts = []
        for _ in range(n):
            b = list(rng.choice(base))
            k = rng.randint(0, m)
            rngs = range(k, m) if rng.random() < 0.5 else range(0, k)
            for i in rngs:
                b[i] = rng.randint(0, R)
            if rng.random() < 0.3:
                b[rng.randrange(m)] = rng.randint(0, R)
            pts.append([float(v) for v in b])
    elif kind == "tiny-ref":
        # small-magnitude problems: reference components exactly zero, tiny positive or tiny negative
        # (all multiples of a power of two, so the arithmetic stays exact)
        u = 2.0 ** rng.choice([-30, -33, -40, -60, -100])
        ref = [rng.choice([0.0, 0.0, 1.0, 2.0, 3.0, -1.0, -2.0]) * u for _ in range(m)]
        if rng.random() < 0.3:
            ref[rng.randrange(m)] = float(rng.randint(1, 4)) * u
        pts = [[ref[i] - rng.randint(0, 6) * u for i in range(m)] for _ in range(n)]
    elif kind == "zero-ref":
        # `if any(referencePoint)` is False: no shift; some coordinates of ref zero, others not
        den = rng.choice([1, 2, 4])
        ref = [0.0 if rng.random() < 0.7 else float(rng.randint(1, 3)) for _ in range(m)]
        if rng.random() < 0.5:
            ref = [0.0] * m
        pts = [[ref[i] - rng.randint(0, 4 * den) / den for i in range(m)] for _ in range(n)]
    else:
        exact = False
        n = min(n, 22) if m >= 4 else n
        scale = 10.0 ** rng.randint(-3, 3)
        ref = [rng.uniform(-1, 1) * scale for _ in range(m)]
        pts = [[ref[i] - rng.random() * scale * rng.choice([1.0, 1.0, 0.0, 1e-3]) for i in range(m)] for _ in range(n)]
    return {"kind": kind, "ref": ref, "pts": pts, "exact": exact}


def _variants(rng, case):
    """permuted, duplicated and add-a-point variants of one base case"""
    pts, ref, m = case["pts"], case["ref"], len(case["ref"])
    out = []
    n = len(pts)
    if n >= 2:
        perm = list(range(n))
        rng.shuffle(perm)
        out.append({"variant": "perm", "pts": [pts[i] for i in perm]})
    if n >= 1:
        extra = [pts[rng.randrange(n)] for _ in range(rng.randint(1, 3))]
        vp = pts + extra
        rng.shuffle(vp)
        out.append({"variant": "dup", "pts": vp})
    # the same problem scaled by an exact power of two: hv scales by s^m (exact while nothing under/overflows)
    if case["exact"]:
        big = max([abs(v) for p in pts for v in p] + [abs(r) for r in ref] + [1e-300])
        for e in (-40, -100, 100):
            if 2.0 ** (-900 / max(m, 1)) < big * 2.0 ** e < 2.0 ** (900 / max(m, 1)):
                sc = 2.0 ** e
                out.append({"variant": f"scale2^{e}", "pts": [[v * sc for v in p] for p in pts],
                            "ref": [r * sc for r in ref], "scale_exp": e})
    # add a point: below the reference, anywhere in (or slightly below) the cloud
    # extent of the cloud below the reference, in the problem's own scale (tiny / huge problems stay exact)
    spans = [ref[i] - min([p[i] for p in pts] + [ref[i]]) for i in range(m)]
    D = max(spans + [0.0]) or max([abs(r) for r in ref] + [0.0]) or 1.0
    lo = [ref[i] - max(spans[i], D) for i in range(m)]
    if case["exact"]:
        q = []
        for i in range(m):
            cands = sorted({p[i] for p in pts} | {ref[i], lo[i], ref[i] - (ref[i] - lo[i]) / 2, lo[i] - D / 2})
            q.append(rng.choice(cands))
    else:
        q = [ref[i] - rng.random() * (ref[i] - lo[i]) for i in range(m)]
    out.append({"variant": "add", "pts": pts + [q], "q": q})
    # a boundary point must not change the value
    b = [rng.choice([p[i] for p in pts] + [lo[i]]) for i in range(m)]
    j = rng.randrange(m)
    b[j] = ref[j]
    out.append({"variant": "add-boundary", "pts": pts + [b], "q": b})
    return out


# ----------------------------------------------------------------------------- the run


def _lean_all(ck, reqs, nproc):
    """answer `reqs` with `nproc` driver processes (order preserved)"""
    if not reqs:
        return []
    nproc = max(1, min(nproc, len(reqs) // 200 + 1))
    chunks = [reqs[i::nproc] for i in range(nproc)]
    outs = [None] * nproc
    errs = []

    def work(i):
        try:
            with ck.driver() as d:
                outs[i] = d.ask_all(chunks[i])
        except BaseException as e:  # noqa
            errs.append(e)

    ths = [threading.Thread(target=work, args=(i,), daemon=True) for i in range(nproc)]
    for t in ths:
        t.start()
    for t in ths:
        t.join()
    if errs:
        e = errs[0]
        raise e if isinstance(e, HarnessError) else HarnessError(f"lean driver thread failed: {e!r}")
    res = [None] * len(reqs)
    for i in range(nproc):
        res[i::nproc] = outs[i]
    return res


def _req(pts, ref, want, order=None):
    r = {"op": "hv", "ref": [rat(v) for v in ref], "pts": [[rat(v) for v in p] for p in pts], "want": want}
    if order is not None:
        r["order"] = order
    return r


def _scale(ref, pts):
    """bounding-box volume: the natural scale for the float tolerance"""
    s = 1.0
    for i, r in enumerate(ref):
        s *= max(r - min([p[i] for p in pts] + [r]), 0.0)
    return s


def _close(h, e, ref, pts):
    return abs(h - float(e)) <= TOL * max(_scale(ref, pts), abs(float(e)))


class _Runner:
    def __init__(self, ck):
        import deephyper.skopt.moo._pf as pf
        from deephyper.skopt.moo import hypervolume

        self.ck, self.pf, self.hypervolume = ck, pf, hypervolume
        self.spy = _NpSpy()
        self.reqs, self.metas = [], []
        self._cls = None

    def close(self):
        if self._cls is not None:
            self._cls.close()
            self._cls = None

    # -- failure reporting with a shrunk case
    def fail(self, clause, site, case, detail, extra=""):
        m = len(case["ref"])
        fp = f"C12|{clause}|{site}|{_branch(m)}{extra}"
        what = {"exact": "hypervolume differs from the exact dominated volume",
                "perm-invariant": "value changes when the points are permuted",
                "dup-invariant": "value changes when points are duplicated",
                "monotone": "value decreases when a point is added",
                "boundary-zero": "a point on the reference boundary changes the value",
                "scale-invariant": "hv(s*P, s*ref) differs from s^m * hv(P, ref) for a power of two s",
                "mutates-input": "the caller's array (or reference) was modified",
                "raises": "hypervolume raised on an input inside the property's quantifier"}.get(clause, clause)
        self.ck.fail(fp, f"{site}: {what} ({_branch(m)})", case, detail)

    def classify(self, case):
        """which modelled repair makes the model exact on this (shrunk) input: the oracle clause's
        input class.  area-init = fix 9767936 (running product), tie-order = fix ecd8f06."""
        pts, ref = case["pts"], case["ref"]
        self.spy.orders.clear()
        h, _ = _call(self.hypervolume, pts, ref)
        order = self.spy.orders[-1] if self.spy.orders else None
        if order is None or isinstance(h, Exception):
            return "unclassified"
        if self._cls is None:
            self._cls = self.ck.driver()
        rep = self._cls.ask(_req(pts, ref, ["fast", "code", "variants"], order))
        spec = unrat(rep["fast"])
        val = {k: (unrat(rep[k]) if rep.get(k) is not None else None) for k in ("code", "code_ff", "code_tf", "code_ft")}
        exact = case.get("exact", True)
        same = (lambda a: a is not None and ((a == spec) if exact else _close(float(a), spec, ref, pts)))
        if not same(val["code"]):
            return "repaired-model-also-wrong"
        tf, ft = same(val["code_tf"]), same(val["code_ft"])
        if same(val["code_ff"]):
            return "not-reproduced-by-model"
        if tf and not ft:
            return "needs=area-init"
        if ft and not tf:
            return "needs=tie-order"
        if tf and ft:
            return "needs=area-init-or-tie-order"
        return "needs=area-init+tie-order"

    def shrink_exact(self, case):
        """greedy point deletion while real != exact (python oracle)"""
        pts, ref = [list(p) for p in case["pts"]], case["ref"]

        def bad(ps):
            h, _ = _call(self.hypervolume, ps, ref)
            if isinstance(h, Exception):
                return False
            e = _exact_py(ref, ps)
            return (Fraction(h) != e) if case.get("exact", True) else not _close(h, e, ref, ps)

        if len(pts) > 40 or not bad(pts):
            return case
        changed = True
        while changed:
            changed = False
            for i in range(len(pts)):
                cand = pts[:i] + pts[i + 1:]
                if bad(cand):
                    pts, changed = cand, True
                    break
        return {**case, "pts": pts, "shrunk_from": len(case["pts"])}

    # -- one base case (+ variants): real calls now, Lean later
    def submit(self, case, with_variants, want_small):
        ck = self.ck
        pts, ref, m = case["pts"], case["ref"], len(case["ref"])
        n = len(pts)
        layout = case.get("layout", "C")
        self.spy.orders.clear()
        h, mutated = _call(self.hypervolume, pts, ref, layout)
        order = self.spy.orders[-1] if self.spy.orders else None
        ck.count("kind:" + case["kind"].split("-")[0])
        ck.count(_branch(m) if n else "n=0")
        ck.count(f"n={n}" if n < 5 else "n=5..9" if n < 10 else "n=10..29" if n < 30 else "n>=30")
        front = [p for p in {tuple(p) for p in pts} if not any(_wd(q, p) and tuple(q) != p for q in map(tuple, pts))]
        ck.count("front=" + ("0" if not front else "1" if len(front) == 1 else "2..4" if len(front) < 5 else "5+"))
        nontriv = m >= 2 and len(front) >= 2
        ck.case({k: case[k] for k in ("kind", "ref", "pts")}, nontrivial=nontriv)
        if isinstance(h, Exception):
            self.fail("raises", "hypervolume", case, repr(h), "|" + type(h).__name__)
            return
        if mutated:
            self.fail("mutates-input", "hypervolume", case, {"layout": layout})
        if order is None:
            ck.count("no-argsort-observed")
        want = ["fast"] + (["code"] if order is not None else [])
        if want_small:
            want += ["hv", "last"]
            if case["kind"].startswith(("exh", "smp")) and (int(ref[0]) ** m) <= 1300:
                want += ["cells"]
        self.reqs.append(_req(pts, ref, want, order))
        self.metas.append(("base", case, h, None))
        if not with_variants:
            return
        for v in _variants(ck.rng, case):
            if "scale_exp" in v:
                self._scaled(case, v, h)
                continue
            vc = {**case, "pts": v["pts"], "variant": v["variant"], "base_pts": pts}
            if "q" in v:
                vc["q"] = v["q"]
            self.spy.orders.clear()
            hv_, mut = _call(self.hypervolume, v["pts"], ref, ck.rng.choice(["C", "C", "F", "view"]))
            ck.count("variant:" + v["variant"])
            if isinstance(hv_, Exception):
                self.fail("raises", "hypervolume", vc, repr(hv_), "|" + type(hv_).__name__)
                continue
            if mut:
                self.fail("mutates-input", "hypervolume", vc, None)
            tol = 0.0 if case["exact"] else TOL * max(_scale(ref, v["pts"]), abs(h))
            if v["variant"] == "perm" and abs(hv_ - h) > tol:
                self.fail("perm-invariant", "hypervolume", vc, {"base": h, "variant": hv_})
            elif v["variant"] == "dup" and abs(hv_ - h) > tol:
                self.fail("dup-invariant", "hypervolume", vc, {"base": h, "variant": hv_})
            elif v["variant"] == "add" and hv_ < h - tol:
                self.fail("monotone", "hypervolume", vc, {"before": h, "after": hv_})
            elif v["variant"] == "add-boundary" and abs(hv_ - h) > tol:
                self.fail("boundary-zero", "hypervolume", vc, {"before": h, "after": hv_})
            if v["variant"] == "add":
                ck.case({"kind": case["kind"] + "+add", "ref": ref, "pts": v["pts"]}, nontrivial=m >= 2 and len(v["pts"]) >= 2)
                o2 = self.spy.orders[-1] if self.spy.orders else None
                self.reqs.append(_req(v["pts"], ref, ["fast"] + (["code"] if o2 is not None else []), o2))
                self.metas.append(("add", vc, hv_, None))

    def _scaled(self, case, v, h):
        """scale-invariance on the real code: hv(s*P, s*ref) == s^m * hv(P, ref), exactly for s = 2^e;
        the scaled problem is itself a case inside the quantifier and is also sent to Lean"""
        ck = self.ck
        m = len(case["ref"])
        sc_case = {"kind": case["kind"] + "*" + v["variant"], "ref": v["ref"], "pts": v["pts"], "exact": True,
                   "variant": v["variant"], "base_pts": case["pts"], "base_ref": case["ref"], "scale_exp": v["scale_exp"]}
        self.spy.orders.clear()
        hs, mut = _call(self.hypervolume, v["pts"], v["ref"])
        order = self.spy.orders[-1] if self.spy.orders else None
        ck.count("variant:scale")
        ck.case({"kind": sc_case["kind"], "ref": v["ref"], "pts": v["pts"]}, nontrivial=m >= 2 and len(v["pts"]) >= 2)
        if isinstance(hs, Exception):
            self.fail("raises", "hypervolume", sc_case, repr(hs), "|" + type(hs).__name__)
            return
        if mut:
            self.fail("mutates-input", "hypervolume", sc_case, None)
        expect = Fraction(h) * Fraction(2) ** (v["scale_exp"] * m)
        if Fraction(hs) != expect:
            self.fail("scale-invariant", "hypervolume", sc_case,
                      {"base": h, "scaled": hs, "expected_scaled": float(expect), "scale": f"2^{v['scale_exp']}"})
        self.reqs.append(_req(v["pts"], v["ref"], ["fast"] + (["code"] if order is not None else []), order))
        self.metas.append(("scaled", sc_case, hs, None))

    def recorder(self, objs_seq, kind):
        """ObjectiveRecorder: hypervolume(-objectives, max(-objectives)) after every job"""
        from deephyper.evaluator.callback import ObjectiveRecorder

        from deephyper.evaluator.callback import LoggerCallback, SearchEarlyStopping

        ck = self.ck
        rec = ObjectiveRecorder()
        # the two public users of the recorder: what they print must be the same (exact) hypervolume
        logger, stopper = LoggerCallback(), SearchEarlyStopping(patience=10 ** 9, verbose=1)
        seen = []
        for o in objs_seq:
            job = types.SimpleNamespace(objective=o)
            case = {"kind": kind, "objectives": seen + [o]}
            try:
                val = rec(job)
                self._callbacks(logger, stopper, job, val, case)
            except Exception as e:  # noqa
                numeric = [x for x in seen + [o] if not isinstance(x, str)]
                ck.case(case)
                self.ck.fail(f"C12|raises|ObjectiveRecorder|{_branch(len(numeric[0]) if numeric else 1)}|{type(e).__name__}",
                             "ObjectiveRecorder raised on numeric multi-objective jobs", case, repr(e))
                return
            seen = seen + [o]
            numeric = [list(map(float, x)) for x in seen if not isinstance(x, str)]
            ck.count("recorder-call")
            if not numeric:
                if val != -float("inf"):
                    ck.fail("C12|exact|ObjectiveRecorder|no-objective", "recorder value before any numeric objective is not -inf", case, val)
                continue
            m = len(numeric[0])
            pts = [[-v for v in x] for x in numeric]
            ref = [max(p[i] for p in pts) for i in range(m)]
            ck.case(case, nontrivial=len(pts) >= 2)
            self.reqs.append(_req(pts, ref, ["fast"]))
            self.metas.append(("recorder", {**case, "ref": ref, "pts": pts, "exact": True}, float(val), None))

    def _callbacks(self, logger, stopper, job, val, case):
        """LoggerCallback / SearchEarlyStopping on the same job: the hypervolume they report (5 decimals)
        is the recorder's value `val`, which is compared with the exact value separately"""
        import contextlib
        import io
        import re

        ck = self.ck
        numeric = not isinstance(job.objective, str)
        for name, cb in (("LoggerCallback", logger), ("SearchEarlyStopping", stopper)):
            buf = io.StringIO()
            try:
                with contextlib.redirect_stdout(buf):
                    cb.on_done(job)
            except Exception as e:  # noqa
                if numeric:
                    ck.fail(f"C12|raises|{name}|{type(e).__name__}", f"{name}.on_done raised on a numeric multi-objective job", case, repr(e))
                else:
                    ck.count(f"{name}:raises-on-failure-string")
                continue
            out = buf.getvalue()
            ck.count(f"{name}:on_done")
            if name == "LoggerCallback" and numeric:
                mm = re.search(r"HVI Objective: (-?[0-9.]+|-?inf|nan)", out)
                if mm is None:
                    ck.count("LoggerCallback:format-not-recognised")
                elif mm.group(1) != f"{val:.5f}":
                    ck.fail("C12|exact|LoggerCallback|printed-hvi", "LoggerCallback prints a hypervolume different from the recorder's", case,
                            {"printed": mm.group(1), "recorder": val})
                else:
                    ck.count("LoggerCallback:hvi-compared")
            if name == "SearchEarlyStopping":
                mm = re.search(r"improved from (\S+) -> (\S+)", out)
                if mm is not None:
                    if mm.group(2) != f"{val:.5f}":
                        ck.fail("C12|exact|SearchEarlyStopping|printed-improvement", "SearchEarlyStopping reports a hypervolume different from the recorder's",
                                case, {"printed": mm.group(2), "recorder": val})
                    else:
                        ck.count("SearchEarlyStopping:improvement-compared")

    # -- judge the Lean replies
    def judge(self, nproc):
        ck = self.ck
        reps = _lean_all(ck, self.reqs, nproc)
        for (tag, case, h, _), rep in zip(self.metas, reps):
            ref, pts = case["ref"], case["pts"]
            spec = unrat(rep["fast"])
            for k in ("hv", "last"):
                if k in rep and unrat(rep[k]) != spec:
                    ck.mismatch(case, {"what": f"Lean '{k}' evaluation differs from hvFast (theorem/evaluator out of sync)",
                                       k: rep[k], "fast": rep["fast"]})
            if "cells" in rep and Fraction(rep["cells"]) != spec:
                ck.mismatch(case, {"what": "cell count differs from hv on a lattice input", "cells": rep["cells"], "hv": rep["fast"]})
            exact = case.get("exact", True)
            site = "ObjectiveRecorder" if tag == "recorder" else "hypervolume"
            ok_spec = (Fraction(h) == spec) if exact else _close(h, spec, ref, pts)
            if not ok_spec:
                self.nexact = getattr(self, "nexact", {})
                self.nexact[site] = self.nexact.get(site, 0) + 1
                if self.nexact[site] > 40:
                    # plenty of replays already; do not spend the budget shrinking/classifying more
                    ck.count("exact-failures-beyond-40-not-classified")
                elif tag == "recorder":
                    self.fail("exact", site, case, {"impl": h, "exact": f"{spec.numerator}/{spec.denominator}"},
                              "|" + self.classify(case))
                else:
                    sc = self.shrink_exact(case)
                    self.fail("exact", site, sc, {"impl_on_original": h, "exact_on_original": f"{spec.numerator}/{spec.denominator}",
                                                  "exact_float": float(spec)}, "|" + self.classify(sc))
            if rep.get("code") is not None:
                code = unrat(rep["code"])
                ok_code = (Fraction(h) == code) if exact else _close(h, code, ref, pts)
                if not ok_code:
                    ck.mismatch(case, {"impl": h, "model_code": rep["code"], "spec": rep["fast"]})
                ck.count("L2-compared")
        self.reqs, self.metas = [], []


def run(ck):
    ck.rule = ("all sets of <=k points on {0..s}^m with reference (s,..,s) for the (m,s,k) plan of the tier (random row order) "
               "+ uniform samples of sets of <=4 points on {0..4}^m, m<=5 + generated sets up to 60x5 "
               "(lattice/dyadic/duplicates/collinear/boundary/constant-sum fronts/zero reference/tiny reference with zero, tiny positive "
               "and tiny negative components/non-dyadic floats) each with permuted, duplicated, add-a-point, add-a-boundary-point and "
               "power-of-two scaled (2^-40, 2^-100, 2^100) variants and C/Fortran/strided-view layouts "
               "+ ObjectiveRecorder / LoggerCallback / SearchEarlyStopping job streams (ordinary, tiny and huge magnitudes); distinct by canonical (ref, point list); non-trivial = >=2 objectives and "
               ">=2 mutually non-dominated points")
    ck.assumptions = [
        "every point is <= the reference in every coordinate (the property's quantifier; other inputs are documented as unsupported)",
        "pointset is a 2-D float ndarray (list input and int-array-with-float-reference raise; outside the property, see notes/C12.md)",
        "np.argsort inside the NDS pre-filter returns a permutation (observed, passed to the model)",
        "IEEE arithmetic is exact on the lattice/dyadic inputs (products < 2^53); non-dyadic floats compared with relative tolerance 1e-9",
    ]
    ck.trusted_extra = ["one case is covered by correspondence only: >= 5 objectives together with a point that has a coordinate equal to "
                        "the reference's in an objective 3..m-2 (the nested levelN with ignore flags / cached areas is proved equal to hv for "
                        "<= 4 objectives and for every number of objectives outside that case; see Props/C12.lean, C12_nd_code)"]
    R = _Runner(ck)
    pf = R.pf
    real_np = pf.np
    nproc = ck.pick(4, 12)
    try:
        pf.np = R.spy
        # corpus first
        from .common import VERIF
        import json

        for f in sorted((VERIF / "corpus" / "C12").glob("*.json")):
            c = json.loads(f.read_text())
            c = c.get("case", c)
            if "pts" in c and "ref" in c:
                c.setdefault("kind", "corpus")
                c.setdefault("exact", True)
                R.submit(c, with_variants=True, want_small=len(c["pts"]) <= 8)
                ck.count("corpus")
        # (a) exhaustive / sampled small lattice sets
        for case in _gen_exhaustive(ck):
            R.submit(case, with_variants=ck.rng.random() < 0.03, want_small=True)
            if len(R.reqs) >= 60000:
                R.judge(nproc)
        R.judge(nproc)
        # (b) generated sets with all variants
        nrand = ck.pick(700, 6000)
        for t in range(nrand):
            case = _gen_random_one(ck.rng, 60, 5)
            case["layout"] = ck.rng.choice(["C", "C", "C", "F", "view"])
            small = len(case["pts"]) <= 6 and case["exact"]
            R.submit(case, with_variants=True, want_small=small)
        R.judge(nproc)
        # (b2) many-objective clustered sets (ties and equal projections), no variants
        for t in range(ck.pick(6000, 60000)):
            case = _gen_random_one(ck.rng, 10, 7, kind="cluster")
            R.submit(case, with_variants=False, want_small=False)
            if len(R.reqs) >= 30000:
                R.judge(nproc)
        R.judge(nproc)
        # (c) ObjectiveRecorder
        nrec = ck.pick(60, 600)
        for t in range(nrec):
            m = ck.rng.randint(2, 4)
            length = ck.rng.randint(1, 12)
            ints = ck.rng.random() < 0.3
            # objective magnitudes: ordinary, or all of order 1e-9 and smaller / very large (exact powers of two)
            unit = 1.0 if (ints or ck.rng.random() < 0.5) else 2.0 ** ck.rng.choice([-30, -33, -40, -100, 100])
            seq = []
            for _ in range(length):
                if ck.rng.random() < 0.15:
                    seq.append("F")
                elif ints:
                    seq.append(tuple(ck.rng.randint(-4, 4) for _ in range(m)))
                else:
                    seq.append(tuple(ck.rng.randint(-32, 32) / 8 * unit for _ in range(m)))
            R.recorder(seq, "recorder-int" if ints else ("recorder" if unit == 1.0 else "recorder-scaled"))
        R.judge(nproc)
    finally:
        pf.np = real_np
        R.close()


def replay(ck, case):
    import deephyper.skopt.moo._pf as pf

    R = _Runner(ck)
    real_np = pf.np
    try:
        pf.np = R.spy
        if "objectives" in case and "pts" not in case:
            R.recorder([tuple(o) if not isinstance(o, str) else o for o in case["objectives"]], case.get("kind", "recorder"))
        else:
            c = dict(case)
            c.setdefault("kind", "replay")
            c.setdefault("exact", all(float(v).is_integer() or (float(v) * 1024).is_integer() for p in c["pts"] + [c["ref"]] for v in p))
            if "scale_exp" in c:
                # a scaled variant: the clause itself, then the scaled problem as an ordinary case
                hb, _ = _call(R.hypervolume, c["base_pts"], c["base_ref"])
                hs, _ = _call(R.hypervolume, c["pts"], c["ref"])
                print("replay scale variant: base =", hb, "scaled =", hs, "scale = 2^%d" % c["scale_exp"])
                if isinstance(hs, Exception) or isinstance(hb, Exception):
                    R.fail("raises", "hypervolume", c, repr(hs))
                elif Fraction(hs) != Fraction(hb) * Fraction(2) ** (c["scale_exp"] * len(c["ref"])):
                    R.fail("scale-invariant", "hypervolume", c, {"base": hb, "scaled": hs})
                c = {k: v for k, v in c.items() if k not in ("base_pts", "base_ref", "scale_exp", "variant")}
            if "base_pts" in c:
                # a variant failure: run the base with fresh variants and the stored variant itself
                base = {**c, "pts": c["base_pts"]}
                base.pop("variant", None)
                R.submit(base, with_variants=False, want_small=len(base["pts"]) <= 8)
                hb, _ = _call(R.hypervolume, c["base_pts"], c["ref"])
                hv_, mut = _call(R.hypervolume, c["pts"], c["ref"])
                print("replay variant:", c.get("variant"), "base =", hb, "variant =", hv_, "mutated =", mut)
                if isinstance(hv_, Exception):
                    R.fail("raises", "hypervolume", c, repr(hv_), "|" + type(hv_).__name__)
                else:
                    tol = 0.0 if c["exact"] else TOL * max(_scale(c["ref"], c["pts"]), abs(hb))
                    v = c.get("variant")
                    if v == "perm" and abs(hv_ - hb) > tol:
                        R.fail("perm-invariant", "hypervolume", c, {"base": hb, "variant": hv_})
                    if v == "dup" and abs(hv_ - hb) > tol:
                        R.fail("dup-invariant", "hypervolume", c, {"base": hb, "variant": hv_})
                    if v == "add" and hv_ < hb - tol:
                        R.fail("monotone", "hypervolume", c, {"before": hb, "after": hv_})
                    if v == "add-boundary" and abs(hv_ - hb) > tol:
                        R.fail("boundary-zero", "hypervolume", c, {"before": hb, "after": hv_})
            R.submit({k: v for k, v in c.items() if k != "base_pts"}, with_variants=True, want_small=len(c["pts"]) <= 8)
        metas = list(R.metas)
        R.judge(1)
        for tag, cs, h, _ in metas[:3]:
            print("replay:", tag, "impl =", h, "exact(py) =", _exact_py(cs["ref"], cs["pts"]))
    finally:
        pf.np = real_np
        R.close()
