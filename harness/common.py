"""Shared plumbing for every ./check run (see DESIGN.md section 2).

Layers:  L1 = Lean build + axiom audit of Props/Cxx.lean,
         L2 = correspondence (model driver vs. real implementation),
         L3 = property oracle on the real implementation (failing-input search).

A per-property module `harness/cXX.py` defines

    def run(ck):      # generate cases, drive real code + Lean driver, call ck.case/ck.mismatch/ck.fail
    def replay(ck, case):   # optional: re-run one stored case

Outcome rules (brief, "Interface"):
  * oracle failure on the real code whose fingerprint is listed open in KNOWN_FINDINGS.json
        -> "KNOWN-FINDING: property=<id> <what>"  (exit 0 if nothing else)
  * any other oracle failure -> "VIOLATION property=<id> replay=<path>" (exit 1)
  * L1 or L2 broken and no oracle failure -> VIOLATION ... no-failing-input-found (exit 1)
  * harness trouble (driver crash, unparsable reply, timeout) -> exit 2, never a violation
"""
from __future__ import annotations

import fcntl
import hashlib
import json
import os
import random
import re
import subprocess
import sys
import threading
import time
from fractions import Fraction
from pathlib import Path

VERIF = Path(__file__).resolve().parent.parent
LEAN_DIR = VERIF / "lean"
REPO = Path(os.environ.get("VERIF_REPO", "/repo")).resolve()
GUARD = "DEEPHYPER_VERIF"

ALLOWED_AXIOMS = {"propext", "Classical.choice", "Quot.sound"}
FORBIDDEN = re.compile(
    r"\bsorry\b|\badmit\b|^\s*axiom\s|native_decide|bv_decide|implemented_by|\bunsafe\s|maxHeartbeats\s+0\b"
)

TRUSTED_BASE_COMMON = [
    "Lean 4.33.0 kernel (leanchecker re-check in the thorough tier)",
    "axioms allowed: propext, Classical.choice, Quot.sound (audited per theorem with #print axioms; no native_decide/bv_decide/sorry/own axioms)",
    "Lean interpreter running the executable model (lake env lean --run Drivers/<id>.lean)",
    "hand-written model: describes the code only as far as the correspondence run compared it",
    "Python harness: generators, canonicalisation, exact Fraction encoding of floats",
]


class HarnessError(Exception):
    """Anything that is our machinery's fault: exit 2, never a violation."""


def use_repo_sources():
    """Make `import deephyper` resolve to $VERIF_REPO/src (default /repo/src)."""
    src = str(REPO / "src")
    if src in sys.path:
        sys.path.remove(src)
    sys.path.insert(0, src)
    os.environ.setdefault(GUARD, "1")
    import warnings

    warnings.filterwarnings("ignore")
    import deephyper  # noqa

    got = Path(deephyper.__file__).resolve()
    if not str(got).startswith(src):
        raise HarnessError(f"deephyper imported from {got}, expected under {src}")


# --------------------------------------------------------------------------- wire encoding


def rat(x) -> str:
    """Exact text of a Python number as num/den."""
    if isinstance(x, bool):
        x = int(x)
    if isinstance(x, int):
        return f"{x}/1"
    f = Fraction(x)  # exact for floats; raises on nan/inf
    return f"{f.numerator}/{f.denominator}"


def unrat(s: str) -> Fraction:
    n, _, d = s.partition("/")
    return Fraction(int(n), int(d or 1))


def canon(obj) -> str:
    return json.dumps(obj, sort_keys=True, separators=(",", ":"), default=_json_default)


def _json_default(o):
    try:
        import numpy as np

        if isinstance(o, np.generic):
            return o.item()
        if isinstance(o, np.ndarray):
            return o.tolist()
    except Exception:  # pragma: no cover
        pass
    if isinstance(o, Fraction):
        return f"{o.numerator}/{o.denominator}"
    if isinstance(o, (set, frozenset)):
        return sorted(o, key=repr)
    return repr(o)


# --------------------------------------------------------------------------- Lean side


class _LakeLock:
    def __enter__(self):
        (LEAN_DIR / ".lake").mkdir(exist_ok=True)
        self.f = open(LEAN_DIR / ".lake" / "verif.lock", "w")
        fcntl.flock(self.f, fcntl.LOCK_EX)
        return self

    def __exit__(self, *a):
        fcntl.flock(self.f, fcntl.LOCK_UN)
        self.f.close()


def _run(cmd, cwd=LEAN_DIR, timeout=3600, env=None):
    p = subprocess.run(cmd, cwd=cwd, capture_output=True, text=True, timeout=timeout, env=env)
    return p.returncode, p.stdout + p.stderr


def lean_sources_of(prop: str, extra_modules=()):
    """Lean files whose content is part of property `prop`'s obligations: Props/Cxx.lean and
    everything it (transitively) imports from this project, plus the driver."""
    seen, todo = [], [f"Props.{prop}", f"Drivers.{prop}", *extra_modules]
    while todo:
        m = todo.pop()
        f = LEAN_DIR / (m.replace(".", "/") + ".lean")
        if m in seen or not f.exists():
            continue
        seen.append(m)
        for line in f.read_text().splitlines():
            mm = re.match(r"\s*import\s+((?:Model|Proofs|Props|Drivers|Generated)\.\S+)", line)
            if mm:
                todo.append(mm.group(1))
    return seen


def strip_lean_comments(text: str) -> str:
    # remove nested block comments and line comments
    out, i, depth = [], 0, 0
    while i < len(text):
        if text.startswith("/-", i):
            depth += 1
            i += 2
        elif depth and text.startswith("-/", i):
            depth -= 1
            i += 2
        elif depth:
            if text[i] == "\n":
                out.append("\n")
            i += 1
        elif text.startswith("--", i):
            while i < len(text) and text[i] != "\n":
                i += 1
        else:
            out.append(text[i])
            i += 1
    return "".join(out)


def theorems_of(prop: str):
    """Fully qualified names of the property theorems `Cxx_*` declared in Props/Cxx.lean."""
    f = LEAN_DIR / "Props" / f"{prop}.lean"
    text = strip_lean_comments(f.read_text())
    ns, names = [], []
    for line in text.splitlines():
        m = re.match(r"\s*namespace\s+(\S+)", line)
        if m:
            ns.append(m.group(1))
            continue
        m = re.match(r"\s*end\s+(\S+)", line)
        if m and ns and ns[-1] == m.group(1):
            ns.pop()
            continue
        m = re.match(rf"\s*(?:private\s+|protected\s+)?theorem\s+({prop}_[A-Za-z0-9_'.]+)", line)
        if m:
            names.append(".".join(ns + [m.group(1)]))
    return names


class LeanGate:
    """L1: build, forbidden-token scan, axiom audit."""

    def __init__(self, prop, extra_modules=()):
        self.prop = prop
        self.extra = list(extra_modules)
        self.problems = []
        self.theorems = []
        self.axioms = {}
        self.build_s = 0.0
        self.checker_cmd = ""

    def run(self, leanchecker=False):
        prop = self.prop
        t0 = time.time()
        targets = [f"Props.{prop}", f"Drivers.{prop}", *self.extra]
        with _LakeLock():
            rc, out = _run(["lake", "build", *targets])
            self.checker_cmd = "cd lean && lake build " + " ".join(targets)
            if rc != 0:
                errs = [l for l in out.splitlines() if "error" in l][:10]
                self.problems.append({"kind": "lean-build-failed", "detail": errs or out[-2000:]})
            mods = lean_sources_of(prop, self.extra)
            for m in mods:
                f = LEAN_DIR / (m.replace(".", "/") + ".lean")
                for n, line in enumerate(strip_lean_comments(f.read_text()).splitlines(), 1):
                    if FORBIDDEN.search(line):
                        self.problems.append(
                            {"kind": "forbidden-token", "detail": f"{f.name}:{n}: {line.strip()[:120]}"}
                        )
            try:
                self.theorems = theorems_of(prop)
            except FileNotFoundError:
                self.theorems = []
            if not self.theorems:
                self.problems.append({"kind": "no-theorems", "detail": f"Props/{prop}.lean declares no {prop}_* theorem"})
            if rc == 0 and self.theorems:
                audit = LEAN_DIR / "Audit" / f"{prop}.lean"
                audit.parent.mkdir(exist_ok=True)
                audit.write_text(
                    f"import Props.{prop}\n" + "".join(f"#print axioms {t}\n" for t in self.theorems)
                )
                rc2, out2 = _run(["lake", "env", "lean", str(audit)])
                self.checker_cmd += f" && lake env lean Audit/{prop}.lean"
                self._parse_axioms(out2)
                if rc2 != 0:
                    self.problems.append({"kind": "audit-failed", "detail": out2[-1500:]})
                for t in self.theorems:
                    ax = self.axioms.get(t)
                    if ax is None:
                        self.problems.append({"kind": "audit-missing", "detail": t})
                    elif not set(ax) <= ALLOWED_AXIOMS:
                        self.problems.append({"kind": "axioms", "detail": f"{t}: {sorted(set(ax) - ALLOWED_AXIOMS)}"})
            if leanchecker and rc == 0:
                rc3, out3 = _run(["lake", "env", "leanchecker", *[m for m in mods if not m.startswith("Drivers.")]], timeout=3600)
                self.checker_cmd += " && lake env leanchecker <modules of the property>"
                if rc3 != 0:
                    self.problems.append({"kind": "leanchecker-failed", "detail": out3[-1500:]})
        self.build_s = time.time() - t0
        return self

    def _parse_axioms(self, out):
        text = out.replace("\n", " ")
        for m in re.finditer(r"'([^']+)' depends on axioms: \[([^\]]*)\]", text):
            self.axioms[m.group(1)] = [a.strip() for a in m.group(2).split(",") if a.strip()]
        for m in re.finditer(r"'([^']+)' does not depend on any axioms", text):
            self.axioms[m.group(1)] = []

    @property
    def discharged(self):
        if any(p["kind"] in ("lean-build-failed", "no-theorems") for p in self.problems):
            return 0
        bad = {p["detail"].split(":")[0] for p in self.problems if p["kind"] in ("axioms", "audit-missing")}
        return sum(1 for t in self.theorems if t not in bad and t in self.axioms)


class LeanDriver:
    """One `lake env lean --run Drivers/<id>.lean` process speaking the line protocol."""

    def __init__(self, prop, driver=None):
        self.path = driver or f"Drivers/{prop}.lean"
        self.p = subprocess.Popen(
            ["lake", "env", "lean", "--run", self.path],
            cwd=LEAN_DIR, stdin=subprocess.PIPE, stdout=subprocess.PIPE, stderr=subprocess.PIPE,
            text=True, bufsize=1 << 20,
        )
        self.n = 0

    def ask(self, req: dict) -> dict:
        return self.ask_all([req])[0]

    def ask_all(self, reqs):
        """Pipelined: writer thread + reader, preserves order."""
        reqs = list(reqs)
        if not reqs:
            return []
        err = []

        def w():
            try:
                for r in reqs:
                    self.p.stdin.write(canon(r) + "\n")
                self.p.stdin.flush()
            except Exception as e:  # pragma: no cover
                err.append(e)

        th = threading.Thread(target=w, daemon=True)
        th.start()
        out = []
        for r in reqs:
            line = self.p.stdout.readline()
            if not line:
                stderr = self.p.stderr.read()[-2000:] if self.p.poll() is not None else ""
                raise HarnessError(f"lean driver {self.path} closed its output after {len(out)} replies: {stderr}")
            try:
                rep = json.loads(line)
            except Exception:
                raise HarnessError(f"unparsable driver reply: {line[:300]}")
            if not isinstance(rep, dict) or rep.get("ok") is not True:
                raise HarnessError(f"driver rejected request {canon(r)[:300]} -> {line[:300]}")
            out.append(rep)
        th.join()
        self.n += len(reqs)
        return out

    def close(self):
        try:
            self.p.stdin.close()
        except Exception:
            pass
        try:
            self.p.wait(timeout=30)
        except Exception:
            self.p.kill()
        for f in (self.p.stdout, self.p.stderr):
            try:
                f.close()
            except Exception:
                pass

    def __enter__(self):
        return self

    def __exit__(self, *a):
        self.close()


# --------------------------------------------------------------------------- the check object


class Check:
    def __init__(self, prop, tier="quick", seed=0, extra_modules=()):
        self.prop, self.tier, self.seed = prop, tier, seed
        self.rng = random.Random((hash_int(prop) << 20) ^ seed)
        self.t0 = time.time()
        self.gate = LeanGate(prop, extra_modules)
        self.hist = {}
        self.samples = []
        self.evaluations = 0
        self._seen = set()
        self.distinct_nontrivial = 0
        self.traces_validated = 0
        self.mismatches = []  # L2
        self.failures = []  # L3
        self.notes = []
        self.rule = ""
        self.assumptions = []
        self.trusted_extra = []
        self.level = "proof"
        self.extra_cov = {}
        # replay files of runs against a scratch tree (VERIF_REPO set) must not collide with each other
        self.run_tag = "" if str(REPO) == "/repo" else f"p{os.getpid()}_"
        kf = VERIF / "KNOWN_FINDINGS.json"
        self.known = json.loads(kf.read_text()) if kf.exists() else {"open": [], "fixed": []}
        # per-property fragments (same format), committed by hand like the main file
        for frag in sorted((VERIF / "known_findings.d").glob("*.json")) if (VERIF / "known_findings.d").is_dir() else []:
            d = json.loads(frag.read_text())
            self.known.setdefault("open", []).extend(d.get("open", []))
            self.known.setdefault("fixed", []).extend(d.get("fixed", []))

    # -- tiers
    @property
    def thorough(self):
        return self.tier == "thorough"

    def pick(self, quick, thorough):
        return thorough if self.thorough else quick

    # -- statistics
    def count(self, key, n=1):
        self.hist[key] = self.hist.get(key, 0) + n

    def case(self, case, nontrivial=True, validated=True):
        """Register one explored case (for the evidence's measured counts)."""
        self.evaluations += 1
        h = hashlib.sha1(canon(case).encode()).digest()[:12]
        if h not in self._seen:
            self._seen.add(h)
            if nontrivial:
                self.distinct_nontrivial += 1
        if validated:
            self.traces_validated += 1
        if len(self.samples) < 3 or (len(self.samples) < 6 and self.rng.random() < 0.01):
            self.samples.append(_truncate(case))

    # -- L2 / L3 reports
    def mismatch(self, case, detail, force=False):
        """model and implementation disagree on `case` (correspondence broken)."""
        if len(self.mismatches) < 20 or force:
            self.mismatches.append({"case": _truncate(case, 4000), "detail": _truncate(detail, 2000)})
        self.count("L2_mismatch")

    def fail(self, fingerprint, what, case, detail=None):
        """the property's oracle fails on the REAL implementation for `case`."""
        self.count("L3_fail:" + fingerprint)
        for f in self.failures:
            if f["fingerprint"] == fingerprint:
                f["count"] += 1
                return
        self.failures.append(
            {"fingerprint": fingerprint, "what": what, "case": _truncate(case, 8000), "detail": _truncate(detail, 3000), "count": 1}
        )

    def driver(self, path=None):
        return LeanDriver(self.prop, path)

    # -- finish
    def finish(self):
        prop = self.prop
        wall = time.time() - self.t0
        lines, exit_code = [], 0
        open_fps = {e["fingerprint"]: e for e in self.known.get("open", []) if e.get("property") == prop}
        new_fail = [f for f in self.failures if f["fingerprint"] not in open_fps]
        known_hit = [f for f in self.failures if f["fingerprint"] in open_fps]
        for f in known_hit:
            lines.append(f"KNOWN-FINDING: property={prop} {open_fps[f['fingerprint']].get('what', f['what'])} [{f['fingerprint']}]")
        broken = []
        if self.gate.problems:
            broken.append({"layer": "L1", "what": f"theorems of Props/{prop}.lean no longer check", "problems": self.gate.problems, "theorems": self.gate.theorems})
        if self.mismatches:
            broken.append({"layer": "L2", "what": f"correspondence model<->implementation for {prop} no longer holds", "first": self.mismatches[:5], "count": self.hist.get("L2_mismatch", 0)})
        rdir = VERIF / "replays"
        rdir.mkdir(exist_ok=True)
        nviol = 0
        for k, f in enumerate(new_fail):
            path = rdir / f"{prop}_{self.tier}_{self.seed}_{self.run_tag}{k}.json"
            path.write_text(json.dumps({
                "property": prop, "kind": "failing-input", "fingerprint": f["fingerprint"], "what": f["what"],
                "case": f["case"], "detail": f["detail"], "occurrences": f["count"], "broken": broken,
                "replay_cmd": f"./check {prop} --replay {path.relative_to(VERIF)}",
            }, indent=1, default=_json_default))
            lines.append(f"VIOLATION property={prop} replay={path}")
            nviol += 1
        if broken and not new_fail:
            path = rdir / f"{prop}_{self.tier}_{self.seed}_{self.run_tag}broken.json"
            path.write_text(json.dumps({
                "property": prop, "kind": "no-failing-input-found", "broken": broken,
                "searched": {"evaluations": self.evaluations, "distinct_nontrivial": self.distinct_nontrivial, "rule": self.rule},
                "known_findings_hit": [f["fingerprint"] for f in known_hit],
                "replay_cmd": f"./check {prop} --tier {self.tier}",
            }, indent=1, default=_json_default))
            lines.append(f"VIOLATION property={prop} replay={path} no-failing-input-found")
            nviol += 1
        if nviol:
            exit_code = 1
        self.write_evidence(wall, nviol)
        for l in lines:
            print(l)
        status = "OK" if exit_code == 0 else "VIOLATION"
        print(f"[{prop}] {status} tier={self.tier} seed={self.seed} theorems={self.gate.discharged}/{len(self.gate.theorems)} "
              f"cases={self.evaluations} distinct_nontrivial={self.distinct_nontrivial} validated={self.traces_validated} "
              f"mismatches={len(self.mismatches)} failures={len(self.failures)} known={len(known_hit)} wall={wall:.1f}s")
        return exit_code

    def write_evidence(self, wall, nviol):
        ev = {
            "property_id": self.prop,
            "tier": self.tier,
            "seed": self.seed,
            "level": self.level,
            "coverage": {
                "obligations": max(len(self.gate.theorems), 1),
                "discharged": self.gate.discharged,
                "checker_cmd": self.gate.checker_cmd or "lake build",
                "trusted_base": TRUSTED_BASE_COMMON + self.trusted_extra,
                "theorems": {t: self.gate.axioms.get(t) for t in self.gate.theorems},
                "lean_problems": self.gate.problems,
                "lean_build_s": round(self.gate.build_s, 2),
                "evaluations": self.evaluations,
                "distinct_nontrivial": self.distinct_nontrivial,
                "traces_validated_against_impl": self.traces_validated,
                "rule": self.rule,
                "samples": self.samples[:6] or ["(no case generated)"],
                "histogram": dict(sorted(self.hist.items())),
                "correspondence_mismatches": len(self.mismatches),
                "oracle_failures": [{"fingerprint": f["fingerprint"], "count": f["count"]} for f in self.failures],
                "repo": str(REPO),
                **self.extra_cov,
            },
            "assumptions": self.assumptions,
            "wall_s": round(wall, 2),
            "violations": nviol,
        }
        # runs against a scratch tree (VERIF_REPO set, e.g. tools/seeded_run.py) must not overwrite the
        # committed evidence, which describes /repo itself
        d = VERIF / "evidence" if str(REPO) == "/repo" else VERIF / "replays" / "evidence_scratch"
        d.mkdir(parents=True, exist_ok=True)
        (d / f"{self.prop}.json").write_text(json.dumps(ev, indent=1, default=_json_default))


def hash_int(s: str) -> int:
    return int.from_bytes(hashlib.sha1(s.encode()).digest()[:4], "big")


def _truncate(obj, limit=1500):
    s = canon(obj)
    if len(s) <= limit:
        return json.loads(s)
    return {"truncated": s[:limit]}


def git_head(path=REPO):
    try:
        return subprocess.run(["git", "-C", str(path), "rev-parse", "--short", "HEAD"], capture_output=True, text=True).stdout.strip()
    except Exception:
        return "?"


def tree_differs_from_head(path=REPO) -> bool:
    """True iff `path` is a git work tree whose tracked sources under src/ differ from its HEAD (a change under
    test, e.g. an applied patch).  Anything else (not a git tree, git unavailable, identical tree) is False."""
    try:
        r = subprocess.run(["git", "-C", str(path), "diff", "--quiet", "HEAD", "--", "src"], capture_output=True, timeout=60)
        return r.returncode == 1
    except Exception:  # noqa: BLE001
        return False

