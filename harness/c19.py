"""C19 — ensemble aggregators implement weighted mixtures consistently.

L2: MeanAggregator / MixedNormalAggregator / MixedCategoricalAggregator / ModeAggregator (real
    code, in-process) vs. `Model/Aggregate.lean` + `Model/AggregateArray.lean` on the same member ARRAYS (class, mask
    storage, dtype, all stored values - the model selects the namespace, stacks and derives the cells), weights: every
    returned statistic cell by cell (masks must agree exactly, values within 1e-12; scales are
    compared squared; the entropy values of the rows are supplied to the model, whose `H` is a
    parameter).  Inputs are dyadic rationals, so the only rounding is in the weights.
L3: the property itself, stated directly on the implementation's outputs: uniform == None,
    permutation invariance, between the extremes, masked entries ignored (= aggregating exactly
    the present members of each cell / data under a mask is irrelevant), simplex, uncertainty
    ranges and split, law of total variance for any weights.
    Purity / re-entrancy: aggregate() is a function of (members, weights, options) AT THE TIME OF THE CALL.
    Histories on one object (earlier calls with other inputs; the argument objects overwritten in place or
    dropped and re-created with recycled ids; returned arrays overwritten by the caller; the same member
    object twice) are judged by the same L2 / L3 as a call on a fresh object (+ `reuse-independent`);
    overlapping calls on one object (another call run from inside lazily evaluated weights, or at a
    source-line boundary as after a thread switch - complete, or itself suspended half-way - and real
    threads) by the clause `reentrant`: every call returns what it returns alone on an object of its own.
"""
import copy
import math
import os
import sys
import threading
from collections.abc import Sequence
from fractions import Fraction

import numpy as np

from .common import HarnessError, canon, rat, unrat

TOL = 1e-12
CLS = {"mean": "MeanAggregator", "normal": "MixedNormalAggregator",
       "cat": "MixedCategoricalAggregator", "mode": "ModeAggregator"}
DEFAULTS = {"mean": {"with_scale": False}, "normal": {"decomposed_scale": False},
            "cat": {"uncertainty_method": "confidence", "decomposed_uncertainty": False},
            "mode": {"with_uncertainty": False}}


# --------------------------------------------------------------------------- real code


_QUIET = []


def _new_instance(case, opts=None):
    import deephyper.ensemble.aggregator as A

    if not _QUIET:
        # importing deephyper re-enables warnings; NumPy's RuntimeWarnings (log(0), sqrt of a negative rounding
        # residue) on a tree under test are judged through the outputs, not printed
        import warnings

        warnings.filterwarnings("ignore")
        _QUIET.append(1)
    return getattr(A, CLS[case["agg"]])(**(opts if opts is not None else case["opts"]))


def _arr(case, flat, mask, m=None, dkey="dtype"):
    """one member array: `m["dtype"]` (default float64; the values of integer / bool members are whole numbers inside
    the range of the dtype, those of float32 / float16 members are exactly representable there; `m["scale_dtype"]` for
    the scale array of a normal member) and, for a MaskedArray member without masked entries, `m["ctor"] == "nomask"`:
    built without a mask argument, so that its mask is `np.ma.nomask` (a predictor without any missing prediction)"""
    a = np.array(flat, dtype=float).reshape(tuple(case["shape"]))
    if m and m.get(dkey):
        a = a.astype(m[dkey])
    if case["masked"]:
        if m and m.get("ctor") == "nomask" and not any(mask):
            a = np.ma.array(a)
        else:
            a = np.ma.masked_array(a, mask=np.array(mask, dtype=bool).reshape(tuple(case["shape"])))
    return a


def _members(case):
    ys = []
    for m in case["members"]:
        if case["agg"] == "normal":
            ys.append({"loc": _arr(case, m["data"], m["mask"], m), "scale": _arr(case, m["scale"], m["mask"], m, "scale_dtype")})
        else:
            ys.append(_arr(case, m["data"], m["mask"], m))
    for i, j in case.get("alias") or []:
        # the SAME object given twice (a selector with replacement repeats a predictor): equal contents by construction
        ys[j] = ys[i]
    return ys


def _dm(a):
    """(float data, bool mask) of an output array"""
    if isinstance(a, np.ma.MaskedArray):
        mask = np.array(np.ma.getmaskarray(a), dtype=bool)
        data = np.array(np.ma.filled(a.astype(float), 0.0), dtype=float)
        return data, mask
    a = np.array(a, dtype=float)
    return a, np.zeros(a.shape, dtype=bool)


def _norm(out):
    if not isinstance(out, dict):
        out = {"loc": out}
    return {k: _dm(v) for k, v in out.items()}


# -- how the argument objects of successive calls on one aggregator object are provided


def _ids(ys):
    s = set()
    for o in ys:
        s.add(id(o))
        if isinstance(o, dict):
            s.update(id(v) for v in o.values())
    return s


def _compatible(old, new):
    if isinstance(old, dict) or isinstance(new, dict):
        return isinstance(old, dict) and isinstance(new, dict) and old.keys() == new.keys() and \
            all(_compatible(old[k], new[k]) for k in old)
    return type(old) is type(new) and old.shape == new.shape and old.dtype == new.dtype


def _write(old, new):
    """the caller overwrites the contents of the array object `old` in place (a predictor writing its new
    predictions into the same output buffer)"""
    if isinstance(old, dict):
        for k in old:
            _write(old[k], new[k])
    elif isinstance(old, np.ma.MaskedArray):
        np.ma.getdata(old)[...] = np.ma.getdata(new)
        old.mask = np.array(np.ma.getmaskarray(new), dtype=bool)
    else:
        old[...] = new


def _materialise(spec, prev, w):
    """the argument objects `(y, weights)` of one aggregate() call.  `prev` = the argument objects of the previous
    call on the same aggregator when this call re-uses them (`supply == "inplace"`: the same list objects and the
    same array objects, their contents overwritten in place where class / shape allow), else None (fresh objects;
    the caller has dropped the previous ones, so CPython may give the new arrays the ids of the dead ones)."""
    new = _members(spec)
    wl = None if w is None else list(w)
    if prev is None:
        return new, wl
    ylist, wold = prev
    used, out = set(), []
    for i, m in enumerate(new):
        old = ylist[i] if i < len(ylist) else None
        if old is not None and id(old) not in used and _compatible(old, m):
            _write(old, m)
            used.add(id(old))
            out.append(old)
        else:
            out.append(m)
    for i, j in spec.get("alias") or []:
        out[j] = out[i]
    ylist[:] = out
    if wl is not None and isinstance(wold, list):
        wold[:] = wl
        wl = wold
    return ylist, wl


def _scribble(out):
    """the caller owns what aggregate() returned: it may overwrite it"""
    for v in (out.values() if isinstance(out, dict) else [out]):
        if isinstance(v, np.ndarray):
            try:
                np.ma.getdata(v)[...] = 97
            except (ValueError, TypeError):
                pass


# -- a second, complete aggregate() call on the SAME object while a call is in progress


class _LazySeq(Sequence):
    """weights as a read-only `collections.abc.Sequence`: its `k`-th access (`len` / element) runs `hook` first"""

    def __init__(self, values, at, hook):
        self._v, self._at, self._hook, self.n, self.fired = list(values), at, hook, 0, False

    def _tick(self):
        n = self.n
        self.n += 1
        if n == self._at and not self.fired:
            self.fired = True
            self._hook()

    def __len__(self):
        self._tick()
        return len(self._v)

    def __getitem__(self, i):
        self._tick()
        return self._v[i]


class _LazyArr:
    """weights as an array-like (`__len__` + `__array__`): its `k`-th conversion / `len` runs `hook` first"""

    def __init__(self, values, at, hook):
        self._v, self._at, self._hook, self.n, self.fired = list(values), at, hook, 0, False

    _tick = _LazySeq._tick

    def __len__(self):
        self._tick()
        return len(self._v)

    def __array__(self, dtype=None, copy=None):
        self._tick()
        return np.array(self._v, dtype=dtype if dtype is not None else float)


def _agg_dir():
    import deephyper.ensemble.aggregator as A

    return os.path.dirname(os.path.abspath(A.__file__))


def _preempted(fn, at, hook, st):
    """run `fn()`; just before the `at`-th source line executed inside the aggregator package, `hook()` runs to
    completion (what a thread switch at that point to another caller of the same object does) -> result;
    `st["n"]` = number of lines seen, `st["fired"]`"""
    d = _agg_dir()
    st.update(n=0, fired=False)

    def local(frame, event, arg):
        if event == "line":
            n = st["n"]
            st["n"] = n + 1
            if n == at and not st["fired"]:
                st["fired"] = True
                hook()
        return local

    def glob(frame, event, arg):
        return local if frame.f_code.co_filename.startswith(d) else None

    old = sys.gettrace()
    sys.settrace(glob)
    try:
        return fn()
    finally:
        sys.settrace(old)


class _Overlap:
    """the other call on the same object: run to completion at the point where it starts (`pause` None), or - in a
    thread of its own, with a hand-shake so that exactly one of the two calls advances at any time - up to its
    `pause`-th source line, where it stays suspended until the first call has returned (the schedule
    A[:at] B[:pause] A[at:] B[pause:] of two threads sharing the aggregator)"""

    WAIT = 120.0

    def __init__(self, inst, case, info):
        self.inst, self.case, self.info, self.th = inst, case, info, None

    def _body(self):
        b = dict(self.case["nested"]["call"], agg=self.case["agg"])
        try:
            ys, w = _members(b), None if b["weights"] is None else list(b["weights"])
            self.info["nested"] = ("ok", _norm(self.inst.aggregate(ys, w)))
        except Exception as e:  # noqa: BLE001 - the outcome of the overlapping call is judged by the oracle
            self.info["nested"] = ("exc", type(e).__name__, str(e)[:200])

    def start(self):
        pause = self.case["nested"].get("pause")
        if pause is None:
            return self._body()
        self.reached, self.resume = threading.Event(), threading.Event()

        def suspended():
            self.reached.set()
            self.resume.wait(self.WAIT)

        def run():
            try:
                with np.errstate(all="ignore"):
                    _preempted(self._body, pause, suspended, {})
            finally:
                self.reached.set()

        self.th = threading.Thread(target=run, daemon=True)
        self.th.start()
        self.reached.wait(self.WAIT)

    def finish(self):
        if self.th is not None:
            self.resume.set()
            self.th.join(self.WAIT)
            if self.th.is_alive():
                raise HarnessError("C19: the suspended overlapping call did not finish")


def _invoke(inst, ys, w, case, extra):
    nested = case.get("nested")
    if not nested:
        return inst.aggregate(ys, w)
    info = extra if extra is not None else {}
    other = _Overlap(inst, case, info)
    via, at = nested["via"], nested["at"]
    if via in ("seq", "array") and w is not None:
        lw = (_LazySeq if via == "seq" else _LazyArr)(w, at, other.start)
        try:
            return inst.aggregate(ys, lw)
        finally:
            other.finish()
            info["points"], info["fired"] = lw.n, lw.fired
    st = {}
    try:
        return _preempted(lambda: inst.aggregate(ys, w), at, other.start, st)
    finally:
        other.finish()
        info["points"], info["fired"] = st.get("n", 0), st.get("fired", False)


def call(case, opts=None, weights="case", extra=None):
    """run the scenario of `case` on the real code: ONE new aggregator object, the earlier calls of
    `case["history"]` (unrelated aggregate() calls: other members / shapes / weights / plain or masked; an earlier call
    that raises is part of the history too), then the call itself (with `case["nested"]`: another complete call on the
    same object while it is in progress) -> ("ok", {name: (data, mask)}) | ("exc", type name, message).
    The property is about every list of member predictions, so what the object was used for before or is used for
    meanwhile must not matter; every L2 / L3 judgement below is made on such a scenario."""
    w_final = case["weights"] if isinstance(weights, str) else weights
    try:
        inst = _new_instance(case, opts)
    except Exception as e:  # noqa: BLE001
        return ("exc", type(e).__name__, str(e)[:200])
    args, dead = None, set()
    steps = [(dict(h, agg=case["agg"]), h["weights"], False) for h in case.get("history") or []] + [(case, w_final, True)]
    for spec, w, final in steps:
        if (spec.get("supply") or "fresh") != "inplace" and args is not None:
            dead |= _ids(args[0])
            args = None  # the arrays of the previous call die here
        args = _materialise(spec, args, w)
        if not final:
            try:
                out = inst.aggregate(args[0], args[1])
                if case.get("scribble"):
                    _scribble(out)
            except Exception:  # noqa: BLE001
                pass
            out = None
            continue
        if extra is not None:
            extra["ids_reused"] = bool(dead & _ids(args[0]))
        try:
            out = _invoke(inst, args[0], args[1], case, extra)
            if extra is not None:
                # the class of the returned `loc` (observable): MaskedArray <=> the call worked in the np.ma namespace
                extra["out_ma"] = isinstance(out["loc"] if isinstance(out, dict) else out, np.ma.MaskedArray)
            return ("ok", _norm(out))
        except HarnessError:
            raise
        except Exception as e:  # noqa: BLE001 - every exception is an observable outcome here
            return ("exc", type(e).__name__, str(e)[:200])


# --------------------------------------------------------------------------- generator


def _dy(rng, lo, hi, den=8):
    return rng.randint(lo * den, hi * den) / den


def _simplex(rng, c):
    kind = rng.random()
    if kind < 0.2:
        p = [0] * c
        p[rng.randrange(c)] = 16
    elif kind < 0.35 and c >= 2:
        # an argmax tie
        p = [0] * c
        i, j = rng.sample(range(c), 2)
        p[i] = p[j] = 8
    elif kind < 0.45 and c >= 3:
        # a tie at the top with mass left for the others, e.g. [.375, .375, .25]
        p = [0] * c
        i, j, l = rng.sample(range(c), 3)
        p[i] = p[j] = 6
        p[l] = 4
    else:
        cuts = sorted(rng.randint(0, 16) for _ in range(c - 1))
        p = [b - a for a, b in zip([0] + cuts, cuts + [16])]
    return [v / 16 for v in p]


def _weights(rng, n):
    kind = rng.choice(["none", "none", "uniform", "uniform", "normalised", "normalised", "raw", "zeros", "zeros",
                       "allzero", "badlen"] if rng.random() < 0.25 else
                      ["none", "uniform", "normalised", "raw", "zeros", "tiny", "tiny", "huge"])
    if kind in ("tiny", "huge"):
        # the same kinds of weights at a very small / very large magnitude (exact: powers of two)
        _, w = _weights(rng, n)
        while w is None or len(w) != n or not any(w):
            _, w = _weights(rng, n)
        # (any power of two: the absolute size at which a weight would be "negligible" or two weights "equal" is not
        # known in advance - 1e-5, 1e-8, 1e-12, machine epsilon - so the weights are put on both sides of all of them)
        f = 2.0 ** -rng.randint(12, 64) if kind == "tiny" else 2.0 ** rng.randint(10, 40)
        return kind, [x * f for x in w]
    if kind == "none":
        return kind, None
    if kind == "uniform":
        c = rng.choice([1.0, 1.0, 1 / n, 0.5, 2.0, 0.1, 3.0])
        return kind, [c] * n
    if kind == "normalised":
        ints = [rng.randint(1, 9) for _ in range(n)]
        return kind, [v / sum(ints) for v in ints]
    if kind == "raw":
        return kind, [rng.choice([0.25, 0.5, 1.0, 2.0, 3.0, 0.1, 0.7]) for _ in range(n)]
    if kind == "zeros":
        w = [rng.choice([0.0, 0.0, 0.5, 1.0, 0.2, 0.7]) for _ in range(n)]
        if not any(w):
            w[rng.randrange(n)] = 1.0
        return kind, w
    if kind == "allzero":
        return kind, [0.0] * n
    return kind, [1.0] * (n + rng.choice([-1, 1]) if n > 1 else 2)


WSCALES = [-30, -60, 20]


def _wscales(rng):
    """exponents e of the common factors 2^e of the clause `weight-scale-invariant` (exact scalings): the property holds
    for EVERY common factor, so they are drawn log-uniformly - one that moves weights of ordinary size into the band
    where absolute tolerances usually sit (1e-4 .. 1e-12: the given weights then lie on both sides of such a threshold),
    one far below it, one large"""
    return [-rng.randint(12, 40), -rng.randint(41, 70), rng.randint(1, 40)]


def gen_case(rng, agg=None, opts=None, like=None, same_n=True):
    """`like`: a case whose aggregator, options, array class and shape (and member count, if `same_n`) are taken over"""
    if like is not None:
        agg, opts = like["agg"], like["opts"]
    agg = agg or rng.choice(["mean", "mean", "normal", "normal", "cat", "cat", "cat", "mode", "mode"])
    force_opts = opts
    n = rng.choice([1, 1, 2, 2, 3, 3, 3, 4, 5, 6, 7, 8])
    masked = rng.random() < 0.5
    if like is not None:
        masked = like["masked"]
        if same_n:
            n = len(like["members"])
    if agg in ("mean", "normal"):
        shape = list(rng.choice([(), (1,), (3,), (4,), (2, 2), (1, 3), (3, 1), (2, 1, 2), (2, 2, 2)]))
        if masked and not shape:
            shape = [1]
        rows, c = None, None
    else:
        c = rng.choice([1, 2, 2, 2, 3, 3, 4, 5])
        lead = list(rng.choice([(), (1,), (3,), (4,), (2, 2), (1, 3)]))
        if masked and not lead:
            lead = [1]
        shape = lead + [c]
        if like is not None:
            shape, c = list(like["shape"]), like["shape"][-1]
            lead = shape[:-1]
        rows = int(np.prod(lead)) if lead else 1
    if like is not None:
        shape = list(like["shape"])
    size = int(np.prod(shape)) if shape else 1
    if agg == "mean":
        opts = {"with_scale": rng.random() < 0.5}
    elif agg == "normal":
        opts = {"decomposed_scale": rng.random() < 0.5}
    elif agg == "cat":
        opts = {"uncertainty_method": rng.choice(["confidence", "entropy"]),
                "decomposed_uncertainty": rng.random() < 0.5}
    else:
        opts = {"with_uncertainty": rng.random() < 0.6}
    if force_opts is not None:
        opts = dict(force_opts)
    wkind, w = _weights(rng, n)
    pm = rng.choice([0.0, 0.2, 0.4, 0.7])
    vkind = rng.choice(["free", "free", "free", "equal", "small"])
    base = None
    members = []
    for i in range(n):
        m = {}
        if agg in ("mean", "normal"):
            if vkind == "equal" and base is not None:
                m["data"] = list(base)
            elif vkind == "small":
                m["data"] = [_dy(rng, -1, 1, 1024) for _ in range(size)]
            else:
                m["data"] = [_dy(rng, -4, 4) for _ in range(size)]
            base = m["data"]
            if agg == "normal":
                m["scale"] = [rng.randint(1, 16) / 8 for _ in range(size)]
            m["mask"] = [masked and rng.random() < pm for _ in range(size)]
        else:
            data, mask = [], []
            for _ in range(rows):
                data += _simplex(rng, c)
                mk = masked and rng.random() < pm
                mask += [mk] * c
            m["data"], m["mask"] = data, mask
        members.append(m)
    if masked and n > 1 and rng.random() < 0.15:
        members[rng.randrange(n)]["mask"] = [True] * size  # a member that is masked everywhere
    if masked and rng.random() < 0.15:
        # one cell / row masked in every member
        if agg in ("mean", "normal"):
            j = rng.randrange(size)
            for m in members:
                m["mask"][j] = True
        else:
            r = rng.randrange(rows)
            for m in members:
                m["mask"][r * c:(r + 1) * c] = [True] * c
    perm = list(range(n))
    rng.shuffle(perm)
    case = {"agg": agg, "opts": opts, "shape": shape, "masked": masked, "members": members, "weights": w,
            "wkind": wkind, "perm": perm, "uniform_c": rng.choice([1.0, 0.5, 2.0, 1 / n, 0.1]),
            "wscales": _wscales(rng)}
    _array_classes(rng, case, rows, c)
    return case


INT_DTYPES = ["int64", "int32", "int16", "int8", "uint8", "uint16", "bool"]
LOW_FLOATS = ["float32", "float16"]
ALL_DTYPES = INT_DTYPES + LOW_FLOATS + ["float64"]


def _int_value(rng, dtype, near_limit):
    if dtype == "bool":
        return float(rng.random() < 0.7)
    info = np.iinfo(dtype)
    hi = min(int(info.max), 2 ** 40)  # float64 holds every such value, and their squared differences to 1e-16
    if near_limit:
        return float(rng.randint(hi // 2, hi))  # bright pixels, large labels / counts: sums leave the dtype's range
    return float(rng.randint(max(int(info.min), -4), 4))


def _small_int(rng, dtype):
    """a small whole number of the dtype (|v| <= 4, the range of the float locations of the generator)"""
    if dtype == "bool":
        return float(rng.random() < 0.5)
    return float(rng.randint(max(int(np.iinfo(dtype).min), -4), 4))


def _hard_rows(rng, rows, c, ties):
    """`rows` one-hot rows of `c` classes (hard predictions: each row is a vertex of the simplex and sums to 1); for
    ModeAggregator (`ties`) 25 % of the rows have two ones (a top tie of the 0/1 votes)"""
    data = []
    for _ in range(rows):
        row = [0.0] * c
        for k in rng.sample(range(c), 2 if ties and c >= 2 and rng.random() < 0.25 else 1):
            row[k] = 1.0
        data += row
    return data


def _member_dtypes(rng, n, pool, p_mixed=0.3):
    """one dtype for all members, or (p_mixed) a dtype per member drawn from `pool` + float64"""
    if rng.random() < p_mixed:
        return [rng.choice(pool + ["float64"]) for _ in range(n)]
    return [rng.choice(pool)] * n


def _array_classes(rng, case, rows, c):
    """the class of the member arrays beyond float64 ndarray / MaskedArray-with-a-mask-array, for every aggregator and
    independently of plain / masked (mask array, `nomask`, partially masked members), weights and options:
    * integer and bool dtypes wherever such a member is a legal input - MeanAggregator: images, labels, counts, also
      near the limits of the dtype; MixedCategoricalAggregator: hard one-hot predictions (each row a vertex of the
      simplex); ModeAggregator: hard 0/1 votes; MixedNormalAggregator: whole-number locations (|loc| <= 4) with floating
      scales;
    * float32 / float16 members (values exactly representable; the comparisons are then made to 64 eps of that dtype);
    * lists mixing these dtypes between members (float64 included);
    * MaskedArray members built without a mask (`mask is np.ma.nomask`)."""
    agg, members = case["agg"], case["members"]
    n = len(members)
    u = rng.random()
    if agg == "mean" and u < 0.3:
        common = rng.choice(INT_DTYPES)
        near = rng.random() < 0.7
        mixed = rng.random() < 0.3
        for m in members:
            dt = rng.choice(INT_DTYPES + ["float64"]) if mixed else common
            if dt != "float64":
                m["dtype"] = dt
                m["data"] = [_int_value(rng, dt, near) for _ in m["data"]]
    elif agg == "mean" and u < 0.42:
        # float32 / float16 members (k/8 and k/1024 are exact there), alone or next to small integer / float64 members
        for m, dt in zip(members, _member_dtypes(rng, n, LOW_FLOATS + (INT_DTYPES if rng.random() < 0.3 else []))):
            if dt != "float64":
                m["dtype"] = dt
            if dt in INT_DTYPES:
                m["data"] = [_small_int(rng, dt) for _ in m["data"]]
    elif agg == "mode" and u < 0.2:
        common = rng.choice(INT_DTYPES)
        for m in members:
            m["dtype"] = common
            m["data"] = _hard_rows(rng, rows, c, True)
    elif agg == "mode" and u < 0.32:
        # probabilities in float32 / float16 (k/16: exact), or hard and soft members of any dtype side by side
        for m, dt in zip(members, _member_dtypes(rng, n, LOW_FLOATS + (INT_DTYPES if rng.random() < 0.4 else []))):
            if dt != "float64":
                m["dtype"] = dt
            if dt in INT_DTYPES:
                m["data"] = _hard_rows(rng, rows, c, True)
    elif agg == "cat" and u < 0.36:
        kind = rng.choice(["hard", "hard", "low", "mixed"])
        pool = {"hard": INT_DTYPES, "low": LOW_FLOATS, "mixed": INT_DTYPES + LOW_FLOATS}[kind]
        for m, dt in zip(members, _member_dtypes(rng, n, pool, 0.3 if kind != "mixed" else 1.0)):
            if dt != "float64":
                m["dtype"] = dt
            if dt in INT_DTYPES:
                m["data"] = _hard_rows(rng, rows, c, False)
    elif agg == "normal" and u < 0.3:
        kind = rng.choice(["intloc", "intloc", "low", "mixed"])
        pool = {"intloc": INT_DTYPES, "low": LOW_FLOATS, "mixed": INT_DTYPES + LOW_FLOATS}[kind]
        for m, dt in zip(members, _member_dtypes(rng, n, pool, 0.3 if kind != "mixed" else 1.0)):
            if dt != "float64":
                m["dtype"] = dt
            if dt in INT_DTYPES:
                m["data"] = [_small_int(rng, dt) for _ in m["data"]]
            sdt = dt if dt in LOW_FLOATS and rng.random() < 0.8 else rng.choice(["float64", "float64"] + LOW_FLOATS)
            if sdt != "float64":
                m["scale_dtype"] = sdt
        if any("float16" in (m.get("dtype"), m.get("scale_dtype")) for m in members):
            # E[loc^2 + scale^2] - E[loc]^2 in float16 (eps = 1e-3, |loc| <= 4): the cancellation noise is of order
            # 0.05, so the mixture variance is kept >= 1 (the property is stated over the reals)
            for m in members:
                m["scale"] = [rng.randint(8, 16) / 8 for _ in m["scale"]]
    if case["masked"]:
        for m in members:
            if not any(m["mask"]) and rng.random() < 0.35:
                m["ctor"] = "nomask"


_CALL_KEYS = ("shape", "masked", "members", "weights")


def gen_history(rng):
    """2..4 aggregate() calls on ONE aggregator object (same class and options; members, shapes, weights and
    plain/masked differ from call to call) -> one case per call after the first, carrying the earlier calls"""
    first = gen_case(rng)
    seq = [first] + [gen_case(rng, agg=first["agg"], opts=first["opts"]) for _ in range(rng.randint(1, 3))]
    if all(c["masked"] == seq[0]["masked"] for c in seq):  # make sure plain and masked inputs are mixed
        j = rng.randrange(1, len(seq))
        for _ in range(20):
            c = gen_case(rng, agg=first["agg"], opts=first["opts"])
            if c["masked"] != seq[0]["masked"]:
                seq[j] = c
                break
    out = []
    for i in range(1, len(seq)):
        out.append(dict(seq[i], history=[{k: h[k] for k in _CALL_KEYS} for h in seq[:i]]))
    return out


def _spec(c):
    return {k: c[k] for k in _CALL_KEYS + ("supply", "alias") if k in c}


def _alias(rng, c):
    """sometimes the same member object twice in one list (selection with replacement)"""
    n = len(c["members"])
    if n >= 2 and rng.random() < 0.15:
        i, j = sorted(rng.sample(range(n), 2))
        c["members"][j] = copy.deepcopy(c["members"][i])
        c["alias"] = [[i, j]]
    return c


def gen_rounds(rng):
    """2..5 aggregate() calls on ONE aggregator object with arguments of the SAME class and shape, the way a long-lived
    ensemble is used: each later call either overwrites the previous call's argument objects in place (the same list
    and array objects, new contents: predictors writing into their output buffers) or drops them and builds new ones
    (equal shapes: CPython recycles the ids of the dead arrays); the member count changes now and then; the caller may
    overwrite the arrays it got back -> one case per call after the first"""
    first = _alias(rng, gen_case(rng))
    seq = [first]
    for _ in range(rng.randint(1, 4)):
        c = _alias(rng, gen_case(rng, like=first, same_n=rng.random() < 0.8))
        c["supply"] = rng.choice(["inplace", "inplace", "fresh"])
        seq.append(c)
    scribble = rng.random() < 0.3
    out = []
    for i in range(1, len(seq)):
        out.append(dict(seq[i], history=[_spec(h) for h in seq[:i]], scribble=scribble))
    return out


def _gen_valid(rng, **kw):
    c = gen_case(rng, **kw)
    while not _valid(c):
        c = gen_case(rng, **kw)
    return c


def count_points(case, via):
    """number of points of the call at which another call can be made to run: accesses to the lazy weights object
    (`seq` / `array`) or source lines executed inside the aggregator package (`line`); measured on the real code"""
    ex = {}
    call(dict(case, nested={"call": None, "via": via, "at": -1, "pause": None}), extra=ex)
    return ex.get("points", 0)


def gen_nested(rng):
    """a call A during which another complete call B (same aggregator object, other members / weights / plain or masked)
    runs: from inside A through lazily evaluated weights (a `collections.abc.Sequence` or an array-like whose `k`-th
    access runs B), or at a source-line boundary of A (what a thread switch to another caller of the object does)"""
    u = rng.random()
    if u < 0.7:
        a = _gen_valid(rng)
    elif u < 0.85:
        a = [c for c in gen_history(rng) if _valid(c)][-1:]
        a = a[0] if a else _gen_valid(rng)
    else:
        a = [c for c in gen_rounds(rng) if _valid(c)][-1:]
        a = a[0] if a else _gen_valid(rng)
    b = _gen_valid(rng, like=a, same_n=False) if rng.random() < 0.4 else _gen_valid(rng, agg=a["agg"], opts=a["opts"])
    via = rng.choice(["seq", "seq", "array", "line", "line"])
    if a["weights"] is None:
        via = "line"
    frac, pfrac = rng.random(), rng.random()
    a = dict(a, nested={"call": {k: b[k] for k in _CALL_KEYS}, "via": via, "at": 0, "pause": None})
    a["nested"]["at"] = int(frac * max(1, count_points(a, via)))
    if pfrac < 0.5:
        # the other call gets as far as one of its own source lines and finishes only after this call has returned
        a["nested"]["pause"] = int(2 * pfrac * max(1, count_points(dict(b, history=None, nested=None), "line")))
    return a


def gen_threads(rng):
    """one aggregator object shared by 2..3 real threads, each making its own 1..3 calls over and over"""
    first = _gen_valid(rng)
    nt = rng.choice([2, 2, 3])
    threads = []
    for t in range(nt):
        calls = [first] if t == 0 else []
        while len(calls) < rng.randint(1, 3):
            calls.append(_gen_valid(rng, like=first, same_n=False) if rng.random() < 0.3 else
                         _gen_valid(rng, agg=first["agg"], opts=first["opts"]))
        threads.append([{k: c[k] for k in _CALL_KEYS} for c in calls])
    return {"agg": first["agg"], "opts": first["opts"], "threads": threads, "reps": 60}


# --------------------------------------------------------------------------- L2: model


def _entropy(p):
    eps = np.finfo(float).eps
    return float(-np.sum(p * np.log(p + eps), axis=-1))


def _wire_arr(case, m, key="data", dkey="dtype"):
    """a member array as the code receives it (`Model/AggregateArray.lean: Arr`): Python class, mask storage, dtype and
    ALL stored values - also those under the mask; which of them are present is decided by the model"""
    nomask = m.get("ctor") == "nomask" and not any(m["mask"])
    return {"ma": bool(case["masked"]), "mask": None if nomask or not case["masked"] else [bool(b) for b in m["mask"]],
            "dtype": m.get(dkey) or "float64", "data": [rat(v) for v in m[key]]}


def lean_req(case, real):
    n = len(case["members"])
    ws = None if case["weights"] is None else [rat(x) for x in case["weights"]]
    agg = case["agg"]
    size = int(np.prod(case["shape"])) if case["shape"] else 1
    arrs = [_wire_arr(case, m) for m in case["members"]]
    if agg == "mean":
        return {"op": "mean", "ws": ws, "n": n, "size": size, "arrs": arrs}
    if agg == "normal":
        return {"op": "normal", "ws": ws, "n": n, "size": size, "arrs": arrs,
                "sarrs": [_wire_arr(case, m, "scale", "scale_dtype") for m in case["members"]]}
    c = case["shape"][-1]
    nrows = size // c
    if agg == "mode":
        return {"op": "mode", "ws": ws, "n": n, "c": c, "size": size, "arrs": arrs}
    if case["opts"]["uncertainty_method"] == "confidence":
        return {"op": "cat", "ws": ws, "n": n, "c": c, "size": size, "arrs": arrs}
    # entropy: H is a parameter of the model -> supply its values (the code's own float formula)
    hrows = [[None if m["mask"][r * c] else rat(_entropy(np.array(m["data"][r * c:(r + 1) * c])))
              for m in case["members"]] for r in range(nrows)]
    hloc = [None] * nrows
    if real[0] == "ok":
        d, mk = real[1]["loc"]
        d, mk = d.reshape(nrows, c), mk.reshape(nrows, c)
        hloc = [None if mk[r].all() or not math.isfinite(_entropy(d[r])) else rat(_entropy(d[r])) for r in range(nrows)]
    return {"op": "cat_entropy", "ws": ws, "n": n, "c": c, "size": size, "arrs": arrs, "hloc": hloc, "hrows": hrows}


_MAG = [1.0]
_TOL = [TOL]
ULPS = 64  # tolerance of a comparison in units of the machine epsilon of the arithmetic of the case (below float64)


def _arith_eps(case):
    """the coarsest machine epsilon of the arithmetic members of `case` can be aggregated in: NumPy stacks members into
    their common dtype (integer / bool members are averaged in float64) and computes the unweighted mean, the
    differences and the entropy in that dtype; a sub-list of the members (the members present at a cell, a permutation
    prefix) has a common dtype no coarser than the narrowest floating member"""
    eps = float(np.finfo(np.float64).eps)
    for mem in (case or {}).get("members") or []:
        for key in ("dtype", "scale_dtype"):
            if mem.get(key) in LOW_FLOATS:
                eps = max(eps, float(np.finfo(mem[key]).eps))
    return eps


def _set_mag(*cases):
    """absolute tolerances are relative to the magnitude M of the member values of the case (`tol * (M + |v|)`): the
    rounding of a mean of values of size M is of order eps*M, and so is the noise of a scale (for the usual data,
    |v| <= 4, this is the plain 1e-12; integer members go up to 2^40), and to the precision of the members' dtype:
    `tol = max(1e-12, 64 eps)` with eps the machine epsilon of the dtype the members are stacked into (float64: 1e-12)"""
    m = 1.0
    eps = 0.0
    for c in cases:
        eps = max(eps, _arith_eps(c))
        for mem in (c or {}).get("members") or []:
            for key in ("data", "scale"):
                if mem.get(key):
                    m = max(m, max(abs(v) for v in mem[key]))
    _MAG[0] = m
    _TOL[0] = max(TOL, ULPS * eps)
    return m


def _ctol(t):
    """a fixed tolerance `t` of a checker clause (1e-9, 1e-10), widened for members of a narrower floating dtype"""
    return max(t, _TOL[0]) if _TOL[0] > TOL else t


def _close(a, b, tol=None, square=False):
    return abs(a - b) <= (_TOL[0] if tol is None else tol) * ((_MAG[0] ** 2 if square else _MAG[0]) + abs(b))


def _cmp_cells(name, dm, model, square=False):
    """real (data, mask) vs list of model cells (rat text | None)"""
    d, mk = dm
    d, mk = d.reshape(-1), mk.reshape(-1)
    if len(d) != len(model):
        return f"{name}: {len(d)} cells vs model {len(model)}"
    for j, mv in enumerate(model):
        if mv is None:
            if not mk[j]:
                return f"{name}[{j}]: impl {d[j]!r}, model masked/undefined"
            continue
        if mk[j]:
            return f"{name}[{j}]: impl masked, model {float(unrat(mv))!r}"
        x = float(d[j]) ** 2 if square else float(d[j])
        if not (math.isfinite(x) and _close(x, float(unrat(mv)), square=square)):
            return f"{name}{'^2' if square else ''}[{j}]: impl {x!r}, model {float(unrat(mv))!r}"
    return None


def compare_model(case, real, rep, out_ma=None):
    """-> None or a text describing the disagreement"""
    _set_mag(case)
    agg, opts = case["agg"], case["opts"]
    if rep["err"] is not None:
        return None if real[0] == "exc" else f"model: argument error {rep['err']}, impl returned"
    flat = lambda rows: [v for r in rows for v in (r if r is not None else [None] * case["shape"][-1])]  # noqa: E731
    model_loc = rep["loc"] if agg in ("mean", "normal") else (flat(rep["loc"]) if agg == "cat" else rep["loc"])
    if real[0] == "exc":
        undefined = all(v is None for v in model_loc)
        if real[1] == "ZeroDivisionError" and undefined and not case["masked"]:
            return None
        return f"impl raised {real[1]}: {real[2]}; model returns values"
    out = real[1]
    if out_ma is not None and rep.get("ma") is not None and bool(rep["ma"]) != bool(out_ma):
        return (f"namespace: model works in {'np.ma' if rep['ma'] else 'np'} (all members are "
                f"{'MaskedArrays' if rep['ma'] else 'not MaskedArrays'}), impl returned a "
                f"{'MaskedArray' if out_ma else 'plain array'}")
    if not case["masked"] and any(v is None for v in model_loc):
        return "model: weights sum to zero (ZeroDivisionError), impl returned"
    if agg == "mean":
        r = _cmp_cells("loc", out["loc"], rep["loc"])
        if r is None and opts["with_scale"]:
            r = _cmp_cells("scale", out["scale"], rep["var"], square=True)
        return r
    if agg == "normal":
        r = _cmp_cells("loc", out["loc"], rep["loc"])
        if r is None and not opts["decomposed_scale"]:
            r = _cmp_cells("scale", out["scale"], rep["var"], square=True)
        if r is None and opts["decomposed_scale"]:
            r = _cmp_cells("scale_aleatoric", out["scale_aleatoric"], rep["alea"], square=True) or \
                _cmp_cells("scale_epistemic", out["scale_epistemic"], rep["epi"], square=True)
        return r
    if agg == "cat":
        r = _cmp_cells("loc", out["loc"], model_loc)
        if r is None and not opts["decomposed_uncertainty"]:
            r = _cmp_cells("uncertainty", out["uncertainty"], rep["unc"])
        if r is None and opts["decomposed_uncertainty"]:
            r = _cmp_cells("uncertainty_aleatoric", out["uncertainty_aleatoric"], rep["alea"]) or \
                _cmp_cells("uncertainty_epistemic", _bcast(out["uncertainty_epistemic"], out["uncertainty_aleatoric"]),
                           rep["epi"])
        return r
    # mode: the impl's class must be an argmax of the model's counts (ties within 1e-12 either way)
    d, mk = out["loc"]
    d, mk = d.reshape(-1), mk.reshape(-1)
    for j, cnt in enumerate(rep["counts"]):
        if cnt is None:
            if not mk[j]:
                return f"loc[{j}]: impl {d[j]!r}, model masked"
            continue
        if mk[j]:
            return f"loc[{j}]: impl masked, model {rep['loc'][j]}"
        cf = [float(unrat(v)) for v in cnt]
        k = int(d[j])
        if not (0 <= k < len(cf)) or cf[k] < max(cf) - TOL:
            return f"loc[{j}]: impl class {k}, model counts {cf}"
        if k != rep["loc"][j] and abs(cf[k] - cf[rep["loc"][j]]) > TOL:
            return f"loc[{j}]: impl class {k}, model class {rep['loc'][j]}"
    if opts["with_uncertainty"]:
        return _cmp_cells("uncertainty", out["uncertainty"], rep["unc"])
    return None


def _bcast(dm, like):
    """np.maximum(0, masked) may come back with a scalar mask; give it the mask of its operand"""
    d, mk = dm
    if mk.shape != d.shape or not mk.any():
        mk = np.broadcast_to(like[1], d.shape)
    return d, mk


# --------------------------------------------------------------------------- L3: the property


def _valid(case):
    w = case["weights"]
    n = len(case["members"])
    return w is None or (len(w) == n and all(x >= 0 for x in w) and any(x > 0 for x in w))


def _mode_tie(case):
    """ModeAggregator: (row j, class a, class b) -> the exact weighted votes of a and b differ by < 1e-9
    (an exact tie of the vote may be broken either way by float rounding)"""
    if case["agg"] != "mode":
        return None
    c = case["shape"][-1]
    w = case["weights"]

    def tie(j, a, b):
        votes = [Fraction(0)] * c
        for i, m in enumerate(case["members"]):
            if case["masked"] and m["mask"][j * c]:
                continue
            p = m["data"][j * c:(j + 1) * c]
            votes[p.index(max(p))] += Fraction(1) if w is None else Fraction(w[i])
        a, b = int(a), int(b)
        tot = sum(votes) or 1
        return 0 <= a < c and 0 <= b < c and abs(votes[a] - votes[b]) / tot < Fraction(1, 10 ** 9)

    return tie


def _same(a, b, tie=None):
    """two real outcomes agree (same keys, same masks, values within tolerance)"""
    if a[0] != b[0]:
        return f"{a[:1] + a[1:2] if a[0] == 'exc' else 'returns'} vs {b[:1] + b[1:2] if b[0] == 'exc' else 'returns'}"
    if a[0] == "exc":
        return None
    for k in a[1]:
        (d1, m1), (d2, m2) = a[1][k], b[1][k]
        if k.endswith("epistemic"):
            m1 = m2 = np.zeros(d1.shape, dtype=bool) if m1.shape != d1.shape or m2.shape != d2.shape else m1 | m2
        if d1.shape != d2.shape or (m1 != m2).any():
            return f"{k}: masks/shapes differ"
        ok = m1 | (np.abs(d1 - d2) <= _TOL[0] * (_MAG[0] + np.abs(d2))) | (np.isnan(d1) & np.isnan(d2))  # NaN: `non-finite-output`
        for j in np.nonzero(~ok.reshape(-1))[0]:
            if k == "loc" and tie is not None and tie(int(j), d1.reshape(-1)[j], d2.reshape(-1)[j]):
                continue
            return f"{k}[{j}]: {d1.reshape(-1)[j]!r} vs {d2.reshape(-1)[j]!r}"
    return None


def _present_cells(case):
    """per cell (mean/normal) or per row (cat/mode): indices of the members present there"""
    size = int(np.prod(case["shape"])) if case["shape"] else 1
    step = 1 if case["agg"] in ("mean", "normal") else case["shape"][-1]
    return [[i for i, m in enumerate(case["members"]) if not m["mask"][j]] for j in range(0, size, step)], step


def _sub_plain(case, j, step, P):
    """the plain (unmasked) case made of the members `P` restricted to cell/row `j`"""
    sub = {"agg": case["agg"], "opts": case["opts"], "masked": False, "shape": [1] if step == 1 else [1, step],
           "weights": None if case["weights"] is None else [case["weights"][i] for i in P], "members": []}
    for i in P:
        m = case["members"][i]
        mm = {"data": m["data"][j * step:(j + 1) * step], "mask": [False] * step}
        for key in ("dtype", "scale_dtype"):
            if m.get(key):
                mm[key] = m[key]
        if "scale" in m:
            mm["scale"] = m["scale"][j * step:(j + 1) * step]
        sub["members"].append(mm)
    return sub


def _F(x):
    return Fraction(float(x))


def _py_check(it):
    """the Python statement of a checker clause, in exact arithmetic on the same floats (cross-check of the
    verified Lean checkers `checkSimplex` / `checkBetween` / `checkUncertainty` / `checkRange` / `checkTotalVariance`)"""
    tol = _F(it["tol"])
    k = it["k"]
    if k == "simplex":
        loc = [_F(x) for x in it["loc"]]
        return len(loc) == it["c"] and all(-tol <= x for x in loc) and sum(loc) - 1 <= tol and 1 - sum(loc) <= tol
    if k == "between":
        vals = [_F(y) for w, y in zip(it["ws"], it["ys"]) if y is not None]
        a = _F(it["a"])
        return any(v - tol <= a for v in vals) and any(a <= v + tol for v in vals)
    if k == "unc":
        hi, u, a, e = (_F(it[x]) for x in ("hi", "u", "a", "e"))
        return -tol <= u and u <= hi + tol and -tol <= a and -tol <= e and u - (a + e) <= tol and (a + e) - u <= tol
    if k == "range":
        hi, u = _F(it["hi"]), _F(it["u"])
        return -tol <= u and u <= hi + tol
    if k == "totvar":
        v, a, e = (_F(it[x]) for x in ("v", "a", "e"))
        return v - (a + e) <= tol and (a + e) - v <= tol
    raise ValueError(k)


def _item_wire(it):
    out = {}
    for key, v in it.items():
        if key in ("k", "c"):
            out[key] = v
        elif isinstance(v, list):
            out[key] = [None if x is None else rat(float(x)) for x in v]
        else:
            out[key] = rat(float(v))
    return out


def _how(nested):
    return {"seq": "from the element access of weights given as a collections.abc.Sequence",
            "array": "from the __array__ / __len__ of weights given as an array-like",
            "line": "at a source-line boundary of the call, as after a thread switch"}[nested["via"]] + \
        f", point {nested['at']}" + ("" if nested.get("pause") is None else
                                     f"; the other call is itself suspended before its source line {nested['pause']} "
                                     "until this call has returned")


def _reentrant(case, memo=None):
    """purity / re-entrancy: aggregate() is a function of (members, weights, options) at the time of the call - its
    result is the same when another aggregate() call on the same object runs while it is in progress, and that other
    call returns what it returns on an object of its own.  (`memo`: the two reference results, which do not depend on
    the schedule)"""
    nested = case["nested"]
    memo = {} if memo is None else memo
    _set_mag(case, nested["call"])
    ex = {}
    got = call(case, extra=ex)
    if not ex.get("fired"):
        return []
    if "alone" not in memo:
        memo["alone"] = call(dict(case, nested=None))
    r = _same(got, memo["alone"], _mode_tie(case))
    if r:
        return [("reentrant", "the result of the call changes when another aggregate() call on the same object runs "
                              f"while it is in progress ({_how(nested)}): " + r)]
    b = dict(nested["call"], agg=case["agg"], opts=case["opts"])
    if "own" not in memo:
        memo["own"] = call(b)
    r = _same(ex["nested"], memo["own"], _mode_tie(b))
    if r:
        return [("reentrant", "the result of an aggregate() call made while another call on the same object is in "
                              f"progress ({_how(nested)}) differs from the same call on an object of its own: " + r)]
    return []


def _canon_overlap(case):
    """when it is the OTHER call of the schedule whose result is wrong, look at the schedule from its side: that call
    with the first one running (completely, or suspended) during it"""
    _set_mag(case, case["nested"]["call"])
    ex = {}
    got = call(case, extra=ex)
    if not ex.get("fired") or _same(got, call(dict(case, nested=None)), _mode_tie(case)):
        return case
    sw = dict(case["nested"]["call"], agg=case["agg"], opts=case["opts"], perm=None,
              nested={"call": {k: case[k] for k in _CALL_KEYS}, "via": "line", "at": 0, "pause": None})
    return find_schedule(sw) or case


def oracle(case, only=None, items_out=None):
    """the property on the real code's outputs -> list of (clause, detail) or (clause, detail, subject): `subject` = the
    case the failure is to be reported on when it is not `case` itself (a valid call made by a clause - the present
    members of a cell aggregated alone - that raises: the replay is that call)"""
    if not _valid(case):
        return []
    if case.get("nested"):
        # the call made alone is judged by every clause; `reentrant` ties the overlapped run to the run made alone
        fails = [] if only == "reentrant" else oracle(dict(case, nested=None), only, items_out)
        if only is None or only == "reentrant":
            fails = fails + _reentrant(case)
        return fails
    agg, opts = case["agg"], case["opts"]
    n = len(case["members"])
    fails = []
    _set_mag(case)

    def want(clause):
        return only is None or only == clause

    def emit(clause, item, detail):
        """a clause decided by a verified checker: Python verdict here, Lean verdict through `items_out`"""
        flat = [x for v in item.values() for x in (v if isinstance(v, list) else [v]) if isinstance(x, (float, np.floating))]
        if not all(math.isfinite(x) for x in flat):
            # a NaN / inf in a real output: the clause fails outright (nothing to send to the exact checker)
            if not any(f[0] == clause for f in fails):
                fails.append((clause, detail + " [non-finite value in the implementation's output]"))
            return
        ok = _py_check(item)
        if items_out is not None:
            items_out.append((clause, detail, item, ok))
        if not ok and not any(f[0] == clause for f in fails):
            fails.append((clause, detail))

    base = call(case)
    if base[0] == "exc":
        return [("raises", f"{base[1]}: {base[2]}")] if want("raises") else []
    out = base[1]
    w = case["weights"]
    tie = _mode_tie(case)
    # -- every unmasked cell of every returned statistic is a finite number
    if want("non-finite-output"):
        for k_, (dv, mv) in out.items():
            bad = ~np.isfinite(dv) & ~np.broadcast_to(mv, dv.shape)
            if bad.any():
                j = int(np.argmax(bad.reshape(-1)))
                fails.append(("non-finite-output", f"{k_}[{j}] = {dv.reshape(-1)[j]!r}"))
                break
    # -- the result does not depend on what the aggregator object was used for before
    if case.get("history") and want("reuse-independent"):
        r = _same(base, call(dict(case, history=None)), tie)
        if r:
            fails.append(("reuse-independent", "same call on a fresh instance differs: " + r))
    # -- only the ratios of the weights matter: w and c*w (c a power of two, so c*w is exact) give the same outputs
    if w is not None and want("weight-scale-invariant"):
        for cfac in [2.0 ** e for e in case.get("wscales") or WSCALES]:
            r = _same(base, call(case, weights=[x * cfac for x in w]), tie)
            if r:
                fails.append(("weight-scale-invariant", f"weights {list(w)} vs the same weights times {cfac!r}: " + r))
                break
    # -- ModeAggregator: each present member casts ONE vote, for its first maximal class (np.argmax); the vote shares
    #    are the weighted average of these votes, the result is a class of maximal share, uncertainty = 1 - max share
    if agg == "mode" and want("mode-vote"):
        full = call(case, opts={"with_uncertainty": True})
        if full[0] == "ok":
            c = case["shape"][-1]
            locd, locm = full[1]["loc"]
            ud, um = full[1]["uncertainty"]
            locd, locm, ud, um = locd.reshape(-1), locm.reshape(-1), ud.reshape(-1), um.reshape(-1)
            for j in range(len(locd)):
                shares = [Fraction(0)] * c
                for i, m in enumerate(case["members"]):
                    if case["masked"] and m["mask"][j * c]:
                        continue
                    pr = m["data"][j * c:(j + 1) * c]
                    shares[pr.index(max(pr))] += Fraction(1) if w is None else Fraction(w[i])
                tot = sum(shares)
                if tot == 0 or locm[j] or um[j]:
                    continue
                shares = [x / tot for x in shares]
                k_ = int(locd[j])
                if not (0 <= k_ < c) or shares[k_] < max(shares) - Fraction(1, 10 ** 9) or not math.isfinite(ud[j]) or \
                        abs(Fraction(float(ud[j])) - (1 - max(shares))) > Fraction(1, 10 ** 9):
                    fails.append(("mode-vote", f"row {j}: mode {k_}, uncertainty {ud[j]!r}; one vote per present member "
                                               f"(first maximal class) gives shares {[float(x) for x in shares]}"))
                    break
    # -- uniform weights == no weights
    if want("uniform-eq-none"):
        r = _same(call(case, weights=None), call(case, weights=[case.get("uniform_c", 1.0)] * n),
                  _mode_tie(dict(case, weights=None)))
        if r:
            fails.append(("uniform-eq-none", r))
    # -- permuting members together with their weights
    if want("perm") and n > 1:
        p = case.get("perm") or list(range(n))[::-1]
        c2 = dict(case, members=[case["members"][i] for i in p], weights=None if w is None else [w[i] for i in p],
                  alias=[[p.index(i), p.index(j)] for i, j in case.get("alias") or []])
        r = _same(base, call(c2), tie)
        if r:
            fails.append(("perm", r))
    # -- the aggregated mean lies between the members' extremes
    if want("between"):
        d, mk = out["loc"]
        d, mk = d.reshape(-1), mk.reshape(-1)
        if agg != "mode":
            wl = [1.0] * n if w is None else list(w)
            for j in range(len(d)):
                ys = [None if m["mask"][j] else m["data"][j] for m in case["members"]]
                vals = [y for y in ys if y is not None]
                if not mk[j] and vals:
                    emit("between", {"k": "between", "tol": _TOL[0] * (1.0 + max(abs(v) for v in vals)), "ws": wl, "ys": ys,
                                     "a": d[j]},
                         f"loc[{j}]={d[j]!r} outside [{min(vals)}, {max(vals)}]")
    # -- masked entries are ignored
    if case["masked"] and (want("masked-ignored") or only == "raises"):
        cells, step = _present_cells(case)
        for j, P in enumerate(cells):
            bad = None
            got = {k: (v[0].reshape(len(cells), -1)[j], np.broadcast_to(v[1], v[0].shape).reshape(len(cells), -1)[j])
                   for k, v in out.items()}
            wp = None if w is None else [w[i] for i in P]
            if not P or (wp is not None and sum(wp) == 0):
                if not all(mk.all() for _, mk in got.values()):
                    bad = f"cell {j}: no member with non-zero weight is present, yet the output is not masked"
            else:
                sub = _sub_plain(case, j, step, P)
                ref = call(sub)
                if ref[0] == "exc":
                    # a valid plain call that raises: reported on that call
                    fails.append(("raises", f"{ref[1]}: {ref[2]} (the members {P} present at cell {j}, aggregated alone)", sub))
                    break
                else:
                    for k, (dv, mv) in got.items():
                        rv = ref[1][k][0].reshape(-1)
                        if k == "loc" and tie is not None and not mv.any() and tie(j, dv.reshape(-1)[0], rv[0]):
                            continue
                        if mv.any() or not all(_close(float(a), float(b)) for a, b in zip(dv.reshape(-1), rv)):
                            bad = (f"cell {j} {k}: {dv.reshape(-1).tolist()} (masked={bool(mv.any())}) but the present "
                                   f"members {P} alone give {rv.tolist()}")
                            break
            if bad:
                fails.append(("masked-ignored", bad))
                break
        # the data under a mask is irrelevant
        c3 = copy.deepcopy(case)
        for m in c3["members"]:
            m["data"] = [97.0 if mk else v for v, mk in zip(m["data"], m["mask"])]
            if "scale" in m:
                m["scale"] = [53.0 if mk else v for v, mk in zip(m["scale"], m["mask"])]
        r = _same(base, call(c3), tie)
        if r:
            fails.append(("masked-ignored", "changing the data under the masks changes the result: " + r))
    # -- class probabilities form a distribution
    if agg == "cat" and want("simplex"):
        d, mk = out["loc"]
        c = case["shape"][-1]
        d, mk = d.reshape(-1, c), mk.reshape(-1, c)
        for r_ in range(len(d)):
            if not mk[r_].any():
                emit("simplex", {"k": "simplex", "tol": _ctol(1e-9), "c": c, "loc": d[r_].tolist()}, f"row {r_}: {d[r_].tolist()}")
    # -- uncertainties in range, non-negative parts that add up
    if agg == "cat" and (want("uncertainty-range") or only == "raises"):
        c = case["shape"][-1]
        hi = (1 - 1 / c) if opts["uncertainty_method"] == "confidence" else math.log(c)
        tot = call(case, opts=dict(opts, decomposed_uncertainty=False))
        dec = call(case, opts=dict(opts, decomposed_uncertainty=True))
        if tot[0] == "exc" or dec[0] == "exc":
            fails.append(("raises", f"{(tot if tot[0] == 'exc' else dec)[1:]}"))
        else:
            u, um = tot[1]["uncertainty"]
            a, am = dec[1]["uncertainty_aleatoric"]
            e, _ = dec[1]["uncertainty_epistemic"]
            u, um, a, am, e = u.reshape(-1), um.reshape(-1), a.reshape(-1), am.reshape(-1), e.reshape(-1)
            for j in range(len(u)):
                if um[j] or am[j]:
                    continue
                emit("uncertainty-range", {"k": "unc", "tol": _ctol(1e-9), "hi": hi, "u": u[j], "a": a[j], "e": e[j]},
                     f"cell {j}: total={u[j]!r} (range [0, {hi}]), aleatoric={a[j]!r}, epistemic={e[j]!r}: out of range, "
                     f"negative part or total != aleatoric + epistemic")
    if agg == "mode" and opts["with_uncertainty"] and (want("mode-range") or only == "raises"):
        full = call(case, opts={"with_uncertainty": True})
        if full[0] == "exc":
            fails.append(("raises", f"{full[1:]}"))
        else:
            u, um = full[1]["uncertainty"]
            u, um = u.reshape(-1), um.reshape(-1)
            for j in range(len(u)):
                if not um[j]:
                    emit("mode-range", {"k": "range", "tol": 1e-9, "hi": 1.0, "u": u[j]},
                         f"uncertainty[{j}]={u[j]!r} outside [0, 1]")
    # -- normal members: mixture variance = aleatoric + epistemic variance, any weights
    if agg == "normal" and (want("total-variance") or only == "raises"):
        tot = call(case, opts={"decomposed_scale": False})
        dec = call(case, opts={"decomposed_scale": True})
        if tot[0] == "exc" or dec[0] == "exc":
            fails.append(("raises", f"{(tot if tot[0] == 'exc' else dec)[1:]}"))
        else:
            s, sm = tot[1]["scale"]
            a, am = dec[1]["scale_aleatoric"]
            e, em = dec[1]["scale_epistemic"]
            s, sm, a, am, e, em = (x.reshape(-1) for x in (s, sm, a, am, e, em))
            for j in range(len(s)):
                if sm[j] and am[j] and em[j]:
                    continue
                if sm[j] or am[j] or em[j]:
                    fails.append(("total-variance", f"cell {j}: masks differ total={sm[j]} alea={am[j]} epi={em[j]}"))
                    break
                v2, a2, e2 = float(s[j]) ** 2, float(a[j]) ** 2, float(e[j]) ** 2
                emit("total-variance", {"k": "totvar", "tol": _ctol(1e-10) * ((_MAG[0] ** 2 if _TOL[0] > TOL else 1.0) + abs(a2 + e2)), "v": v2, "a": a2, "e": e2},
                     f"cell {j}: scale^2={v2!r} but aleatoric^2+epistemic^2={a2 + e2!r}")
    return [f for f in fails if only is None or f[0] == only or f[0] == "raises"]


# --------------------------------------------------------------------------- malformed inputs

MALFORMED = {"mean": ["notArray", "emptyList"], "mode": ["notArray"], "cat": ["notArray", "badMethod"],
             "normal": ["emptyList", "missingLoc", "missingScale", "keysDiffer"]}
EXC_OF = {"notArray": "TypeError", "emptyInput": "ValueError", "missingLoc": "ValueError", "missingScale": "ValueError",
          "keysDiffer": "ValueError", "badMethod": "ValueError"}


def run_malformed(agg, kind):
    """inputs that are not lists of arrays: the explicit validation must refuse them -> exception type name | None"""
    import deephyper.ensemble.aggregator as A

    good = np.array([[0.25, 0.75]])
    try:
        if kind == "badMethod":
            A.MixedCategoricalAggregator(uncertainty_method="variance")
            return None
        inst = getattr(A, CLS[agg])()
        if kind == "notArray":
            y = [good, [[0.5, 0.5]]]
        elif kind == "emptyList":
            y = []
        elif kind == "missingLoc":
            y = [{"scale": good}, {"loc": good, "scale": good}]
        elif kind == "missingScale":
            y = [{"loc": good}, {"loc": good, "scale": good}]
        else:
            y = [{"loc": good, "scale": good}, {"loc": good, "scale": good, "extra": good}]
        inst.aggregate(y)
        return None
    except Exception as e:  # noqa: BLE001
        return type(e).__name__


# --------------------------------------------------------------------------- shrinking, fingerprints


def _wclass(w):
    if w is None:
        return "None"
    u = "uniform" if len(set(w)) == 1 else "nonuniform"
    return u + ("" if abs(sum(w) - 1) < 1e-9 else "-unnormalised")


def _fails(case, clause):
    try:
        return any(f[0] == clause for f in oracle(case, only=clause))
    except HarnessError:
        raise
    except Exception:  # a shrink candidate that is not a well-formed case
        return False


def _fails_at(case, clause):
    """the (possibly re-timed) candidate on which `clause` fails, or None.  A candidate with an overlapping call is
    tried at its own point first, then at every source-line boundary of the call (the point at which the other
    call has to run moves when options / weights / members change)"""
    if _fails(case, clause):
        return case
    if case.get("nested") and clause == "reentrant":
        return find_schedule(case)
    return None


_PAIR_SCANS = [0]


def find_schedule(case, budget=True):
    """a schedule of the two calls of `case` on which `reentrant` fails: the other call complete at every source-line
    boundary of the call; then, when the schedule of `case` suspends the other call (while shrinking: at most 25 such
    searches per run), suspended at each of its own lines as well"""
    try:
        if not _valid(case):
            return None
        memo = {}
        na = count_points(case, "line")
        for at in range(na):
            c2 = dict(case, nested=dict(case["nested"], via="line", at=at, pause=None))
            if _reentrant(c2, memo):
                return c2
        if case["nested"].get("pause") is None or (budget and _PAIR_SCANS[0] >= 25):
            return None
        _PAIR_SCANS[0] += budget
        b = dict(case["nested"]["call"], agg=case["agg"], opts=case["opts"])
        nb = count_points(b, "line")
        for pause in range(nb):
            for at in range(na):
                c2 = dict(case, nested=dict(case["nested"], via="line", at=at, pause=pause))
                if _reentrant(c2, memo):
                    return c2
    except HarnessError:
        raise
    except Exception:  # noqa: BLE001 - a shrink candidate that is not a well-formed case
        return None
    return None


def _drop_member(c2, i):
    del c2["members"][i]
    if c2["weights"] is not None:
        del c2["weights"][i]
    c2["perm"] = None
    c2["alias"] = [[a - (a > i), b - (b > i)] for a, b in c2.get("alias") or [] if i not in (a, b)]


def shrink(case, clause):
    case = copy.deepcopy(case)

    def attempt(c2):
        nonlocal case
        c3 = _fails_at(c2, clause)
        if c3 is not None:
            case = c3
            return True
        return False

    if case.get("nested") and clause != "reentrant":
        case["nested"] = None  # every other clause is judged on the call made alone
    for _ in range(4):  # until nothing changes: a step that fails on the large case may succeed on the reduced one
        before = canon(case)
        if case.get("history"):
            if not attempt(dict(copy.deepcopy(case), history=None)):
                i = 0
                while len(case["history"]) > 1 and i < len(case["history"]):
                    c2 = copy.deepcopy(case)
                    del c2["history"][i]
                    if not attempt(c2):
                        i += 1
                # the arguments of every call built afresh instead of overwritten in place
                if case.get("supply") == "inplace" or any(h.get("supply") == "inplace" for h in case["history"]):
                    c2 = copy.deepcopy(case)
                    c2["supply"] = "fresh"
                    for h in c2["history"]:
                        h["supply"] = "fresh"
                    attempt(c2)
        if case.get("nested") and case["nested"].get("pause") is not None:
            attempt(dict(copy.deepcopy(case), nested=dict(case["nested"], pause=None)))  # the other call complete
        if case.get("nested"):
            # the overlapping call: plain, unweighted, fewer members
            b = case["nested"]["call"]
            if b["masked"]:
                b2 = copy.deepcopy(b)
                b2["masked"] = False
                for m in b2["members"]:
                    m["mask"] = [False] * len(m["mask"])
                attempt(dict(copy.deepcopy(case), nested=dict(case["nested"], call=b2)))
            if case["nested"]["call"]["weights"] is not None:
                attempt(dict(copy.deepcopy(case), nested=dict(case["nested"], call=dict(copy.deepcopy(case["nested"]["call"]),
                                                                                       weights=None))))
            i = 0
            while len(case["nested"]["call"]["members"]) > 1 and i < len(case["nested"]["call"]["members"]):
                b2 = copy.deepcopy(case["nested"]["call"])
                del b2["members"][i]
                if b2["weights"] is not None:
                    del b2["weights"][i]
                if not attempt(dict(copy.deepcopy(case), nested=dict(case["nested"], call=b2))):
                    i += 1
        if case.get("nested") and case["nested"].get("pause") is not None:
            attempt(dict(copy.deepcopy(case), nested=dict(case["nested"], pause=None)))  # the other call complete
        if case.get("scribble"):
            attempt(dict(copy.deepcopy(case), scribble=False))
        if case.get("alias"):
            attempt(dict(copy.deepcopy(case), alias=[]))
        for key in ("ctor", "dtype", "scale_dtype"):  # ordinary arrays: a mask array for every MaskedArray member, float64
            if any(m.get(key) for m in case["members"]):
                c2 = copy.deepcopy(case)
                for m in c2["members"]:
                    m.pop(key, None)
                attempt(c2)
        # when the dtype is needed: one representative of its kind (integer / bool -> int64, float16 -> float32) if the
        # clause still fails, so that one defect of a whole kind of dtypes gets one fingerprint
        for key in ("dtype", "scale_dtype"):
            canon_dt = {d: "int64" for d in INT_DTYPES}
            canon_dt["float16"] = "float32"
            if any(canon_dt.get(m.get(key), m.get(key)) != m.get(key) for m in case["members"]):
                c2 = copy.deepcopy(case)
                for m in c2["members"]:
                    if m.get(key):
                        m[key] = canon_dt.get(m[key], m[key])
                attempt(c2)
        if case["masked"]:
            c2 = copy.deepcopy(case)
            c2["masked"] = False
            for m in c2["members"]:
                m["mask"] = [False] * len(m["mask"])
            attempt(c2)
        if case["weights"] is not None:
            attempt(dict(copy.deepcopy(case), weights=None)) or \
                attempt(dict(copy.deepcopy(case), weights=[1.0] * len(case["members"])))
        for k, v in DEFAULTS[case["agg"]].items():
            if case["opts"].get(k) != v:
                attempt(dict(copy.deepcopy(case), opts=dict(case["opts"], **{k: v})))
        i = 0
        while len(case["members"]) > 1 and i < len(case["members"]):
            c2 = copy.deepcopy(case)
            _drop_member(c2, i)
            if not attempt(c2):
                i += 1
        # a single cell / row
        step = 1 if case["agg"] in ("mean", "normal") else case["shape"][-1]
        size = int(np.prod(case["shape"])) if case["shape"] else 1
        if size > step:
            for j in range(size // step):
                c2 = copy.deepcopy(case)
                c2["shape"] = [1] if step == 1 else [1, step]
                for m in c2["members"]:
                    for key in ("data", "mask", "scale"):
                        if key in m:
                            m[key] = m[key][j * step:(j + 1) * step]
                if attempt(c2):
                    break
        if canon(case) == before:
            break
    return case


def fingerprint(case, clause):
    o = ",".join(f"{k}={v}" for k, v in sorted(case["opts"].items()) if DEFAULTS[case["agg"]].get(k) != v)
    hist = case.get("history") or []
    reused = ""
    if hist:
        kinds = sorted({"masked" if h["masked"] else "plain" for h in hist})
        reused = "reused-instance(after " + "+".join(kinds) + " call)"
        if case.get("supply") == "inplace" or any(h.get("supply") == "inplace" for h in hist):
            reused += ",arguments-overwritten-in-place"
    nested = ""
    if case.get("nested"):
        nested = "overlapping-call(" + ("masked" if case["nested"]["call"]["masked"] else "plain") + ")"
    # (the weights are not part of the class of a re-entrancy defect: which weights expose a call that works with
    # another call's state depends on the data of both calls)
    wcls = "" if clause == "reentrant" else f"weights={_wclass(case['weights'])}"
    dts = sorted({m["dtype"] for m in case["members"] if m.get("dtype")})
    arrays = ("dtype=" + "+".join(dts) if dts else "")
    sdts = sorted({m["scale_dtype"] for m in case["members"] if m.get("scale_dtype")})
    if sdts:
        arrays += ("," if arrays else "") + "scale-dtype=" + "+".join(sdts)
    if case["masked"] and any(m.get("ctor") == "nomask" and not any(m["mask"]) for m in case["members"]):
        arrays += ("," if arrays else "") + "member-with-mask=nomask"
    parts = [p for p in (o, wcls, "masked" if case["masked"] else "", arrays, reused, nested) if p]
    return f"C19|{clause}|{CLS[case['agg']]}.aggregate|{','.join(parts)}"


# --------------------------------------------------------------------------- run


def _nontrivial(case):
    return len(case["members"]) >= 2 and (case["weights"] is not None or case["masked"])


def _report(ck, case, fails):
    seen = set()
    for clause, detail, *subject in fails:
        if clause in seen:
            continue
        seen.add(clause)
        on = subject[0] if subject else case
        small = shrink(_canon_overlap(on) if clause == "reentrant" and on.get("nested") else on, clause)
        d2 = [f[1] for f in oracle(small, only=clause) if f[0] == clause]
        ck.fail(fingerprint(small, clause), f"{CLS[case['agg']]}: {clause} fails", small, d2[0] if d2 else detail)


_CASE_KEYS = ("agg", "opts", "shape", "masked", "members", "weights", "history", "supply", "alias", "scribble", "nested",
              "wscales")


def _check_cases(ck, cases, verbose=False):
    reals, reqs, pyfails, items, outs_ma = [], [], [], [], []
    for case in cases:
        ex = {}
        # L2 is made on the call made alone; an overlapped run is tied to it by the clause `reentrant`
        real = call(dict(case, nested=None) if case.get("nested") else case, extra=ex)
        reals.append(real)
        outs_ma.append(ex.get("out_ma"))
        reqs.append(lean_req(case, real))
        its = []
        pyfails.append(oracle(case, items_out=its))  # the property on the real outputs (Python side)
        items.append(its)
        reqs.append({"op": "check", "items": [_item_wire(it) for _, _, it, _ in its]})
        if ex.get("ids_reused"):
            ck.count("history:argument-ids-recycled-from-dead-arrays")
    with ck.driver() as d:
        reps = d.ask_all(reqs)
    for k, (case, real) in enumerate(zip(cases, reals)):
        rep, chk = reps[2 * k], reps[2 * k + 1]["res"]
        ck.case({k_: case.get(k_) for k_ in _CASE_KEYS if case.get(k_) is not None}, nontrivial=_nontrivial(case))
        if case.get("history"):
            ck.count(f"history:earlier-calls={len(case['history'])}")
            ck.count("history:" + "+".join(sorted({"masked" if h["masked"] else "plain" for h in case["history"]}))
                     + "->" + ("masked" if case["masked"] else "plain"))
            ck.count("history:arguments=" + (case.get("supply") or "fresh"))
        if case.get("alias"):
            ck.count("same-member-object-twice")
        if case.get("nested"):
            ck.count("overlap:via=" + case["nested"]["via"])
            ck.count("overlap:" + ("masked" if case["masked"] else "plain") + "<-" +
                     ("masked" if case["nested"]["call"]["masked"] else "plain"))
        ck.count("agg:" + case["agg"] + ":" + ",".join(f"{k_}={v}" for k_, v in sorted(case["opts"].items())))
        ck.count("weights:" + case.get("wkind", _wclass(case["weights"])))
        ck.count("masked" if case["masked"] else "plain")
        dts = sorted({m.get(k_) for m in case["members"] for k_ in ("dtype", "scale_dtype") if m.get(k_)})
        if dts:
            kinds = sorted({"int" if d_ in INT_DTYPES[:-1] else d_ for d_ in dts})
            how = "plain"
            if case["masked"]:
                how = "masked(" + ("entries-masked" if any(any(m["mask"]) for m in case["members"]) else "nothing-masked") + \
                    (",nomask-member" if any(m.get("ctor") == "nomask" and not any(m["mask"]) for m in case["members"]) else "") + ")"
            ck.count(f"dtype:{case['agg']}:{'+'.join(kinds)}:{how}")
        ck.count(f"members={len(case['members'])}")
        ck.count(f"ndim={len(case['shape'])}")
        ck.count("outcome:" + (real[1] if real[0] == "exc" else "returns"))
        ck.count("verified-checker-evaluations", len(chk))
        dis = compare_model(case, real, rep, outs_ma[k])
        if dis and real[0] == "exc" and rep.get("err") is None and _valid(case) and \
                any(f[0] == "raises" and len(f) == 2 for f in pyfails[k]):
            # a valid input on which the implementation raises: reported once, with its replay, by the clause `raises`
            ck.count("valid-input-raises(reported by the clause `raises`, not as a correspondence mismatch)")
            dis = None
        if dis and real[0] == "exc" and rep.get("err") is None and not _valid(case) and not case.get("nested"):
            # weights outside the oracle's domain (all zero: every cell of a masked result is masked) and the
            # implementation raises: when the same members raise the same exception with weights=None, it is the
            # members that are refused - a valid input that raises, reported by `raises` on that input
            alt = dict(case, weights=None)
            rs = [f for f in oracle(alt, only="raises") if f[0] == "raises" and len(f) == 2 and f[1].startswith(real[1])]
            if rs:
                ck.count("valid-input-raises(reported by the clause `raises`, not as a correspondence mismatch)")
                _report(ck, alt, rs[:1])
                dis = None
        if dis:
            ck.mismatch(case, dis)
        # L3: the verified checkers' verdicts (Lean) decide their clauses; the Python statement is the cross-check
        lean_fail = {}
        for (clause, detail, it, py_ok), lean_ok in zip(items[k], chk):
            if bool(lean_ok) != bool(py_ok):
                ck.mismatch(case, f"verified checker ({clause}: {lean_ok}) and Python oracle ({py_ok}) disagree on {it}")
            if not lean_ok:
                lean_fail.setdefault(clause, detail)
        checker_clauses = {c for c, _, _, _ in items[k]}
        fails = [f for f in pyfails[k] if f[0] not in checker_clauses] + list(lean_fail.items())
        if verbose:
            print("replay:", {"impl": real[0] if real[0] == "ok" else real, "model_vs_impl": dis or "agree",
                              "oracle": fails or "holds", "verified_checker_verdicts": chk})
        if fails:
            _report(ck, case, fails)


# --------------------------------------------------------------------------- real threads sharing one aggregator


def run_threads(sc):
    """every thread repeats its own calls on the ONE shared object; each result is compared at once with the result of
    the same call on an object of its own -> list of (thread, index of the call, text)"""
    base = {"agg": sc["agg"], "opts": sc["opts"]}
    specs = [[dict(c, **base) for c in th] for th in sc["threads"]]
    refs = [[call(c) for c in th] for th in specs]
    ties = [[_mode_tie(c) for c in th] for th in specs]
    args = [[(_members(c), None if c["weights"] is None else list(c["weights"])) for c in th] for th in specs]
    inst = _new_instance(base)
    _set_mag(*[c for th in specs for c in th])
    bad, lock = [], threading.Lock()
    bar = threading.Barrier(len(specs))

    def work(t):
        seen = set()
        bar.wait()
        with np.errstate(all="ignore"):
            for _ in range(sc.get("reps", 60)):
                for k, (ys, w) in enumerate(args[t]):
                    if k in seen:
                        continue
                    try:
                        got = ("ok", _norm(inst.aggregate(ys, w)))
                    except Exception as e:  # noqa: BLE001
                        got = ("exc", type(e).__name__, str(e)[:200])
                    r = _same(got, refs[t][k], ties[t][k])
                    if r:
                        seen.add(k)
                        with lock:
                            bad.append((t, k, r))

    old = sys.getswitchinterval()
    sys.setswitchinterval(1e-6)
    try:
        ths = [threading.Thread(target=work, args=(t,), daemon=True) for t in range(len(specs))]
        for th in ths:
            th.start()
        for th in ths:
            th.join()
    finally:
        sys.setswitchinterval(old)
    return sorted(bad)


def _check_threads(ck, sc, verbose=False):
    bad = run_threads(sc)
    ck.case({k: sc[k] for k in ("agg", "opts", "threads")}, nontrivial=True)
    ck.count(f"threads:{len(sc['threads'])}-threads-sharing-one-object")
    ck.count("threads:" + "+".join(sorted({"masked" if c["masked"] else "plain" for th in sc["threads"] for c in th})))
    if verbose:
        print("replay:", {"threads": len(sc["threads"]), "calls-with-a-wrong-result": bad or "none"})
    base = {"agg": sc["agg"], "opts": sc["opts"]}
    for t, k, text in bad:
        x = dict(sc["threads"][t][k], **base)
        # a deterministic replay: a call of another thread (complete, or suspended at one of its own lines) at a
        # source-line boundary of the failing call
        found = None
        others = [y for t2, th in enumerate(sc["threads"]) if t2 != t for y in th]

        def unmasked(y):
            return dict(y, masked=False, members=[dict(m, mask=[False] * len(m["mask"])) for m in y["members"]])

        # cheapest first: a call of another thread complete; the same call on plain arrays, complete (any failing
        # schedule is a witness - it need not be the one the threads happened to take); then suspended half-way
        tries = [(y, None) for y in others] + [(unmasked(y), None) for y in others if y["masked"]] + [(y, 0) for y in others]
        for y, pause in tries:
            found = find_schedule(dict(x, perm=None, nested={"call": y, "via": "line", "at": 0, "pause": pause}),
                                  budget=False)
            if found:
                break
        if found:
            _report(ck, found, [("reentrant", text)])
        else:
            kinds = "+".join(sorted({"masked" if c["masked"] else "plain" for th in sc["threads"] for c in th}))
            o = ",".join(f"{k_}={v}" for k_, v in sorted(sc["opts"].items()) if DEFAULTS[sc["agg"]].get(k_) != v)
            parts = [p for p in (o, f"weights={_wclass(x['weights'])}", "masked" if x["masked"] else "",
                                 f"threads({kinds})") if p]
            ck.fail(f"C19|concurrent-calls|{CLS[sc['agg']]}.aggregate|{','.join(parts)}",
                    f"{CLS[sc['agg']]}: a call on an aggregator object shared by {len(sc['threads'])} threads returns another "
                    f"result than the same call on an object of its own", sc,
                    f"thread {t}, call {k}: {text} (timing-dependent: the replay repeats the threaded run)")


def _corpus():
    import json
    from .common import VERIF

    out = []
    for f in sorted((VERIF / "corpus" / "C19").glob("*.json")):
        d = json.loads(f.read_text())
        out.append(d["case"] if "case" in d and "agg" not in d else d)
    return out


def run(ck):
    ck.rule = ("generated cases: aggregator x options x 1..8 members x shapes (0-D..3-D) x weights "
               "(None/uniform/normalised/raw/some zero/all zero/wrong length) x plain/masked (cell masks for "
               "mean/normal, row masks for categorical; fully masked members and cells); dyadic values; member arrays of every "
               "dtype that is a legal input (mean: integer / bool near the limits of the dtype, float32/16; categorical: hard "
               "one-hot rows in integer / bool dtypes, soft rows in float32/16; normal: whole-number loc in integer / bool "
               "dtypes with float64/32/16 scales, float32/16 loc+scale; mode: 0/1 votes, float32/16 probabilities; dtypes mixed "
               "between members) x plain / MaskedArray with a mask array / without a mask (nomask); weight-scale factors 2^e "
               "drawn per case (e in -12..-40, -41..-70, 1..40); "
               "plus histories: 2..4 aggregate() calls on ONE aggregator object mixing plain/masked inputs, member "
               "counts, shapes and weights, every call after the first judged like a call on a fresh instance; "
               "rounds: 2..5 calls with arguments of one class and shape, the argument objects (lists and arrays) "
               "overwritten in place or dropped and rebuilt (recycled ids), returned arrays overwritten by the caller, "
               "the same member object given twice; overlapping calls: a second call on the same object run from inside "
               "lazily evaluated weights (collections.abc.Sequence / __array__ array-like, k-th access) or at the k-th "
               "source line of the call (complete, or suspended at its own j-th line until the first call returned); "
               "real threads: 2..3 threads repeating 1..3 calls each on one shared object (switch interval 1e-6 s); "
               "distinct by canonical input; non-trivial = >=2 members and (weights given or masked)")
    ck.assumptions = [
        "IEEE rounding: model is exact over Rat, compared within 1e-12 (relative) on dyadic inputs; scales compared squared; "
        "cases with float32 / float16 members within 64 eps of the narrowest floating member dtype (values exactly "
        "representable; float16 normal members with scale >= 1)",
        "entropy: log is not modelled; H is a parameter (theorems need H >= 0 / concavity as hypotheses), its values are supplied to the model by the harness",
        "categorical aggregators: masks are row-wise (a member's class distribution for a sample is present or masked as a whole)",
        "normal members: scale > 0 in the generator (at zero total variance the code's E[x^2]-E[x]^2 can round below 0)",
        "np.argmax / np.max / np.ma.average are NumPy's; their results are compared, their code is not modelled",
        "overlapping calls: one of the two calls advances at a time, switches happen at source-line boundaries of the "
        "aggregator package (sys.settrace) or inside NumPy's conversion of the weights; finer interleavings only through "
        "the real-thread runs (timing-dependent, sound: a wrong result is a wrong result)",
    ]
    # malformed stream: the validation branches of aggregate() / the constructor (model: `validate`)
    mal = [(agg, kind) for agg, kinds in MALFORMED.items() for kind in kinds]
    with ck.driver() as d:
        reps = d.ask_all([{"op": "validate", "malformed": kind} for _, kind in mal])
    for (agg, kind), rep in zip(mal, reps):
        got = run_malformed(agg, kind)
        case = {"agg": agg, "malformed": kind}
        ck.case(case, nontrivial=False)
        ck.count(f"malformed:{agg}:{kind}:{got}")
        if got != EXC_OF[rep["err"]]:
            ck.mismatch(case, f"model: refused with {rep['err']} ({EXC_OF[rep['err']]}), impl: {got or 'accepted'}")
    cases = _corpus()
    ck.count("corpus", len(cases))
    n = ck.pick(3000, 40000)
    cases += [gen_case(ck.rng) for _ in range(n)]
    for _ in range(ck.pick(500, 7000)):
        cases += gen_history(ck.rng)
    for _ in range(ck.pick(250, 1500)):
        cases += gen_rounds(ck.rng)
    cases += [gen_nested(ck.rng) for _ in range(ck.pick(350, 2000))]
    _check_cases(ck, cases)
    for _ in range(ck.pick(24, 100)):
        _check_threads(ck, gen_threads(ck.rng))


def replay(ck, case):
    if "threads" in case:
        _check_threads(ck, case, verbose=True)
    else:
        _check_cases(ck, [case], verbose=True)
