"""C18 — forest surrogate: mean and uncertainty obey the law of total variance.

Real code: deephyper.skopt.learning.{RandomForestRegressor, ExtraTreesRegressor}.predict in its
three forms, on really fitted forests.  Per query point the harness extracts, per tree,
(tree.predict(x), tree.tree_.impurity[tree.apply(x)]) as exact fractions and the order in which the
threads accumulated; `Model/Forest.lean` computes the exact mean / variances.

L2: the model's three forms agree with their closed forms on the extracted pairs (means_agree,
    total_law, order_indep — what the theorems say; a `false` means model and proofs are out of sync).
L3 (the property on the implementation's outputs): finite, non-negative, the three means equal the
    exact arithmetic mean, total² = aleatoric² + epistemic², aleatoric² = average floored leaf variance,
    epistemic² = variance of the tree means, n_jobs=1 vs n_jobs=4 agree, the `d` acquisitions use the
    epistemic part only.  Float tolerance: variances absolute <= max(64, 2n+8)·eps·(aleatoric + E[m_t²])
    (relative to the second moment: E[m²] − mean² cancels catastrophically), means <= 4·n·eps·mean|m_t|.
"""
import math
import threading

import numpy as np

from .common import rat

EPS = 2.0 ** -52


# --------------------------------------------------------------------------- generator


def _gen_case(rng, thorough):
    """One fitted-forest configuration over the property's quantifier (compact: data come from a seed)."""
    cls = rng.choice(["RF", "RF", "ET"])
    n = rng.choice([2, 2, 3, 4, 5, 8, 13, 20, 35, 60] + ([100, 150, 200] if thorough or rng.random() < 0.15 else []))
    d = rng.randint(1, 6)
    kind = rng.choice(["gauss", "gauss", "const", "dupX", "dupXY", "huge", "tiny", "mixedscale", "ints", "offset"])
    kw = {
        "n_estimators": rng.choice([1, 1, 2, 3, 5, 10, 20, 50]) if rng.random() < 0.8 else rng.randint(1, 50),
        "bootstrap": rng.random() < 0.5,
        "min_samples_split": rng.choice([2, 2, 3, 5, 10, 0.5]),
        "min_variance": rng.choice([0.0, 0.0, 1e-3, 1e-12, 2.5, 1e6]),
        "max_features": rng.choice([1.0, "sqrt", 1]),
        "min_samples_leaf": rng.choice([1, 1, 1, 2, 5]),
        "max_depth": rng.choice([None, None, None, 1, 3]),
    }
    if cls == "RF":
        kw["splitter"] = rng.choice(["best", "random"])
        if kw["bootstrap"] and rng.random() < 0.4:
            kw["max_samples"] = rng.choice([0.8, 0.5])
    return {"cls": cls, "n": n, "d": d, "kind": kind, "kw": kw, "seed": rng.randrange(1 << 30),
            "nq": rng.choice([3, 6, 10])}


def _data(case):
    r = np.random.RandomState(case["seed"])
    n, d, kind = case["n"], case["d"], case["kind"]
    X = r.rand(n, d)
    y = r.randn(n)
    if kind == "const":
        y[:] = r.choice([3.0, 0.0, -1e9, 0.1 + 0.2])
    elif kind == "dupX":
        X[n // 2:] = X[: n - n // 2]
    elif kind == "dupXY":
        X[n // 2:] = X[: n - n // 2]
        y[n // 2:] = y[: n - n // 2]
    elif kind == "huge":
        y = y * 10.0 ** r.randint(6, 120)
    elif kind == "tiny":
        y = y * 10.0 ** (-r.randint(6, 120))
    elif kind == "mixedscale":
        y = y * 10.0 ** r.randint(-8, 8, size=n)
    elif kind == "ints":
        X = r.randint(0, 4, size=(n, d)).astype(float)
        y = r.randint(-3, 4, size=n).astype(float)
    elif kind == "offset":
        y = y * 10.0 ** (-r.randint(0, 6)) + 10.0 ** r.randint(3, 9)
    # queries: training points (interpolation), fresh points, points outside the hull
    nq = case["nq"]
    Q = np.vstack([X[r.randint(0, n, size=max(1, nq // 3))], r.rand(nq - max(1, nq // 3) - 1, d) if nq - max(1, nq // 3) - 1 > 0 else np.zeros((0, d)),
                   r.rand(1, d) * 10 - 5])
    return X, y, Q


# --------------------------------------------------------------------------- real code + observation


class _OrderSpy:
    """wraps forest._accumulate_prediction*: serialises the calls and records the tree order"""

    def __init__(self, mod):
        self.mod = mod
        self.lock = threading.Lock()
        self.order = []
        self.index = {}
        self.orig = (mod._accumulate_prediction, mod._accumulate_prediction_disentangled)

    def _wrap(self, f):
        def g(tree, X, min_variance, out, lock):
            with self.lock:
                self.order.append(self.index.get(id(tree), -1))
                return f(tree, X, min_variance, out, lock)
        return g

    def __enter__(self):
        self.mod._accumulate_prediction = self._wrap(self.orig[0])
        self.mod._accumulate_prediction_disentangled = self._wrap(self.orig[1])
        return self

    def __exit__(self, *a):
        self.mod._accumulate_prediction, self.mod._accumulate_prediction_disentangled = self.orig

    def take(self):
        o, self.order = self.order, []
        return o


def _fit(case):
    from deephyper.skopt.learning import ExtraTreesRegressor, RandomForestRegressor

    X, y, Q = _data(case)
    kw = dict(case["kw"])
    cls = RandomForestRegressor if case["cls"] == "RF" else ExtraTreesRegressor
    m = cls(random_state=case["seed"] % 100000, n_jobs=1, **kw).fit(X, y)
    return m, X, y, Q


def _fp(clause, case, opts=""):
    cls = "RandomForestRegressor" if case["cls"] == "RF" else "ExtraTreesRegressor"
    return f"C18|{clause}|{cls}.predict|{opts}"


def _observe(ck, case, spy):
    """returns (request, meta) or None when the oracle already failed without needing the model"""
    m, X, y, Q = _fit(case)
    trees = m.estimators_
    n = len(trees)
    spy.index = {id(t): i for i, t in enumerate(trees)}
    tm = np.array([t.predict(Q) for t in trees], dtype=float)  # (n, nq)
    tv = np.array([t.tree_.impurity[t.apply(Q)] for t in trees], dtype=float)
    outs = {}
    for nj in (1, 4):
        m.set_params(n_jobs=nj)
        mu0 = np.asarray(m.predict(Q), dtype=float)
        spy.take()
        mu1, sd = m.predict(Q, return_std=True)
        o_std = spy.take()
        mu2, al, ep = m.predict(Q, return_std=True, disentangled_std=True)
        o_dis = spy.take()
        outs[nj] = (mu0, np.asarray(mu1), np.asarray(sd), np.asarray(mu2), np.asarray(al), np.asarray(ep), o_std, o_dis)
    m.set_params(n_jobs=1)
    ck.count(f"cls:{case['cls']}")
    ck.count(f"kind:{case['kind']}")
    ck.count(f"trees:{'1' if n == 1 else '2-5' if n <= 5 else '6-20' if n <= 20 else '21-50'}")
    ck.count(f"bootstrap:{case['kw']['bootstrap']}")
    ck.count(f"splitter:{case['kw'].get('splitter', 'ET')}")
    ck.count(f"minvar:{case['kw']['min_variance']}")
    ck.count("order_n_jobs4:" + ("identity" if outs[4][6] == list(range(n)) else "permuted"))
    bad = False
    for nj, o in outs.items():
        arrs = o[:6]
        if not all(np.all(np.isfinite(a)) for a in arrs):
            ck.fail(_fp("finite", case), "a predicted mean / std is not finite", case, {"n_jobs": nj, "out": [a.tolist() for a in arrs]})
            bad = True
        elif any(np.any(a < 0) for a in arrs[2:3] + arrs[4:6]):
            ck.fail(_fp("nonneg", case), "a predicted std is negative", case, {"n_jobs": nj})
            bad = True
        if sorted(o[6]) != list(range(n)) or sorted(o[7]) != list(range(n)):
            from .common import HarnessError
            raise HarnessError(f"order spy saw {o[6]} / {o[7]} for {n} trees")
    if bad:
        return None
    if not (np.all(np.isfinite(tm)) and np.all(np.isfinite(tv))):
        ck.fail(_fp("finite", case, "tree-output"), "a tree's own prediction / impurity is not finite", case)
        return None
    tolv = max(64, 2 * n + 8) * EPS
    tolm = 4 * n * EPS
    reqs = []
    for nj in (1, 4):
        mu0, mu1, sd, mu2, al, ep, o_std, o_dis = outs[nj]
        pts = []
        for j in range(len(Q)):
            pts.append({"trees": [[rat(tm[i, j]), rat(tv[i, j])] for i in range(n)],
                        "got": [rat(mu0[j]), rat(mu1[j]), rat(sd[j]), rat(mu2[j]), rat(al[j]), rat(ep[j])]})
        reqs.append({"op": "forest", "minvar": rat(float(m.min_variance)), "order": [int(i) for i in (o_std if nj == 4 else o_dis)],
                     "tolv": rat(tolv), "tolm": rat(tolm), "points": pts})
    # the `d` acquisitions must use the epistemic part only (n_jobs=1: same accumulation order => same doubles)
    from deephyper.skopt.acquisition import _gaussian_acquisition

    kappa = 1.96
    mu1, sd = m.predict(Q, return_std=True)
    mu2, al, ep = m.predict(Q, return_std=True, disentangled_std=True)
    lcb = _gaussian_acquisition(Q, m, acq_func="LCB", acq_func_kwargs={"kappa": kappa})
    lcbd = _gaussian_acquisition(Q, m, acq_func="LCBd", acq_func_kwargs={"kappa": kappa})
    if not np.array_equal(lcbd, mu2 - kappa * ep):
        ck.fail("C18|d-acquisition-epistemic|_gaussian_acquisition(LCBd)|", "LCBd is not mean - kappa * epistemic std", case,
                {"lcbd": lcbd.tolist(), "want": (mu2 - kappa * ep).tolist()})
    if not np.array_equal(lcb, mu1 - kappa * sd):
        ck.fail("C18|acquisition-total|_gaussian_acquisition(LCB)|", "LCB is not mean - kappa * total std", case)
    ck.count("acq_d_checked")
    aleatoric_zero = bool(np.all(tv <= 0))
    nontrivial = n >= 2 and not np.all(tm == tm[0]) or (not aleatoric_zero)
    return reqs, {"case": case, "n": n, "nq": len(Q), "nontrivial": bool(nontrivial), "outs": {nj: [a.tolist() for a in o[:6]] for nj, o in outs.items()}}


def _judge(ck, meta, reps):
    case = meta["case"]
    for nj, rep in zip((1, 4), reps):
        for j, p in enumerate(rep["points"]):
            if not (p["means_agree"] and p["total_law"] and p["order_indep"]):
                ck.mismatch(case, {"what": "model contradicts its own theorems (C18_mean / C18_total / C18_order)", "point": j, "reply": p})
            det = {"n_jobs": nj, "query": j, "impl": [meta["outs"][nj][k][j] for k in range(6)],
                   "model": {k: (float(_fr(p[k]))) for k in ("mean", "var", "al", "ep", "scale")}}
            opts = f"n_jobs={nj}" if nj != 1 else ""
            if not all(p["mean_ok"]):
                which = ["predict(X)", "return_std", "disentangled"][p["mean_ok"].index(False)]
                ck.fail(_fp("mean-is-average", case, opts), f"mean from {which} is not the average of the tree predictions", case, det)
            if not p["nonneg"]:
                ck.fail(_fp("nonneg", case, opts), "a predicted std is negative", case, det)
            if not p["sum_ok"]:
                ck.fail(_fp("total-law", case, opts), "total variance != aleatoric + epistemic variance", case, det)
            if not p["al_ok"]:
                ck.fail(_fp("aleatoric-is-mean-leaf-variance", case, opts), "aleatoric part is not the average (floored) within-leaf variance", case, det)
            if not p["ep_ok"]:
                ck.fail(_fp("epistemic-is-variance-of-tree-means", case, opts), "epistemic part is not the variance of the tree means", case, det)
            if not p["var_ok"]:
                ck.fail(_fp("total-is-al+ep-exact", case, opts), "total variance differs from the exact total variance", case, det)
    # n_jobs independence beyond summation order: both runs are within tolerance of the same exact value
    # (checked above); additionally the two runs must agree with each other within twice the tolerance
    o1, o4 = meta["outs"][1], meta["outs"][4]
    rep = reps[0]
    for j, p in enumerate(rep["points"]):
        scale = float(_fr(p["scale"]))
        tolv = max(64, 2 * meta["n"] + 8) * EPS * scale * 2
        for k in (2, 4, 5):
            if abs(o1[k][j] ** 2 - o4[k][j] ** 2) > tolv * (1 + 1e-9):
                ck.fail(_fp("n_jobs-independent", case, "n_jobs=4"), "n_jobs=1 and n_jobs=4 predictions differ beyond summation order", case,
                        {"query": j, "k": k, "n_jobs1": o1[k][j], "n_jobs4": o4[k][j]})


def _fr(s):
    from .common import unrat

    return unrat(s)


def _load_corpus():
    import json
    from .common import VERIF

    out = []
    d = VERIF / "corpus" / "C18"
    if d.is_dir():
        for f in sorted(d.glob("*.json")):
            data = json.loads(f.read_text())
            out.append(data.get("case", data))
    return out


def run(ck):
    import deephyper.skopt.learning.forest as forest

    ck.rule = ("fitted forests over the quantifier: RandomForestRegressor / ExtraTreesRegressor x 2..200 points x 1..6 features x target kind "
               "(gauss, constant, duplicated X, duplicated rows, huge 1e6..1e120, tiny 1e-6..1e-120, mixed scale, integer grid, large offset) x "
               "n_estimators 1..50 x splitter x bootstrap x max_samples x min_samples_split x min_samples_leaf x max_depth x max_features x "
               "min_variance {0,1e-12,1e-3,2.5,1e6} x n_jobs {1,4}; 3-10 query points each (training points, fresh points, outside the hull); "
               "distinct by generator parameters; non-trivial = at least two trees with different predictions or a non-zero leaf variance")
    ck.assumptions = [
        "scikit-learn's tree fitting is not modelled: the per-tree (prediction, leaf impurity) pairs are extracted from the fitted trees and are inputs of the model",
        "float tolerance: variances within max(64, 2n+8)*eps*(aleatoric + E[m_t^2]) absolute (first-order rounding bound of the accumulation is (1.5n+2)*eps of that scale), means within 4*n*eps*mean|m_t|",
        "the accumulation order of the n_jobs threads is observed by serialising _accumulate_prediction* under an outer lock; the theorems hold for every order",
        "min_variance and impurity are finite doubles",
    ]
    ck.trusted_extra = ["scikit-learn DecisionTreeRegressor.predict / apply / tree_.impurity (used to extract the per-tree pairs)"]
    cases = _load_corpus()
    ncase = ck.pick(140, 1500)
    cases += [_gen_case(ck.rng, ck.thorough) for _ in range(ncase)]
    reqs, metas = [], []
    with _OrderSpy(forest) as spy:
        for case in cases:
            try:
                got = _observe(ck, case, spy)
            except ValueError as e:
                # scikit-learn rejecting a parameter combination is outside the property (not a fitted forest)
                ck.count("sklearn-rejected:" + str(e)[:40])
                continue
            if got is None:
                ck.case(case, nontrivial=True)
                continue
            r, meta = got
            ck.case(case, nontrivial=meta["nontrivial"])
            ck.count("query_points", meta["nq"] * 2)
            reqs.append(r)
            metas.append(meta)
    flat = [x for r in reqs for x in r]
    with ck.driver() as d:
        reps = d.ask_all(flat)
    for k, meta in enumerate(metas):
        _judge(ck, meta, reps[2 * k: 2 * k + 2])


def replay(ck, case):
    import deephyper.skopt.learning.forest as forest

    with _OrderSpy(forest) as spy:
        got = _observe(ck, case, spy)
    ck.case(case)
    if got is None:
        print("replay: the oracle fails before the model is needed (non-finite / negative output)")
        return
    r, meta = got
    with ck.driver() as d:
        reps = d.ask_all(r)
    _judge(ck, meta, reps)
    print("replay:", {"impl": meta["outs"], "failures": [f["fingerprint"] for f in ck.failures]})
