"""C18 — forest surrogate: mean and uncertainty obey the law of total variance.

Real code: deephyper.skopt.learning.{RandomForestRegressor, ExtraTreesRegressor}.predict in its
three forms, on really fitted forests.  Per query point the harness extracts, per tree,
(tree.predict(x), tree.tree_.impurity[tree.apply(x)]) as exact fractions and the order in which the
threads accumulated; `Model/Forest.lean` computes the exact mean / variances.

L2: the model's three forms agree with their closed forms on the extracted pairs (means_agree,
    total_law, order_indep — what the theorems say; a `false` means model and proofs are out of sync).
L3 (the property on the implementation's outputs): finite, non-negative, the three means equal the
    exact arithmetic mean, total² = aleatoric² + epistemic², aleatoric² = average floored leaf variance,
    epistemic² = variance of the tree means, n_jobs=1 vs n_jobs=4 agree, the `d` acquisitions use the
    epistemic part only.  Float tolerance: variances absolute <= max(64, 2n+8)·eps·(aleatoric + E[m_t²])
    (relative to the second moment: E[m²] − mean² cancels catastrophically), means <= 4·n·eps·mean|m_t|.

Query side (the property quantifies over every query): every step of a history predicts on its own query OBJECT
— rows of the same pool as float64 / float32 / float16 / longdouble / integer / bool / object arrays, nested lists,
tuples, DataFrames, C / Fortran / column- or row-strided / reversed views, read-only arrays, single-row and
two-row batches.  The per-tree ground truth is taken with the SAME object (scikit-learn's trees cast it to
float32 themselves), and the returned mean / stds must match the exact model within the same float64 tolerance
whatever the query's dtype or layout: the accumulation happens in float64 (tree.predict and tree_.impurity are
float64), never in the dtype of the query.

Environment side (the property quantifies over every call, wherever the caller makes it): every step runs its predict calls
inside its own joblib context - none, `parallel_config` / `parallel_backend` with the threading / loky / multiprocessing /
sequential backend, with or without an `n_jobs` of the context - with the forest's `n_jobs` in {None, 1, 2, 3, 4}.  joblib's
backend resolution is inside the Lean model (`resolve`, `C18_env`: with `require="sharedmem"` the tasks always run where the
caller's arrays are, so the environment cannot matter) and is compared with where the accumulate calls were seen to run.

Kept arrays: every array a predict call returned is kept together with a snapshot of its content at return time; after every later
call (same forest, a second forest, the acquisition functions) the kept arrays must still hold what was returned
(`returned-arrays-stable`) - a caller who compares the predictions of two queries or two forests keeps them.
"""
import contextlib
import math
import os
import pickle
import threading

import numpy as np

from .common import HarnessError, REPO, VERIF, rat, unrat

EPS = 2.0 ** -52


# --------------------------------------------------------------------------- generator


def _gen_case(rng, thorough):
    """One fitted-forest configuration over the property's quantifier (compact: data come from a seed)."""
    cls = rng.choice(["RF", "RF", "ET"])
    n = rng.choice([2, 2, 3, 4, 5, 8, 13, 20, 35, 60] + ([100, 150, 200] if thorough or rng.random() < 0.15 else []))
    d = rng.randint(1, 6)
    kind = rng.choice(["gauss", "gauss", "const", "dupX", "dupXY", "huge", "tiny", "huge", "tiny", "mixedscale", "ints", "offset"])
    # target scale 10^exp: half of the scaled cases at the moderate 1e-7..1e-12 / 1e7..1e12, the rest out to 1e+-120
    exp = None
    if kind in ("huge", "tiny"):
        e = rng.randint(6, 12) if rng.random() < 0.6 else rng.randint(13, 120)
        exp = e if kind == "huge" else -e
    kw = {
        "n_estimators": rng.choice([1, 2, 3, 5, 5, 7, 10, 10, 20, 50]) if rng.random() < 0.8 else rng.randint(1, 50),
        "bootstrap": rng.random() < 0.5,
        "min_samples_split": rng.choice([2, 2, 3, 5, 10, 0.5]),
        "min_variance": rng.choice([0.0, 0.0, 1e-3, 1e-12, 2.5, 1e6]),
        "max_features": rng.choice([1.0, "sqrt", 1]),
        "min_samples_leaf": rng.choice([1, 1, 1, 2, 5]),
        "max_depth": rng.choice([None, None, None, 1, 3]),
    }
    if cls == "RF":
        kw["splitter"] = rng.choice(["best", "random"])
        if kw["bootstrap"] and rng.random() < 0.4:
            kw["max_samples"] = rng.choice([0.8, 0.5])
    case = {"cls": cls, "n": n, "d": d, "kind": kind, "kw": kw, "seed": rng.randrange(1 << 30),
            "nq": rng.choice([3, 6, 10]), "n_jobs0": rng.choice([1, 1, 1, 4, 3, 2, None])}
    if exp is not None:
        # min_variance floors on the scale of the targets' variance (an aleatoric floor of 1e-3 would swamp a tiny-scale forest and
        # make every statement about its epistemic part vacuous in doubles); several disagreeing trees
        case["exp"] = exp
        s2 = 10.0 ** (2 * exp)
        case["minvars"] = [0.0, 0.0, s2 * 1e-3, s2 * 1e-6, s2 * 10.0]
        kw["min_variance"] = rng.choice(case["minvars"])
        if kw["n_estimators"] < 3 and rng.random() < 0.8:
            kw["n_estimators"] = rng.choice([5, 7, 10, 20])
    case["query"] = _gen_query(rng, 0.45)
    case["env"] = _gen_env(rng, 0.6)
    case["history"] = _gen_history(rng, case)
    return case


# The ENVIRONMENT of a predict call: the joblib context that is active around it in the caller's code
# (`with joblib.parallel_config(backend=..., n_jobs=...)` / the older `joblib.parallel_backend(...)`).  The forest passes
# its own `n_jobs` and call-level hints to `joblib.Parallel`; which backend runs the per-tree tasks and with how many workers is
# decided by joblib from BOTH (Model/Forest.lean `resolve`).  `prefer=` of the context is not part of the dimension: with
# `parallel_config(prefer="processes")` joblib itself rejects every `require="sharedmem"` call (scikit-learn's own forests
# included) as "inconsistent settings" - a configuration conflict of the caller, not a prediction.
ENV_BACKENDS = [None, "threading", "loky", "loky", "multiprocessing", "multiprocessing", "sequential"]
PROCESS_BACKENDS = ("loky", "multiprocessing")


def _gen_env(rng, p_default):
    """None = no joblib context around the call"""
    if rng.random() < p_default:
        return None
    env = {"backend": rng.choice(ENV_BACKENDS), "n_jobs": rng.choice([None, None, 2, 4])}
    if env["backend"] is None and env["n_jobs"] is None:
        env["n_jobs"] = 4
    if env["backend"] is not None and rng.random() < 0.3:
        # the legacy API: its n_jobs defaults to -1 (all CPUs) when not given; given explicitly for the process backends
        # (one worker process per CPU is nothing a changed tree should be made to pay for on a loaded machine)
        env["api"] = "parallel_backend"
        if env["backend"] in PROCESS_BACKENDS and env["n_jobs"] is None:
            env["n_jobs"] = rng.choice([2, 4])
    return {k: v for k, v in env.items() if v is not None}


def _ctx_jobs(env):
    """the n_jobs the joblib context carries: unset = None, except the legacy `parallel_backend`, whose n_jobs defaults to -1"""
    env = env or {}
    if env.get("n_jobs") is not None:
        return int(env["n_jobs"])
    return -1 if env.get("api") == "parallel_backend" else None


def _cpus():
    import joblib

    return int(joblib.cpu_count())


def _ambient(env):
    """the context manager of environment spec `env`"""
    if not env:
        return contextlib.nullcontext()
    import joblib

    _workers_see_the_tree_under_test()
    kw = {"n_jobs": env["n_jobs"]} if env.get("n_jobs") is not None else {}
    if env.get("api") not in (None, "parallel_config", "parallel_backend"):
        raise HarnessError(f"unknown joblib context api {env}")
    try:  # building the context is the harness's business: a failure here is never attributed to the code under test
        if env.get("api") == "parallel_backend":
            return joblib.parallel_backend(env["backend"], **kw)
        if env.get("backend") is not None:
            kw["backend"] = env["backend"]
        return joblib.parallel_config(**kw)
    except Exception as e:  # noqa: BLE001
        raise HarnessError(f"cannot build the joblib context {env}: {type(e).__name__}: {e}")


def _workers_see_the_tree_under_test():
    """worker PROCESSES of a joblib backend (started only if the code under test lets a process backend run its tasks; the
    unchanged tree never does: require="sharedmem") must import deephyper from the tree under test, like this process"""
    src = str(REPO / "src")
    pp = os.environ.get("PYTHONPATH", "")
    if pp.split(os.pathsep)[0] != src:
        os.environ["PYTHONPATH"] = src + (os.pathsep + pp if pp else "")


def _esig(env):
    return "default" if not env else ",".join(f"{k}={env[k]}" for k in sorted(env))


def _requested_jobs(n_jobs, env):
    """the degree of parallelism the caller asked for: the forest's n_jobs, else the context's, else 1"""
    n = n_jobs if isinstance(n_jobs, int) and not isinstance(n_jobs, bool) else _ctx_jobs(env)
    if n is None:
        return 1
    return max(_cpus() + 1 + n, 1) if n < 0 else n


QDTYPES = ["f32", "f32", "f32", "f32", "f16", "f16", "i64", "i32", "i8", "u8", "bool", "f64", "f64", "f128", "obj"]
QLAYOUTS = ["C", "C", "C", "F", "colstride", "rowstride", "reversed", "list", "tuples", "df"]


def _gen_query(rng, p_default):
    """The query OBJECT handed to predict: None = the float64 C-contiguous pool itself."""
    if rng.random() < p_default:
        return None
    q = {"dtype": rng.choice(QDTYPES), "layout": rng.choice(QLAYOUTS)}
    if rng.random() < 0.25 and q["layout"] not in ("list", "tuples", "df"):
        q["readonly"] = True
    r = rng.random()
    if r < 0.2:
        q["rows"] = "one"
    elif r < 0.3:
        q["rows"] = "two"
    elif r < 0.4:
        q["rows"] = "tail"
    if rng.random() < 0.25:
        q["shift"] = True   # another batch of the same length: other content at every position
    return q


_NP_DTYPES = {"f64": np.float64, "f32": np.float32, "f16": np.float16, "f128": np.longdouble, "i64": np.int64, "i32": np.int32,
              "i8": np.int8, "u8": np.uint8, "bool": np.bool_, "obj": object}


def _make_query(Q, q):
    """Build the query object of spec `q` from the float64 pool `Q` (rows x features)."""
    if not q:
        return Q
    A = Q
    if q.get("shift"):
        A = np.roll(A, 1, axis=0) + 0.3
    rows = q.get("rows", "all")
    if rows == "one":
        A = A[len(A) // 2: len(A) // 2 + 1]
    elif rows == "two":
        A = A[[0, len(A) - 1]]
    elif rows == "tail":
        A = A[1:]
    dt = q.get("dtype", "f64")
    if dt not in _NP_DTYPES:
        raise HarnessError(f"unknown query dtype {dt}")
    if dt in ("i64", "i32", "i8", "u8"):
        A = np.round(np.abs(A) * 3.0).astype(_NP_DTYPES[dt])
    elif dt == "bool":
        A = A > 0.5
    else:
        A = A.astype(_NP_DTYPES[dt])
    lay = q.get("layout", "C")
    n, d = A.shape
    if lay == "C":
        A = np.ascontiguousarray(A)
    elif lay == "F":
        A = np.asfortranarray(A)
    elif lay == "colstride":
        big = np.zeros((n, 2 * d), dtype=A.dtype)
        big[:, ::2] = A
        A = big[:, ::2]
    elif lay == "rowstride":
        big = np.zeros((2 * n, d), dtype=A.dtype)
        big[::2] = A
        A = big[::2]
    elif lay == "reversed":
        A = np.ascontiguousarray(A[::-1])[::-1]
    elif lay == "list":
        A = A.tolist()
    elif lay == "tuples":
        A = [tuple(r) for r in A.tolist()]
    elif lay == "df":
        import pandas as pd

        A = pd.DataFrame(A)
    else:
        raise HarnessError(f"unknown query layout {lay}")
    if q.get("readonly") and isinstance(A, np.ndarray):
        A.setflags(write=False)
    return A


def _qsig(q):
    return "default" if not q else ",".join(f"{k}={q[k]}" for k in sorted(q))


MINVARS = [0.0, 1e-12, 1e-3, 2.5, 1e6, 7.0]
FORMS = ["plain", "std", "dis"]


def _gen_history(rng, case):
    """Short op script on ONE fitted forest.  After the fit and after every op all three predict forms are
    called (in the op's `forms` order) and judged with the parameters in force at that moment."""
    def forms():
        f = FORMS[:]
        rng.shuffle(f)
        return f

    hist = [{"op": "fit", "forms": forms()}]
    nj = case["n_jobs0"]
    style = rng.choice(["njobs", "njobs", "minvar", "minvar", "mixed", "mixed", "lifecycle", "kept"])
    k = rng.choice([1, 2, 2, 3]) if style != "njobs" else 1
    for _ in range(k):
        if style == "njobs":
            op = {"op": "set_params", "n_jobs": 4 if nj in (1, None) else rng.choice([1, 4, None])}
        elif style == "minvar":
            mv = rng.choice([v for v in case.get("minvars", MINVARS) if v != case["kw"]["min_variance"]] or [0.0])
            op = {"op": rng.choice(["set_params", "setattr"]), "min_variance": mv}
        elif style == "lifecycle":
            op = {"op": rng.choice(["clone_refit", "pickle", "predict", "other"])}
            if op["op"] in ("predict", "other"):
                op["form"] = rng.choice(FORMS)
        elif style == "kept":
            # the caller keeps what an earlier query returned while the same / another forest answers further queries
            op = {"op": rng.choice(["other", "other", "predict"]), "form": rng.choice(["std", "dis", "std", "dis", "plain"])}
        else:
            r = rng.random()
            if r < 0.35:
                op = {"op": "set_params", "min_variance": rng.choice(case.get("minvars", MINVARS)), "n_jobs": rng.choice([1, 2, 3, 4, 4, None])}
            elif r < 0.5:
                op = {"op": "setattr", "min_variance": rng.choice(case.get("minvars", MINVARS))}
            elif r < 0.6:
                op = {"op": "predict", "form": rng.choice(FORMS)}
            elif r < 0.7:
                op = {"op": "other", "form": rng.choice(FORMS)}
            elif r < 0.85:
                op = {"op": "clone_refit"}
            else:
                op = {"op": "pickle"}
        if "n_jobs" in op:
            nj = op["n_jobs"]
        op["forms"] = forms()
        if rng.random() < (0.7 if style == "kept" else 0.35):  # this step predicts on its own query object (other dtype / layout / batch length / content)
            op["q"] = _gen_query(rng, 0.2)
        if rng.random() < 0.3:  # ... inside its own joblib context
            op["env"] = _gen_env(rng, 0.15)
        hist.append(op)
    # every history visits a parallel state at least once (n_estimators % n_jobs != 0 is common: 5, 7, 10, 50 trees)
    nj, par = case["n_jobs0"], False
    for o in hist:
        nj = o.get("n_jobs", nj) if "n_jobs" in o else nj
        par = par or _requested_jobs(nj, o["env"] if "env" in o else case.get("env")) > 1
    if not par:
        hist.append({"op": "set_params", "n_jobs": 4, "forms": forms()})
    return hist


def _data(case):
    r = np.random.RandomState(case["seed"])
    n, d, kind = case["n"], case["d"], case["kind"]
    X = r.rand(n, d)
    y = r.randn(n)
    if kind == "const":
        y[:] = r.choice([3.0, 0.0, -1e9, 0.1 + 0.2])
    elif kind == "dupX":
        X[n // 2:] = X[: n - n // 2]
    elif kind == "dupXY":
        X[n // 2:] = X[: n - n // 2]
        y[n // 2:] = y[: n - n // 2]
    elif kind == "huge":
        y = y * 10.0 ** (case["exp"] if "exp" in case else r.randint(6, 120))
    elif kind == "tiny":
        y = y * 10.0 ** (case["exp"] if "exp" in case else -r.randint(6, 120))
    elif kind == "mixedscale":
        y = y * 10.0 ** r.randint(-8, 8, size=n)
    elif kind == "ints":
        X = r.randint(0, 4, size=(n, d)).astype(float)
        y = r.randint(-3, 4, size=n).astype(float)
    elif kind == "offset":
        y = y * 10.0 ** (-r.randint(0, 6)) + 10.0 ** r.randint(3, 9)
    # queries: training points (interpolation), fresh points, points outside the hull
    nq = case["nq"]
    Q = np.vstack([X[r.randint(0, n, size=max(1, nq // 3))], r.rand(nq - max(1, nq // 3) - 1, d) if nq - max(1, nq // 3) - 1 > 0 else np.zeros((0, d)),
                   r.rand(1, d) * 10 - 5])
    return X, y, Q


# --------------------------------------------------------------------------- real code + observation


class _OrderSpy:
    """wraps forest._accumulate_prediction*: serialises the calls and records which tree each call handles and in which thread.
    Purely an observation aid for the model's environment inputs (fold order, per-worker blocks, where the tasks ran).  When the
    functions do not exist or are not called at all in this process (accumulation rewritten, tasks run elsewhere) the order is
    UNOBSERVED: no mismatch by itself - the theorems hold for every order, the model gets the identity order and the outputs are
    still compared with the exact values on independent per-tree ground truth.  Calls that are observed but are not exactly one
    per tree contradict the model's contract (`OrderOK`) and are an L2 mismatch - never a harness error."""

    NAMES = ("_accumulate_prediction", "_accumulate_prediction_disentangled")

    def __init__(self, mod):
        self.mod = mod
        self.lock = threading.Lock()
        self.order = []
        self.threads = []
        self.index = {}
        self.installed = all(callable(getattr(mod, n, None)) for n in self.NAMES)
        self.orig = tuple(getattr(mod, n, None) for n in self.NAMES)

    def _wrap(self, f):
        import functools

        # functools.wraps: the wrapper pickles by reference under the wrapped function's own module / name, so code that sends the
        # function to worker processes keeps working (there the calls are simply not observed)
        @functools.wraps(f)
        def g(*args, **kw):
            with self.lock:
                self.order.append(self.index.get(id(args[0]), -1) if args else -1)
                self.threads.append(threading.get_ident())
                return f(*args, **kw)
        return g

    def __enter__(self):
        if self.installed:
            for n, f in zip(self.NAMES, self.orig):
                setattr(self.mod, n, self._wrap(f))
        return self

    def __exit__(self, *a):
        if self.installed:
            for n, f in zip(self.NAMES, self.orig):
                setattr(self.mod, n, f)

    def take(self):
        o, self.order = self.order, []
        self.last_threads, self.threads = self.threads, []
        return o

    def take_blocks(self):
        """(order, blocks, in_caller): blocks = the tree indices each worker thread handled, in its own order, threads by first
        appearance; in_caller = every call ran in the calling thread (None when nothing was seen)"""
        o = self.take()
        by = {}
        for i, t in zip(o, self.last_threads):
            by.setdefault(t, []).append(i)
        me = threading.get_ident()
        return o, list(by.values()), (all(t == me for t in self.last_threads) if o else None)


def _default_history(case):
    return [{"op": "fit", "forms": FORMS[:]}, {"op": "set_params", "n_jobs": 4, "forms": FORMS[:]}]


def _build(case):
    from deephyper.skopt.learning import ExtraTreesRegressor, RandomForestRegressor

    X, y, Q = _data(case)
    kw = dict(case["kw"])
    cls = RandomForestRegressor if case["cls"] == "RF" else ExtraTreesRegressor
    m = cls(random_state=case["seed"] % 100000, n_jobs=case.get("n_jobs0", 1), **kw).fit(X, y)
    return m, X, y, Q


def _call(m, Q, form):
    """the objects predict returned (not copied, not converted)"""
    if form == "plain":
        return (m.predict(Q),)
    if form == "std":
        return tuple(m.predict(Q, return_std=True))
    return tuple(m.predict(Q, return_std=True, disentangled_std=True))


class _Kept:
    """What a caller keeps: every array a predict call returned, with a snapshot of its content at return time.
    `changed()` lists the kept arrays whose content is no longer what was returned (and re-arms them)."""

    def __init__(self):
        self.items = []

    def keep(self, step, form, arrays):
        for i, a in enumerate(arrays):
            if isinstance(a, np.ndarray):
                self.items.append({"step": step, "form": form, "i": i, "arr": a, "snap": a.copy()})

    def changed(self):
        out = []
        for it in self.items:
            a, s = it["arr"], it["snap"]
            if a.shape != s.shape or not np.array_equal(a, s, equal_nan=a.dtype.kind in "fc"):
                out.append({"returned_at_step": it["step"], "form": it["form"], "output": it["i"],
                            "returned": np.asarray(s, dtype=float).ravel()[:6].tolist(), "now": np.asarray(a, dtype=float).ravel()[:6].tolist()})
                it["snap"] = a.copy()
        return out


def _sibling(case, m, X, y):
    """another fitted forest (the other class, other seed) - the caller's second surrogate"""
    from deephyper.skopt.learning import ExtraTreesRegressor, RandomForestRegressor

    cls = ExtraTreesRegressor if case["cls"] == "RF" else RandomForestRegressor
    return cls(n_estimators=3, random_state=(case["seed"] + 1) % 100000, n_jobs=m.n_jobs, min_samples_split=2).fit(X, y)


def _apply(m, op, X, y, Q, case=None, env=None, Qother=None):
    """Q: the query object of this step; Qother: a batch of the same length and class with other content"""
    k = op["op"]
    if k == "set_params":
        m.set_params(**{p: op[p] for p in ("min_variance", "n_jobs") if p in op})
    elif k == "setattr":
        m.min_variance = op["min_variance"]
    elif k == "predict":
        with _ambient(env):
            _call(m, Q, op["form"])
    elif k == "other":
        sib = _sibling(case, m, X, y)
        with _ambient(env):
            _call(sib, Qother if Qother is not None else Q, op["form"])
    elif k == "clone_refit":
        from sklearn.base import clone

        m = clone(m).fit(X, y)
    elif k == "pickle":
        m = pickle.loads(pickle.dumps(m))
    elif k != "fit":
        raise HarnessError(f"unknown history op {op}")
    return m


def _run_history(case, spy):
    """Drive one fitted forest through its history; after every op call the three predict forms and extract,
    independently (estimators_ / tree.predict / tree_.impurity[tree.apply]), the exact per-tree ground truth.
    Returns {"rejected": msg} | {"checks": [...], "acq": ...}."""
    try:
        m, X, y, Q = _build(case)
    except ValueError as e:
        return {"rejected": str(e)[:60]}
    hist = case.get("history") or _default_history(case)
    checks = []
    kept = _Kept()
    for step, op in enumerate(hist):
        qspec = op["q"] if "q" in op else case.get("query")
        env = op["env"] if "env" in op else case.get("env")
        chk = {"step": step, "op": op["op"], "error": None, "q": qspec, "qsig": _qsig(qspec), "env": env, "esig": _esig(env)}
        checks.append(chk)
        try:
            Qs = _make_query(Q, qspec)      # the object handed to the code under test
            Qg = _make_query(Q, qspec)      # an equal object built separately, for the ground truth
            Qo = _make_query(np.roll(Q, 1, axis=0) + 0.3, qspec) if op["op"] == "other" else None
            m = _apply(m, op, X, y, Qs, case, env, Qo)
            unstable = [dict(u, modified_by=f"op {op['op']}" + (f"({op.get('form')})" if op.get("form") else "")) for u in kept.changed()]
            chk["n_jobs"] = m.n_jobs if isinstance(m.n_jobs, int) and not isinstance(m.n_jobs, bool) else None
            chk["jobs"] = _requested_jobs(chk["n_jobs"], env)
            chk["minvar"] = float(m.min_variance)
            trees = list(m.estimators_)
            n = chk["n"] = len(trees)
            nq = chk["nq"] = len(Qg)
            spy.index = {id(t): i for i, t in enumerate(trees)}
            spy.take()
            outs, orders, blocks, in_caller = {}, {}, {}, {}
            for form in op.get("forms", FORMS):
                with _ambient(env):
                    raw = _call(m, Qs, form)
                orders[form], blocks[form], in_caller[form] = spy.take_blocks()
                unstable += [dict(u, modified_by=f"predict form {form}") for u in kept.changed()]
                kept.keep(step, form, raw)
                # judged on the content at return time (float64 copies); what happens to the returned arrays later is `unstable`
                outs[form] = tuple(np.array(a_, dtype=float) for a_ in raw)
            if unstable:
                chk["unstable"] = unstable[:4]
            chk["out_dtypes"] = sorted({str(getattr(a_, "dtype", type(a_).__name__)) for f in FORMS for a_ in outs[f]})
            # ground truth, obtained without going through the code under test (the trees cast the query to float32 themselves)
            chk["tm"] = np.array([t.predict(Qg) for t in trees], dtype=float)
            chk["tv"] = np.array([t.tree_.impurity[t.apply(Qg)] for t in trees], dtype=float)
            chk["outs"] = outs
            ok_shapes = (len(outs["plain"]) == 1 and len(outs["std"]) == 2 and len(outs["dis"]) == 3 and
                         all(a_.shape == (nq,) for f in FORMS for a_ in outs[f]))
            if not ok_shapes:
                chk["error"] = "shape: " + str({f: [a_.shape for a_ in outs[f]] for f in FORMS}) + f" for {nq} query rows"
            want = list(range(n))
            seen_any = bool(orders["std"] or orders["dis"])
            chk["order_state"] = ("unobserved" if not (spy.installed and seen_any) else
                                  "observed" if sorted(orders["std"]) == want and sorted(orders["dis"]) == want else "not-once-per-tree")
            chk["order_ok"] = chk["order_state"] == "observed"
            chk["order"] = [int(i) for i in orders["std"]] if chk["order_ok"] else want
            chk["blocks"] = [[int(i) for i in b_] for b_ in blocks["std"]] if chk["order_ok"] else [want]
            chk["in_caller"] = [in_caller["std"], in_caller["dis"]] if chk["order_ok"] else None
            chk["nthreads"] = max(len(blocks["std"]), len(blocks["dis"])) if chk["order_ok"] else None
            chk["order_seen"] = {"installed": spy.installed, "std": orders["std"][:60], "dis": orders["dis"][:60]}
        except HarnessError:
            raise
        except Exception as e:  # the code under test raised in a predict / set_params / clone / pickle step
            import traceback

            chk["error"] = f"{type(e).__name__}: {e}"
            chk["trace"] = traceback.format_exc()[-1200:]
            break
    late = kept.changed()   # e.g. by a background thread of the code under test: nothing may touch what was returned
    if late and checks and not checks[-1]["error"]:
        checks[-1].setdefault("unstable", [dict(u, modified_by="after the last call") for u in late[:4]])
    res = {"checks": checks, "acq": None}
    Q = _make_query(Q, case.get("query"))      # the acquisitions are evaluated on the case's query object
    Qg = _make_query(_data(case)[2], case.get("query"))
    # the `d` acquisitions must use the epistemic part only (n_jobs=1: same accumulation order => same doubles)
    if not any(c["error"] for c in checks):
        try:
            from deephyper.skopt.acquisition import _gaussian_acquisition

            m.set_params(n_jobs=1)
            kappa = 1.96
            mu1, sd = m.predict(Q, return_std=True)
            mu2, al, ep = m.predict(Q, return_std=True, disentangled_std=True)
            kept.keep("acquisition", "std", (mu1, sd))
            kept.keep("acquisition", "dis", (mu2, al, ep))
            lcb = _gaussian_acquisition(Q, m, acq_func="LCB", acq_func_kwargs={"kappa": kappa})
            lcbd = _gaussian_acquisition(Q, m, acq_func="LCBd", acq_func_kwargs={"kappa": kappa})
            res["acq"] = {"lcbd_ok": bool(np.array_equal(lcbd, mu2 - kappa * ep)), "lcb_ok": bool(np.array_equal(lcb, mu1 - kappa * sd)),
                          "lcbd": np.asarray(lcbd).tolist(), "want": (mu2 - kappa * ep).tolist(), "other": {}}
            # special / extreme exploration weights: kappa = "inf" (pure exploration: minus the std), 0 (pure exploitation), huge
            for kp in ("inf", 0.0, 1e6):
                for name, mu_, sd_ in (("LCB", mu1, sd), ("LCBd", mu2, ep)):
                    got = np.asarray(_gaussian_acquisition(Q, m, acq_func=name, acq_func_kwargs={"kappa": kp}), dtype=float)
                    want = -np.asarray(sd_, dtype=float) if kp == "inf" else np.asarray(mu_, dtype=float) - kp * np.asarray(sd_, dtype=float)
                    res["acq"]["other"][f"{name}(kappa={kp})"] = {"ok": bool(np.array_equal(got, want)), "got": got.tolist(), "want": want.tolist(),
                                                                 "total_std": np.asarray(sd).tolist(), "epistemic_std": np.asarray(ep).tolist()}
            # which std the plain / `d` acquisitions read (observed as -LCB(kappa="inf") / -LCBd(kappa="inf")), for the Lean model
            # `acqMoments` on per-tree ground truth taken independently of the forest's own predict
            trees_ = list(m.estimators_)
            res["acq"]["model"] = {"minvar": float(m.min_variance), "n": len(trees_),
                                   "tm": np.array([t.predict(Qg) for t in trees_], dtype=float),
                                   "tv": np.array([t.tree_.impurity[t.apply(Qg)] for t in trees_], dtype=float),
                                   "used_plain": -np.asarray(res["acq"]["other"]["LCB(kappa=inf)"]["got"], dtype=float),
                                   "used_d": -np.asarray(res["acq"]["other"]["LCBd(kappa=inf)"]["got"], dtype=float)}
            # EId / PId / MESd: the `d` variant on the forest must equal the plain variant on a stand-in model whose
            # std IS the epistemic std (and differ from it on a stand-in with the total std whenever the two stds differ)
            import inspect

            class _Stub:
                def __init__(self, mu, sd):
                    self.mu, self.sd = mu, sd

                def predict(self, X, return_std=False, **kw):
                    return (self.mu.copy(), self.sd.copy()) if return_std else self.mu.copy()

            has_rs = "random_state" in inspect.signature(_gaussian_acquisition).parameters
            y_opt = float(np.min(mu1))
            spread = float(np.max(mu1) - np.min(mu1)) or 1.0
            for name, xi in (("EI", 0.01), ("PI", 0.01), ("MES", 0.01), ("EI", 0.0), ("PI", 0.0), ("EI", 10.0 * spread), ("PI", -0.5 * spread)):
                kw = {"acq_func_kwargs": {"xi": xi, "kappa": kappa}, "y_opt": y_opt}

                def call(model, acq_func):
                    k2 = dict(kw)
                    if has_rs:
                        k2["random_state"] = np.random.RandomState(123)
                    else:
                        np.random.seed(123)
                    return np.asarray(_gaussian_acquisition(Q, model, acq_func=acq_func, **k2), dtype=float)

                vd = call(m, name + "d")
                v_ep = call(_Stub(np.asarray(mu2, dtype=float), np.asarray(ep, dtype=float)), name)
                res["acq"]["other"][name + ("d" if xi == 0.01 else f"d(xi={xi:g})")] = {"ok": bool(np.allclose(vd, v_ep, rtol=1e-12, atol=0.0, equal_nan=True)),
                                                                                        "d": vd.tolist(), "want": v_ep.tolist()}
            late = kept.changed()
            if late:
                checks[-1].setdefault("unstable", [dict(u, modified_by="the predict calls of the acquisition functions") for u in late[:4]])
        except Exception as e:
            res["acq"] = {"error": f"{type(e).__name__}: {e}"}
    return res


def _cls_name(case):
    return "RandomForestRegressor" if case["cls"] == "RF" else "ExtraTreesRegressor"


def _requests(res):
    """one Lean request per check that produced well-formed finite outputs; returns (reqs, early) where early are
    failures that need no model: [(clause, what, step, detail)]"""
    reqs, idx, early = [], [], []
    for k, c in enumerate(res["checks"]):
        if c["error"]:
            kind = "output-shape" if c["error"].startswith("shape:") else "raises"
            early.append((kind, f"step {c['step']} ({c['op']}): {c['error'][:120]}", k, {"error": c["error"], "trace": c.get("trace")}))
            continue
        arrs = [a for f in FORMS for a in c["outs"][f]]
        if not all(np.all(np.isfinite(a)) for a in arrs):
            early.append(("finite", "a predicted mean / std is not finite", k, {"out": {f: [a.tolist() for a in c["outs"][f]] for f in FORMS}}))
            continue
        if not (np.all(np.isfinite(c["tm"])) and np.all(np.isfinite(c["tv"]))):
            early.append(("finite-tree-output", "a tree's own prediction / impurity is not finite", k, None))
            continue
        n = c["n"]
        tolv = max(64, 2 * n + 8) * EPS
        tolm = 4 * n * EPS
        o = c["outs"]
        pts = []
        for j in range(c["nq"]):
            pts.append({"trees": [[rat(c["tm"][i, j]), rat(c["tv"][i, j])] for i in range(n)],
                        "got": [rat(o["plain"][0][j]), rat(o["std"][0][j]), rat(o["std"][1][j]),
                                rat(o["dis"][0][j]), rat(o["dis"][1][j]), rat(o["dis"][2][j])]})
        env = c.get("env") or {}
        if env.get("backend") not in (None, "threading", "loky", "multiprocessing", "sequential"):
            raise HarnessError(f"joblib backend not in the model: {env}")
        reqs.append({"op": "forest", "minvar": rat(c["minvar"]), "order": c["order"], "blocks": c["blocks"], "tolv": rat(tolv), "tolm": rat(tolm),
                     "env": {"backend": env.get("backend"), "n_jobs": _ctx_jobs(env), "cpus": _cpus()}, "n_jobs": c["n_jobs"], "points": pts})
        idx.append(k)
    return reqs, idx, early


def _acq_request(res):
    """the Lean request judging which std the acquisitions read (None when there is nothing well-formed to judge)"""
    am = (res.get("acq") or {}).get("model")
    if not am:
        return None
    n, tm, tv = am["n"], am["tm"], am["tv"]
    up, ud = am["used_plain"], am["used_d"]
    nq = tm.shape[1] if tm.ndim == 2 else 0
    if not (n and nq and up.shape == (nq,) and ud.shape == (nq,) and np.all(np.isfinite(tm)) and np.all(np.isfinite(tv)) and
            np.all(np.isfinite(up)) and np.all(np.isfinite(ud))):
        return None  # malformed / non-finite acquisition values are reported by the other acquisition clauses
    return {"op": "acq", "minvar": rat(am["minvar"]), "tolv": rat(max(64, 2 * n + 8) * EPS),
            "points": [{"trees": [[rat(tm[i, j]), rat(tv[i, j])] for i in range(n)], "used_plain": rat(up[j]), "used_d": rat(ud[j])} for j in range(nq)]}


CLAUSES = [("mean_ok", "mean-is-average", "a predicted mean is not the average of the tree predictions"),
           ("nonneg", "nonneg", "a predicted std is negative"),
           ("sum_ok", "total-law", "total variance != aleatoric + epistemic variance"),
           ("al_ok", "aleatoric-is-mean-leaf-variance", "aleatoric part is not the average (floored at the min_variance in force) within-leaf variance"),
           ("ep_ok", "epistemic-is-variance-of-tree-means", "epistemic part is not the variance of the tree means"),
           ("var_ok", "total-is-al+ep-exact", "total variance differs from the exact total variance of the trees")]


def _evaluate(ck, case, res, reqs, idx, early, reps, acq_rep=None):
    """-> (failures [(clause, what, check_index, detail)], l2 problems [detail])"""
    fails = list(early)
    l2 = []
    checks = res["checks"]
    for k, rep in zip(idx, reps):
        c = checks[k]
        if c["order_state"] == "not-once-per-tree":
            l2.append({"what": "the observed calls of the per-tree accumulate functions are not one call per tree (the model's fold order "
                               "is a permutation of the trees)", "step": c["step"], "seen": c["order_seen"],
                       "n_trees": c["n"], "n_jobs": c["n_jobs"], "joblib_context": c["esig"]})
        # where the tasks ran (Model/Forest.lean `resolve`, C18_env) against what the spy saw: in the calling thread iff one effective
        # worker, never more worker threads than effective workers; only judged when the accumulation was observed at all
        menv = rep.get("env")
        c["model_env"] = menv
        if menv and c["order_ok"] and c.get("in_caller") is not None:
            seen_in_caller = all(x is True for x in c["in_caller"])
            if (not menv["shared"]) or seen_in_caller != bool(menv["in_caller"]) or c["nthreads"] > max(1, menv["n_eff"]):
                l2.append({"what": "where joblib ran the per-tree tasks differs from the model's backend resolution (resolve / C18_env)",
                           "step": c["step"], "joblib_context": c["esig"], "n_jobs": c["n_jobs"], "model": menv,
                           "observed": {"in_calling_thread": c["in_caller"], "worker_threads": c["nthreads"]}})
        if c.get("unstable"):
            u = c["unstable"][0]
            fails.append(("returned-arrays-stable", "an array returned by an earlier predict call was modified by a later call "
                          f"(returned at step {u['returned_at_step']} by form {u['form']}, modified by {u['modified_by']})", k,
                          {"step": c["step"], "op": c["op"], "modified": c["unstable"], "n_jobs": c["n_jobs"], "joblib_context": c["esig"],
                           "query_object": c["qsig"]}))
        first = {}
        if not rep.get("batch_rows", True):
            l2.append({"what": "the vectorised batch model disagrees with the per-row model (C18_batch)", "step": c["step"]})
        for j, p in enumerate(rep["points"]):
            if not (p["means_agree"] and p["total_law"] and p["order_indep"] and p.get("blocks_indep", True) and p.get("floor_law", True) and p.get("env_indep", True)):
                l2.append({"what": "model contradicts its own theorems (C18_mean / C18_total / C18_order / C18_blocks / C18_floor / C18_env)", "point": j, "reply": p,
                           "blocks": c.get("blocks")})
            for key, clause, what in CLAUSES:
                ok = all(p[key]) if key == "mean_ok" else p[key]
                if not ok and clause not in first:
                    o = c["outs"]
                    first[clause] = (clause, what, k, {
                        "step": c["step"], "op": c["op"], "n_jobs": c["n_jobs"], "joblib_context": c["esig"], "min_variance_in_force": c["minvar"],
                        "n_trees": c["n"], "query": j, "query_object": c["qsig"], "output_dtypes": c.get("out_dtypes"),
                        "impl": {"predict": o["plain"][0][j], "return_std": [o["std"][0][j], o["std"][1][j]],
                                 "disentangled": [o["dis"][0][j], o["dis"][1][j], o["dis"][2][j]]},
                        "exact": {q: float(_fr(p[q])) for q in ("mean", "var", "al", "ep", "scale")}})
        fails.extend(first.values())
        c["scale"] = [float(_fr(p["scale"])) for p in rep["points"]]
    # predictions do not depend on n_jobs beyond summation order: same trees, same min_variance, different n_jobs
    seen = {}
    epoch = 0
    for k in idx:
        c = checks[k]
        if c["op"] in ("clone_refit",):
            epoch += 1
        key = (epoch, c["minvar"], c["qsig"])
        if key in seen and seen[key]["jobs"] != c["jobs"] and seen[key]["nq"] == c["nq"]:
            a, b = seen[key], c
            for j in range(c["nq"]):
                tol = max(64, 2 * c["n"] + 8) * EPS * c["scale"][j] * 2 * (1 + 1e-9)
                pairs = [(a["outs"]["std"][1][j], b["outs"]["std"][1][j]), (a["outs"]["dis"][1][j], b["outs"]["dis"][1][j]),
                         (a["outs"]["dis"][2][j], b["outs"]["dis"][2][j])]
                if any(abs(x * x - y * y) > tol for x, y in pairs):
                    fails.append(("n_jobs-independent", "predictions with different n_jobs differ beyond summation order", k,
                                  {"query": j, "n_jobs": [a["n_jobs"], b["n_jobs"]], "joblib_context": [a["esig"], b["esig"]],
                                   "steps": [a["step"], b["step"]], "values": pairs}))
                    break
        seen.setdefault(key, c)
    acq = res.get("acq")
    if acq:
        if acq.get("error"):
            fails.append(("acquisition-raises", "acquisition on the fitted forest raised: " + acq["error"][:100], len(checks) - 1, acq))
        else:
            if not acq["lcbd_ok"]:
                fails.append(("d-acquisition-epistemic", "LCBd is not mean - kappa * epistemic std", len(checks) - 1, acq))
            if not acq["lcb_ok"]:
                fails.append(("acquisition-total", "LCB is not mean - kappa * total std", len(checks) - 1, None))
            for name, o in acq.get("other", {}).items():
                ck.count("acq_checked:" + name.split("(")[0])
                if not o["ok"]:
                    clause = "acquisition-total" if name.startswith("LCB(") else "d-acquisition-epistemic"
                    fails.append((clause, f"{name} is not the acquisition evaluated with the " + ("total" if clause == "acquisition-total" else "epistemic") + " std",
                                  len(checks) - 1, {name: o}))
                    break
            # against the Lean model on independent per-tree ground truth: the plain variants read the total std, the `d` variants the epistemic std
            if acq_rep is not None:
                for j, p in enumerate(acq_rep["points"]):
                    if not p["model_ok"]:
                        l2.append({"what": "model contradicts its own theorems (C18_dacq_epistemic / C18_acq_total / C18_lcbd_ge_lcb)", "point": j, "reply": p})
                am = acq["model"]
                for key, name, clause, part in (("plain_ok", "LCB(kappa=inf)", "acquisition-total", "total"), ("d_ok", "LCBd(kappa=inf)", "d-acquisition-epistemic", "epistemic")):
                    bad = [j for j, p in enumerate(acq_rep["points"]) if not p[key]]
                    if bad and not any(f[0] == clause for f in fails):
                        j = bad[0]
                        p = acq_rep["points"][j]
                        fails.append((clause, f"{name}: the std read by the acquisition is not the {part} std of the trees", len(checks) - 1,
                                      {name: {"query": j, "std_read": float(am["used_d" if key == "d_ok" else "used_plain"][j]),
                                              "exact_variance_total": float(_fr(p["sel_plain"])), "exact_variance_epistemic": float(_fr(p["sel_d"]))}}))
    return fails, l2


def _fr(s):
    return unrat(s)


def _run_and_evaluate(ck, d, case, spy):
    res = _run_history(case, spy)
    if "rejected" in res:
        return res, [], []
    reqs, idx, early = _requests(res)
    areq = _acq_request(res)
    reps = d.ask_all(reqs + ([areq] if areq else []))
    fails, l2 = _evaluate(ck, case, res, reqs, idx, early, reps[:len(reqs)], reps[len(reqs)] if areq else None)
    return res, fails, l2


def _without(q, field):
    q2 = {k: v for k, v in (q or {}).items() if k != field}
    return q2 or None


def _env_opt(env):
    """fingerprint text of a joblib context spec"""
    if not env:
        return ""
    return "env(" + ",".join(f"{k}={env[k]}" for k in ("backend", "n_jobs", "api") if k in env) + ")"


def _classify(ck, d, spy, case, res, clause, k, hint=None):
    """Shrink a failing case and derive the fingerprint options from the shrunk case:
    stateless (a fresh forest built with the parameters in force fails alone) or a minimal history; then the joblib context and the
    query object are reduced towards "no context" / the plain float64 array and whatever is still needed is named in the fingerprint.
    `hint` = (shrunk case, options) found for another clause failing at the same step: adopted when this clause fails there too."""
    c = res["checks"][k]

    def fails(cs):
        ck.count("shrink_reruns")
        _, f, _ = _run_and_evaluate(ck, d, cs, spy)
        return [x for x in f if x[0] == clause]

    if hint is not None:
        f = fails(hint[0])
        if f:
            return hint[0], hint[1], f[0]

    nj = c.get("n_jobs", 1)
    fresh = dict(case)
    fresh["kw"] = dict(case["kw"])
    if "minvar" in c:
        fresh["kw"]["min_variance"] = c["minvar"]
    fresh["n_jobs0"] = nj
    fresh["query"] = c.get("q")
    fresh["env"] = c.get("env")
    fresh["history"] = [{"op": "fit", "forms": (case.get("history") or _default_history(case))[c["step"]].get("forms", FORMS)}]

    def specs(cs, field):
        return [("case", None)] + [("op", i) for i, o in enumerate(cs["history"]) if o.get(field)]

    def get(cs, w, field):
        return cs.get({"q": "query", "env": "env"}[field]) if w[0] == "case" else cs["history"][w[1]].get(field)

    def put(cs, w, field, v):
        cs = dict(cs)
        if w[0] == "case":
            cs[{"q": "query", "env": "env"}[field]] = v
        else:
            h = list(cs["history"])
            h[w[1]] = dict(h[w[1]], **{field: v})
            cs["history"] = h
        return cs

    def shrink_query(cs, best):
        """greedy: drop the fields of the query spec (case level and per step) the failure does not need"""
        for w in specs(cs, "q"):
            if not get(cs, w, "q"):
                continue
            trial = put(cs, w, "q", None)
            f = fails(trial)
            if f:
                cs, best = trial, f[0]
                continue
            for field in ("shift", "rows", "readonly", "layout", "dtype"):
                q = get(cs, w, "q")
                if q and field in q and not (field == "dtype" and q[field] == "f64") and not (field == "layout" and q[field] == "C"):
                    trial = put(cs, w, "q", _without(q, field))
                    f = fails(trial)
                    if f:
                        cs, best = trial, f[0]
        needed = []
        for w in specs(cs, "q"):
            q = get(cs, w, "q") or {}
            needed += [f"{k_}={q[k_]}" for k_ in ("dtype", "layout", "readonly", "rows", "shift") if k_ in q and not (k_ == "dtype" and q[k_] == "f64")
                       and not (k_ == "layout" and q[k_] == "C")]
        return cs, best, ("query(" + ",".join(sorted(set(needed))) + ")" if needed else "")

    def shrink_env(cs, best):
        """greedy: drop the joblib contexts (case level and per step) the failure does not need, then their fields"""
        for w in specs(cs, "env"):
            env = get(cs, w, "env")
            if not env:
                continue
            trial = put(cs, w, "env", None)
            f = fails(trial)
            if f:
                cs, best = trial, f[0]
                continue
            for field in ("api", "n_jobs"):
                env = get(cs, w, "env")
                if env and field in env and (field != "api" or env.get("backend")) and len(env) > 1:
                    trial = put(cs, w, "env", _without(env, field))
                    f = fails(trial)
                    if f:
                        cs, best = trial, f[0]
        needed = sorted({_env_opt(get(cs, w, "env")) for w in specs(cs, "env")} - {""})
        return cs, best, ",".join(needed)

    f = fails(fresh)
    if f:
        best = f[0]
        env = fresh.get("env") or {}
        if nj is None and _requested_jobs(None, env) > 1:   # the same parallelism asked for through the forest's own n_jobs
            k_ = min(_requested_jobs(None, env), 4)
            trial = dict(fresh, n_jobs0=k_, env=_without(_without(env, "n_jobs"), "api"))
            f1 = fails(trial)
            if f1:
                fresh, best, nj = trial, f1[0], k_
        fresh, best, eopt = shrink_env(fresh, best)
        if _requested_jobs(nj, fresh.get("env")) > 1:  # does the failure need the parallel accumulation at all?
            trial = dict(fresh, n_jobs0=1)
            f1 = fails(trial)
            if f1:
                fresh, best, nj = trial, f1[0], 1
                fresh, best, eopt = shrink_env(fresh, best)
        fresh, best, qopt = shrink_query(fresh, best)
        par = _requested_jobs(nj, fresh.get("env")) > 1
        return fresh, ",".join(x for x in ("n_jobs>1" if par else "", eopt, qopt) if x), best
    hist = list(case.get("history") or _default_history(case))
    cur = dict(case)
    cur["history"] = hist
    best = None
    for i in range(len(hist) - 1, 0, -1):
        trial = dict(cur)
        trial["history"] = cur["history"][:i] + cur["history"][i + 1:]
        f = fails(trial)
        if f:
            cur, best = trial, f[0]
    for i in range(1, len(cur["history"])):  # drop option values the failure does not need
        for field in ("n_jobs", "min_variance"):
            o = cur["history"][i]
            if field in o and len([k for k in ("n_jobs", "min_variance") if k in o]) > 1 and o["op"] == "set_params":
                o2 = {k: v for k, v in o.items() if k != field}
                trial = dict(cur)
                trial["history"] = cur["history"][:i] + [o2] + cur["history"][i + 1:]
                f = fails(trial)
                if f:
                    cur, best = trial, f[0]
    qopt = eopt = ""
    if best is None:
        f = fails(cur)
        best = f[0] if f else None
    if best is not None:
        cur, best, eopt = shrink_env(cur, best)
        cur, best, qopt = shrink_query(cur, best)
    kinds = [o["op"] + ("(min_variance)" if "min_variance" in o else "") + ("(n_jobs)" if (o.get("n_jobs") or 1) > 1 else "") +
             (f"({o['form']})" if o["op"] in ("predict", "other") and o.get("form") else "") for o in cur["history"][1:]]
    return cur, ",".join(x for x in ("history=" + ">".join(kinds), eopt, qopt) if x), best


def _load_corpus():
    import json

    out = []
    d = VERIF / "corpus" / "C18"
    if d.is_dir():
        for f in sorted(d.glob("*.json")):
            data = json.loads(f.read_text())
            out.append(data.get("case", data))
    return out


def _stats(ck, case, res):
    n = res["checks"][0].get("n", 0)
    ck.count(f"cls:{case['cls']}")
    ck.count(f"kind:{case['kind']}" + ("" if "exp" not in case else ":1e%+d..%+d" % ((6, 12) if 6 <= case["exp"] <= 12 else (13, 120) if case["exp"] > 12 else (-12, -6) if case["exp"] >= -12 else (-120, -13))))
    ck.count(f"trees:{'1' if n == 1 else '2-5' if n <= 5 else '6-20' if n <= 20 else '21-50'}")
    ck.count(f"bootstrap:{case['kw']['bootstrap']}")
    ck.count(f"splitter:{case['kw'].get('splitter', 'ET')}")
    for c in res["checks"]:
        ck.count("step:" + c["op"])
        if c["error"]:
            continue
        nj = c["jobs"]
        ck.count(f"check:n_jobs={c['n_jobs']}")
        env = c.get("env") or {}
        par = "jobs>1" if nj > 1 else "jobs=1"
        ck.count("env:" + ("none" if not env else f"backend={env.get('backend')}") + "," + par)
        if env:
            ck.count("env_api:" + env.get("api", "parallel_config") + (",n_jobs" if "n_jobs" in env else ""))
            if c["n_jobs"] is None and "n_jobs" in env:
                ck.count("env:n_jobs-from-context-only")
        if c.get("model_env"):
            me = c["model_env"]
            ck.count(f"model_resolve:{me['backend']},{'in-caller' if me['in_caller'] else 'pool'}")
        ck.count("order:" + c.get("order_state", "?"))
        if nj > 1:
            ck.count("check:n_jobs>1," + ("n_trees%n_jobs!=0" if c["n"] % nj else "n_trees%n_jobs==0"))
            ck.count("order_parallel:" + ("unobserved" if not c["order_ok"] else "identity" if c["order"] == list(range(c["n"])) else "permuted"))
        ck.count("minvar:" + (f"{c['minvar']}" if "exp" not in case else "0" if c["minvar"] == 0 else "relative-to-target-scale"))
        ck.count("query_points", c["nq"])
        q = c.get("q") or {}
        ck.count("query_dtype:" + q.get("dtype", "f64"))
        ck.count("query_layout:" + q.get("layout", "C") + (",readonly" if q.get("readonly") else ""))
        if q.get("shift"):
            ck.count("query_content:shifted")
        ck.count("query_rows:" + ("1" if c["nq"] == 1 else "2" if c["nq"] == 2 else "3+"))
        for dt in c.get("out_dtypes", []):
            ck.count("output_dtype:" + dt)
        if nj > 1 and c.get("order_ok"):
            ck.count("worker_blocks:" + str(min(len(c["blocks"]), 5)))
    ops = [o["op"] for o in (case.get("history") or _default_history(case))[1:]]
    ck.count("history:" + (",".join(sorted(set(ops))) or "none"))


ACQ_NAMES = ("EId", "PId", "MESd", "LCB", "LCBd")


def _acq_classify(ck, d, spy, case, clause):
    """Does a failing acquisition clause need the case's query object?  -> (shrunk case, fingerprint suffix)"""
    q = case.get("query")
    if not q:
        return case, ""

    def fails(cs):
        _, f, _ = _run_and_evaluate(ck, d, cs, spy)
        return [x for x in f if x[0] == clause]

    trial = dict(case, query=None)
    if fails(trial):
        return trial, ""
    cur = case
    for field in ("rows", "readonly", "layout", "dtype"):
        q = cur.get("query") or {}
        if field in q:
            trial = dict(cur, query=_without(q, field))
            if trial["query"] and fails(trial):
                cur = trial
    q = cur.get("query") or {}
    needed = [f"{k}={q[k]}" for k in ("dtype", "layout", "readonly", "rows") if k in q and not (k == "dtype" and q[k] == "f64") and not (k == "layout" and q[k] == "C")]
    return cur, (";query(" + ",".join(needed) + ")" if needed else "")


def _report(ck, d, spy, case, res, fails, budget):
    """one ck.fail per failing clause, the case shrunk and the fingerprint options derived from the shrunk case"""
    done = set()
    shrunk_at = {}   # failing step -> (shrunk case, options) of the first clause shrunk there
    for clause, what, k, detail in fails:
        if clause in done:
            continue
        done.add(clause)
        ck.count("oracle:" + clause)
        free = clause in ("d-acquisition-epistemic", "acquisition-total", "acquisition-raises") and not case.get("query")  # nothing to shrink
        if free:
            pass
        elif budget is not None and budget.get(clause, 0) >= 4:
            ck.count("oracle-not-shrunk:" + clause)
            continue
        elif budget is not None:
            budget[clause] = budget.get(clause, 0) + 1
        if clause in ("d-acquisition-epistemic", "acquisition-total"):
            which = ",".join(sorted(q.replace("1e+06", "huge") for q in (detail or {}) if q.split("(")[0] in ACQ_NAMES)) or ("LCBd" if clause.startswith("d-") else "LCB")
            shrunk, qopt = _acq_classify(ck, d, spy, case, clause)
            ck.fail(f"C18|{clause}|_gaussian_acquisition|{which}{qopt}", what, shrunk, detail)
            continue
        if clause == "acquisition-raises":
            shrunk, qopt = _acq_classify(ck, d, spy, case, clause)
            ck.fail(f"C18|raises|_gaussian_acquisition|{qopt.lstrip(';')}", what, shrunk, detail)
            continue
        shrunk, opts, f2 = _classify(ck, d, spy, case, res, clause, k, shrunk_at.get(k))
        if f2 is not None:
            what, detail = f2[1], f2[3]
            shrunk_at.setdefault(k, (shrunk, opts))
        ck.fail(f"C18|{clause}|{_cls_name(case)}.predict|{opts}", what, shrunk, detail)


def _handle(ck, d, spy, case, budget):
    res, fails, l2 = _run_and_evaluate(ck, d, case, spy)
    if "rejected" in res:
        # scikit-learn rejecting a parameter combination at fit is outside the property (not a fitted forest)
        ck.count("sklearn-rejected:" + res["rejected"][:40])
        return
    tm = res["checks"][0].get("tm")
    nontrivial = tm is not None and (len(tm) >= 2 and not np.all(tm == tm[0]) or not np.all(res["checks"][0]["tv"] <= 0))
    ck.case(case, nontrivial=bool(nontrivial))
    _stats(ck, case, res)
    for det in l2[:2]:
        ck.mismatch(case, det)
    _report(ck, d, spy, case, res, fails, budget)


def run(ck):
    import deephyper.skopt.learning.forest as forest

    ck.rule = ("fitted forests over the quantifier: RandomForestRegressor / ExtraTreesRegressor x 2..200 points x 1..6 features x target kind "
               "(gauss, constant, duplicated X, duplicated rows, huge 1e6..1e120, tiny 1e-6..1e-120, mixed scale, integer grid, large offset) x "
               "n_estimators 1..50 (5, 7, 10, 50 frequent) x splitter x bootstrap x max_samples x min_samples_split x min_samples_leaf x max_depth x "
               "max_features x min_variance {0,1e-12,1e-3,2.5,7,1e6} x n_jobs {1,2,3,4}; each forest goes through a short history on the SAME fitted "
               "object (predict calls in the three forms in shuffled order, set_params / attribute assignment of min_variance and n_jobs, "
               "sklearn.base.clone + refit, pickle round trip) and after the fit and after every op all three predict forms are judged with the parameters "
               "in force at that moment on 3-10 query points (training points, fresh points, outside the hull); the query OBJECT varies per case and per step: "
               "dtype {float64, float32, float16, longdouble, int64/32/8, uint8, bool, object} x layout {C, Fortran, column-strided, row-strided, reversed "
               "view, nested list, list of tuples, DataFrame} x read-only x batch {all rows, all but the first, two rows, one row} x content {the pool, "
               "another batch of the same length}, ground truth taken with an equal object; the ENVIRONMENT of the call varies per case and per step: "
               "joblib context {none, parallel_config / parallel_backend with backend threading, loky, multiprocessing, sequential or none} x context "
               "n_jobs {unset, 2, 4} x forest n_jobs {None, 1, 2, 3, 4}; further steps: a predict call whose result is dropped, a predict call of a "
               "SECOND fitted forest (other class) on another batch of the same length - every array any call returned is kept and must keep its "
               "content; distinct by generator parameters; "
               "non-trivial = at least two trees with different predictions or a non-zero leaf variance")
    ck.assumptions = [
        "scikit-learn's tree fitting is not modelled: the per-tree (prediction, leaf impurity) pairs are extracted from estimators_ independently of the code under test and are inputs of the model",
        "float tolerance: variances within max(64, 2n+8)*eps*(aleatoric + E[m_t^2]) absolute (first-order rounding bound of the accumulation is (1.5n+2)*eps of that scale), means within 4*n*eps*mean|m_t|",
        "the accumulation order of the n_jobs threads is observed by serialising _accumulate_prediction* under an outer lock; the theorems hold for every order; "
        "when the functions are absent / never called in this process the order is UNOBSERVED (identity order sent to the model, no mismatch by itself, the outputs are "
        "still compared with the exact values on independent per-tree ground truth); observed calls that are not one per tree are an L2 mismatch",
        "joblib's backend resolution is modelled (Model/Forest.lean `resolve`: call-level n_jobs > context n_jobs > 1; context backend kept unless require='sharedmem' and the "
        "backend has no shared memory -> threading with the context's n_jobs dropped; one effective worker -> in the calling thread) at nesting level 0 (negative n_jobs counted from joblib.cpu_count(), the legacy parallel_backend defaulting to -1), "
        "and compared on every observed step with where the accumulate calls actually ran (calling thread or not, number of worker threads <= effective workers); "
        "a context `prefer=` is outside the dimension (joblib rejects prefer='processes' + require='sharedmem' for scikit-learn's own forests too)",
        "worker processes of a process backend (only ever started by a changed tree: the unchanged code requires shared memory) import deephyper from the tree under test (PYTHONPATH is set by the harness)",
        "returned-arrays-stable: every ndarray returned by a predict call is kept with a snapshot taken at return time and compared bit for bit after every later call of the history "
        "(same forest, a second forest, the acquisition functions); the other clauses are judged on the content at return time",
        "min_variance and impurity are finite doubles",
        "dtype contract: tree.predict / tree_.impurity are float64 and the forest accumulates and returns float64 whatever the dtype, layout or container of the query "
        "(scikit-learn's trees cast the query to float32 themselves; the ground truth is taken with an equal query object), so the float64 tolerances above apply to every query class",
        "the per-thread blocks of trees (which worker handled which trees) are observed with threading.get_ident() in the same spy; C18_blocks holds for every partition",
    ]
    ck.trusted_extra = ["scikit-learn DecisionTreeRegressor.predict / apply / tree_.impurity (used to extract the per-tree pairs)"]
    cases = _load_corpus()
    ncase = ck.pick(70, 900)
    cases += [_gen_case(ck.rng, ck.thorough) for _ in range(ncase)]
    if ck.thorough:
        cases += _grid_cases(ck.rng, [11])
    budget = {}
    with ck.driver() as d, _OrderSpy(forest) as spy:
        if not spy.installed:
            # not a mismatch by itself: the order is an environment input of the model and the theorems hold for every order
            ck.count("order_spy:accumulate-functions-absent")
            ck.notes.append("forest._accumulate_prediction* do not exist: the accumulation order is unobserved (identity order sent to the model)")
        for case in cases:
            _handle(ck, d, spy, case, budget)


def _grid_cases(rng, seeds):
    """the environment dimension walked systematically: every joblib context x API x (n_jobs of the forest, n_jobs of the context) in
    {(4, -), (-, 4), (2, -), (1, 2), (-, -)}, all three predict forms after every step, on fitted forests of both classes - one short
    history per context, so that a failing one shrinks fast; plus the kept-array histories with a second forest"""
    out = []
    for cls in ("RF", "ET"):
        for seed in seeds:
            kw = {"n_estimators": 7, "bootstrap": cls == "RF", "min_samples_split": 2, "min_variance": 1e-3, "max_features": 1.0,
                  "min_samples_leaf": 1, "max_depth": None}
            if cls == "RF":
                kw["splitter"] = "best"
            base = {"cls": cls, "n": 40, "d": 3, "kind": "gauss", "kw": kw, "seed": seed, "nq": 6, "n_jobs0": 1, "query": None, "env": None}
            for backend in ("loky", "multiprocessing", "threading", "sequential", None):
                for api in ("parallel_config", "parallel_backend"):
                    if api == "parallel_backend" and backend is None:
                        continue
                    hist = [{"op": "fit", "forms": FORMS[:]}]
                    for nj, cj in ((4, None), (None, 4), (2, None), (1, 2), (None, None)):
                        if backend is None and cj is None:
                            continue
                        if api == "parallel_backend" and backend in PROCESS_BACKENDS and cj is None:
                            cj = 2
                        env = {k: v for k, v in (("backend", backend), ("n_jobs", cj), ("api", api if api != "parallel_config" else None)) if v is not None}
                        forms = FORMS[:]
                        rng.shuffle(forms)
                        hist.append({"op": "set_params", "n_jobs": nj, "env": env, "forms": forms})
                    out.append(dict(base, history=hist))
            out.append(dict(base, kw=dict(kw, min_variance=0.0), seed=seed + 1,
                            history=[{"op": "fit", "forms": FORMS[:]}] +
                                    [{"op": o, "form": f, "forms": FORMS[:], "q": q} for o in ("predict", "other") for f in ("std", "dis", "plain")
                                     for q in (None, {"shift": True}, {"rows": "one"}, {"rows": "one", "shift": True})]))
    return out


def search(ck):
    """Deeper failing-input search, called by main.py when L1 / L2 broke and `run` found no failing input: the property itself is
    evaluated on (1) the environment grid (every joblib context x n_jobs x API on fitted forests of both classes), (2) histories in
    which the caller keeps returned arrays across further queries of the same / another forest, (3) a larger random sample of the
    generator with the joblib context switched on in most cases.  Same oracle, same shrinking, same fingerprints as `run`."""
    import deephyper.skopt.learning.forest as forest

    cases = _grid_cases(ck.rng, [11] if not ck.thorough else [11, 13])
    for _ in range(ck.pick(60, 400)):
        case = _gen_case(ck.rng, ck.thorough)
        if case.get("env") is None and ck.rng.random() < 0.8:
            case["env"] = _gen_env(ck.rng, 0.0)
        cases.append(case)
    budget = {}
    ck.count("search:invoked")
    with ck.driver() as d, _OrderSpy(forest) as spy:
        for case in cases:
            ck.count("search:cases")
            _handle(ck, d, spy, case, budget)
            if len(ck.failures) >= 6:   # enough witnesses
                break


def replay(ck, case):
    import deephyper.skopt.learning.forest as forest

    with ck.driver() as d, _OrderSpy(forest) as spy:
        res, fails, l2 = _run_and_evaluate(ck, d, case, spy)
        if "rejected" in res:
            print("replay: scikit-learn rejected the configuration:", res["rejected"])
            return
        ck.case(case)
        for det in l2[:2]:
            ck.mismatch(case, det)
        _report(ck, d, spy, case, res, fails, None)
    print("replay:", {"steps": [{"step": c["step"], "op": c["op"], "n_jobs": c.get("n_jobs"), "joblib_context": c.get("esig"), "min_variance": c.get("minvar"),
                                 "query": c.get("qsig"), "error": c["error"], "order": c.get("order_state"),
                                 "std[0]": None if c["error"] else [float(a[0]) for f in FORMS for a in c["outs"][f]]} for c in res["checks"]],
                      "failures": [f["fingerprint"] for f in ck.failures]})
