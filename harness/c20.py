"""C20 — ensemble selection and prediction are well-formed and order-stable.

L2: TopKSelector / GreedySelector (real code, in-process; direct calls and through OnlineSelector.on_done)
    vs. `Model/Select.lean`.  The environment of the model is observed through the objects the
    selector is *given* (public constructor arguments): a recording loss function, a recording
    aggregator (which multiset of members was aggregated, with which weights), a recording
    `RandomState` (bootstrap subsets).  The model receives the individual losses, the observed
    argsort, the loss of every multiset the implementation evaluated and the bootstrap subsets, and
    must return the same indices and weights, evaluate exactly the same number of candidates in
    every iteration and never need a loss the implementation did not compute.
    EnsemblePredictor (thread backend, one worker per member): members finish in a scripted order
    (event chain, no wall-clock assertion); the completion order seen by an evaluator callback is
    sent to the model's `sortById`, which must reproduce the order of the returned predictions.
L3: the property on the implementation's outputs: selection never fails / terminates, indices valid
    and distinct, at most max(k, min(k_init, n)) of them, weights positive summing to 1, TopK = the k
    lowest losses, greedy loss no worse than the starting ensemble's, predictions in member order.

Histories: one selector object serves several select() calls (chains of related candidate lists / targets, see
    `gen_with_history`); EVERY call is judged against the candidates of that call (model `topKHistory` /
    `greedyHistory`, theorems C20_topk_history / C20_greedy_history; verified checker `checkTopK` per call).

Robustness rule of this file: nothing the implementation returns, stores or omits may crash the harness.
    * what `select()` returns goes through `_norm_output` (outcome `malformed` -> clause valid-distinct / weights);
    * the candidates' individual losses are computed by the harness (`_own_losses`), never read from what the
      selector chose to evaluate;
    * the recording aggregator never raises on behalf of the implementation (`rec.unobserved` -> the model is not
      asked, the oracle still judges; the iteration cut-off also counts raw aggregator calls);
    * public state of OnlineSelector / EnsemblePredictor results is read inside guards that turn an unreadable value
      into a finding with a stable fingerprint.
"""
import copy
import itertools
import threading
import time
import types
from fractions import Fraction
from math import gcd

import numpy as np

from .common import rat, unrat

MAX_ITER = 120  # iterations after which a greedy run is declared non-terminating (the model gets the same fuel)
GREEDY_DEFAULTS = {"k": 5, "k_init": 5, "max_it": -1, "eps_tol": 1e-3, "with_replacement": True,
                   "early_stopping": True, "bagging": False}


class _Batch:
    """defers the driver round trips: requests are sent pipelined, replies handed to their callbacks"""

    def __init__(self, driver, size=150):
        self.d, self.size, self.items = driver, size, []

    def ask(self, req, fn):
        self.items.append((req, fn))
        if len(self.items) >= self.size:
            self.flush()

    def flush(self):
        items, self.items = self.items, []
        for (_, fn), rep in zip(items, self.d.ask_all([r for r, _ in items])):
            fn(rep)


_WF_CLAUSES = ("valid-distinct", "at-most-k", "weights")
_TOPK_CLAUSES = ("valid-distinct", "k-lowest", "weights")
_SHRUNK = {}  # un-shrunk fingerprint -> fingerprint of its minimised case


class _TooLong(Exception):
    pass


# --------------------------------------------------------------------------- recording environment


class _Rec:
    """what the selector did with the objects it was given (during the call being judged)"""

    def __init__(self, preds, k_init_eff):
        self.reset(preds, k_init_eff)

    def reset(self, preds, k_init_eff):
        """start recording a new select() call on the same loss / aggregator / RandomState objects"""
        self.ids = {id(p): i for i, p in enumerate(preds)}
        self.k0 = k_init_eff
        self.member_loss = {}
        self.agg_calls = []  # (indices tuple, weights tuple | None, output object id)
        self.table = []  # [exact unique-counts key, loss]
        self.blocks = []  # number of candidate evaluations per iteration
        self.L0 = None
        self.bags = []
        self._T = None
        self._pending = None
        self._keep = preds  # keeps the ids valid
        self.calls = 0  # aggregator calls of this select()
        self.max_calls = (MAX_ITER + 2) * (len(preds) + 1)  # more than MAX_ITER iterations whatever could be recorded
        self.unobserved = None  # why the trace of this call cannot be reconstructed (L2 is then skipped, L3 still judges)

    def snapshot(self):
        """the record of the call that just ended (reset() re-binds every container, so a shallow copy keeps them)"""
        return copy.copy(self)


def _make_env(task, preds, k_init_eff):
    import deephyper.ensemble.aggregator as A
    import deephyper.ensemble.loss as Lo
    from deephyper.ensemble.aggregator import Aggregator

    rec = _Rec(preds, k_init_eff)
    inner_agg = {"mean": lambda: A.MeanAggregator(), "normal": lambda: A.MixedNormalAggregator(),
                 "cat": lambda: A.MixedCategoricalAggregator(), "mode": lambda: A.ModeAggregator()}[task["agg"]]()
    inner_loss = {"se": lambda: Lo.SquaredError(), "ae": lambda: Lo.AbsoluteError(),
                  "zo": lambda: Lo.ZeroOneLoss(predict_proba=task["agg"] == "cat"),
                  "cce": lambda: Lo.CategoricalCrossEntropy(), "nll": lambda: Lo.NormalNegLogLikelihood()}[task["loss"]]()

    class RecAgg(Aggregator):
        def aggregate(self, y, weights=None):
            # the recording never raises on behalf of the implementation (an exception here would surface as a failure of
            # select()): what cannot be reconstructed is marked `unobserved`; only the iteration cut-off is raised
            rec.calls += 1
            if rec.calls > rec.max_calls:
                raise _TooLong()
            key = None
            try:
                idx = tuple(rec.ids.get(id(p), -1) for p in y)
                w = None if weights is None else tuple(float(x) for x in weights)
            except Exception as e:  # noqa: BLE001
                idx, w = (-1,), None
                rec.unobserved = f"aggregator called with unexpected arguments ({type(e).__name__})"
            if -1 in idx:
                rec.unobserved = rec.unobserved or "the selector aggregated an object that is not a candidate of this call"
            elif w is not None and rec.unobserved is None:
                # exact counts: weights are counts/T with T = previous T or previous T + 1
                try:
                    fr = [Fraction(x).limit_denominator(100000) for x in w]
                except (ValueError, OverflowError):
                    fr = None
                den = 1
                for f in fr or []:
                    den = den * f.denominator // gcd(den, f.denominator)
                prev = rec._T if rec._T is not None else rec.k0 + 1
                T = prev if prev % den == 0 else prev + 1
                if fr is None or len(fr) != len(idx) or T % den != 0:
                    rec.unobserved = f"cannot reconstruct the multiset of members from the weights {w} (T={prev})"
                else:
                    if rec._T is None or T != rec._T:
                        rec._T = T
                        rec.blocks.append(0)
                        if len(rec.blocks) > MAX_ITER:
                            raise _TooLong()
                    rec.blocks[-1] += 1
                    key = [[i, int(f * T)] for i, f in zip(idx, fr)]
            out = inner_agg.aggregate(y, weights)
            rec._pending = None if rec.unobserved else (idx, key, id(out), out)
            return out

    def rec_loss(y_true, y_pred):
        scores = inner_loss(y_true, y_pred)
        val = float(np.mean(scores))
        if id(y_pred) in rec.ids:
            rec.member_loss[rec.ids[id(y_pred)]] = val
        elif rec._pending is not None and rec._pending[2] == id(y_pred):
            idx, key, _, _ = rec._pending
            if key is None:
                rec.L0 = (list(idx), val)
            else:
                rec.table.append([key, val])
            rec._pending = None
        return scores

    class RecRS(np.random.RandomState):
        def randint(self, *a, **k):
            r = super().randint(*a, **k)
            rec.bags.append(sorted(set(int(v) for v in np.atleast_1d(r))))
            return r

    return rec, RecAgg(), rec_loss, RecRS, inner_agg, inner_loss


def _own_losses(inner_loss, y, preds):
    """the individual loss of every candidate of THIS call w.r.t. the y of THIS call, computed by the harness with the
    real loss function — never taken from what the selector chose to evaluate (a selector that scores only some of the
    candidates, or scores them against something else, must not blind the oracle)"""
    return [float(np.mean(inner_loss(y, p))) for p in preds]


def _is_int(x):
    return isinstance(x, (int, np.integer)) and not isinstance(x, (bool, np.bool_))


def _is_real(x):
    return isinstance(x, (int, float, np.integer, np.floating)) and not isinstance(x, (bool, np.bool_))


def _flat(seq):
    """a list / tuple / 1-D array -> list of its elements (0-d arrays unwrapped); None if it is not a flat sequence"""
    if isinstance(seq, np.ndarray):
        return seq.tolist() if seq.ndim == 1 and not np.ma.isMaskedArray(seq) else None
    if not isinstance(seq, (list, tuple)):
        return None
    return [x.item() if isinstance(x, np.ndarray) and x.ndim == 0 else x for x in seq]


def _norm_output(out):
    """what select() returned -> (indices, weights, problem).  A pair of flat sequences (list, tuple, 1-D array — all
    are `Sequence[int]` / `Sequence[float]`) of integers / real numbers becomes plain lists of Python ints / floats;
    a part that is something else is None and `problem` says what was returned.  Never raises."""
    try:
        if not isinstance(out, (tuple, list)) or len(out) != 2:
            return None, None, f"select() returned {_short(out)} instead of (indices, weights)"
        idx, w = _flat(out[0]), _flat(out[1])
        problems = []
        if idx is None or not all(_is_int(i) for i in idx):
            problems.append(f"indices {_short(out[0])} are not a flat sequence of integers")
            idx = None
        else:
            idx = [int(i) for i in idx]
        if w is None or not all(_is_real(x) for x in w):
            problems.append(f"weights {_short(out[1])} are not a flat sequence of numbers")
            w = None
        else:
            w = [float(x) for x in w]
        return idx, w, "; ".join(problems) or None
    except Exception as e:  # noqa: BLE001
        return None, None, f"select() returned an object that cannot be read ({type(e).__name__})"


def _short(x, limit=160):
    try:
        r = repr(x)
    except Exception:  # noqa: BLE001
        r = f"<{type(x).__name__}>"
    return r if len(r) <= limit else r[:limit] + "…"


def _record_output(res, out):
    """fills outcome / indices / weights of a result from what select() returned"""
    idx, w, problem = _norm_output(out)
    if problem:
        res.update(outcome="malformed", indices=idx, weights=w, problem=problem)
    else:
        res.update(outcome="ok", indices=idx, weights=w)
    return res


def _steps_of(task):
    """the select() calls a task stands for, in call order: its history, then the task itself"""
    return list(task.get("history") or []) + [{k: v for k, v in task.items() if k != "history"}]


def _prefix_task(steps, i):
    """call number i of a history as a task of its own: judged after the calls before it on the same object"""
    return dict(steps[i], history=[copy.deepcopy(h) for h in steps[:i]]) if i else dict(steps[i])


# --------------------------------------------------------------------------- tasks (y, predictions)


def _arr(flat, shape, mask=None):
    a = np.array(flat, dtype=float).reshape(shape)
    if mask is not None:
        m = np.array(mask, dtype=bool)
        m = np.broadcast_to(m.reshape((shape[0],) + (1,) * (len(shape) - 1)), shape)
        a = np.ma.masked_array(a, mask=m)
    return a


def build(task):
    """numpy objects of a task description: (y, [prediction per candidate])"""
    S = task["S"]
    if task["kind"] == "reg":
        y = np.array(task["y"], dtype=float).reshape(S, 1)
        preds = []
        for p in task["preds"]:
            loc = _arr(p["loc"], (S, 1), p.get("mask"))
            if task["agg"] == "normal":
                preds.append({"loc": loc, "scale": _arr(p["scale"], (S, 1), p.get("mask"))})
            else:
                preds.append(loc)
        return y, preds
    C = task["C"]
    y = np.array(task["y"], dtype=int).reshape(S)
    return y, [_arr(p["loc"], (S, C), p.get("mask")) for p in task["preds"]]


def _gen_pred(rng, task, pool=()):
    """one more candidate prediction for `task` (its y, S, C, aggregator); `pool`: earlier candidates, sometimes duplicated"""
    S = task["S"]
    if task["kind"] == "reg":
        if pool and rng.random() < 0.2:
            p = copy.deepcopy(rng.choice(list(pool)))  # identical candidates: argsort / argmin ties
            p.pop("mask", None)
        else:
            noise = task.get("noise", 4)
            p = {"loc": [t + rng.randint(-noise, noise) / 8 for t in task["y"]]}
            if task["agg"] == "normal":
                p["scale"] = [rng.randint(2, 16) / 8 for _ in range(S)]
    else:
        C = task["C"]
        rows = []
        for s_ in range(S):
            cuts = sorted(rng.randint(0, 16) for _ in range(C - 1))
            q = [b - a for a, b in zip([0] + cuts, cuts + [16])]
            if rng.random() < 0.5:  # lean towards the true class
                j = task["y"][s_]
                m = max(range(C), key=lambda c: q[c])
                q[j], q[m] = q[m], q[j]
            rows += [v / 16 for v in q]
        p = {"loc": rows}
    if task.get("masked"):
        mk = [rng.random() < 0.35 for _ in range(S)]
        if all(mk):
            mk[rng.randrange(S)] = False
        p["mask"] = mk
    return p


def gen_task(rng, n, like=None):
    """`like`: another task whose kind / aggregator / loss the new one must share (same selector object)"""
    kind = like["kind"] if like else rng.choice(["reg", "reg", "cls"])
    S = rng.choice([1, 2, 3, 4, 6])
    masked = rng.random() < 0.4
    task = {"kind": kind, "S": S, "masked": False}
    if kind == "reg":
        task["agg"], task["loss"] = rng.choice([("mean", "se"), ("mean", "se"), ("mean", "ae"), ("normal", "se"),
                                                ("normal", "nll")])
        if like:
            task["agg"], task["loss"] = like["agg"], like["loss"]
        task["y"] = [rng.randint(-16, 16) / 8 for _ in range(S)]
        task["noise"] = rng.choice([1, 4, 16])
    else:
        task["C"] = rng.choice([2, 3, 4])
        task["agg"], task["loss"] = rng.choice([("cat", "zo"), ("cat", "cce"), ("cat", "cce")])
        if like:
            task["agg"], task["loss"] = like["agg"], like["loss"]
        task["y"] = [rng.randrange(task["C"]) for _ in range(S)]
    task["preds"] = []
    for _ in range(n):
        task["preds"].append(_gen_pred(rng, task, task["preds"]))
    if masked and task["loss"] == "nll":
        masked = False  # scipy's logpdf ignores masks (NaN losses): outside the selector
    if masked:
        task["masked"] = True
        for p in task["preds"]:
            mk = [rng.random() < 0.35 for _ in range(S)]
            if all(mk):
                mk[rng.randrange(S)] = False
            p["mask"] = mk
    return task


def gen_compensating(rng, n_extra):
    """a structured candidate set: the individually best members err in opposite directions (y+e, y-e, …), so the
    starting ensemble of k_init of them is much better than each of them; the other candidates have larger individual
    errors (they are not in the start) but small enough to be tempting.  -> (task, k_init)"""
    S = rng.choice([1, 2, 4])
    pairs = rng.choice([1, 1, 2])
    y = [rng.randint(-16, 16) / 8 for _ in range(S)]
    task = {"kind": "reg", "S": S, "masked": False, "agg": "mean", "loss": rng.choice(["se", "se", "ae"]), "y": y, "preds": []}
    for _ in range(pairs):
        e = [rng.choice([-1, 1]) * rng.choice([0.5, 1.0, 2.0]) for _ in range(S)]
        task["preds"].append({"loc": [t + d for t, d in zip(y, e)]})
        task["preds"].append({"loc": [t - d for t, d in zip(y, e)]})
    emax = max(abs(p["loc"][s_] - y[s_]) for p in task["preds"] for s_ in range(S))
    for _ in range(n_extra):
        f = rng.choice([1.25, 1.5, 2.0, 2.5])
        task["preds"].append({"loc": [t + rng.choice([-1, 1]) * f * emax for t in y]})
    rng.shuffle(task["preds"])
    return task, 2 * pairs


_RELATIONS = ("other", "other", "same-size", "same-size", "larger", "permuted", "other-target", "other-target",
              "appended", "shrunk", "repeat")


def _next_step(rng, prev, rel):
    """the next select() call a selector object is asked to serve, related to the previous one by `rel`"""
    n = len(prev["preds"])
    if rel == "same-size":  # other candidates, other target, as many of them (another fold, another search)
        t = gen_task(rng, n, like=prev)
    elif rel == "larger":
        t = gen_task(rng, n + rng.randint(1, 4), like=prev)
    elif rel in ("permuted", "other-target", "appended", "shrunk", "repeat"):
        t = copy.deepcopy({k: v for k, v in prev.items() if k != "rel"})
        if rel == "permuted":  # the same candidates listed in another order
            for _ in range(4):
                rng.shuffle(t["preds"])
                if t["preds"] != prev["preds"]:
                    break
        elif rel == "other-target":  # the same candidates scored against another y (of the same length)
            S = t["S"]
            if t["kind"] != "reg":
                t["y"] = [rng.randrange(t["C"]) for _ in range(S)]
            elif rng.random() < 0.5:
                t["y"] = [v + rng.choice([-0.25, 0.125, 0.5]) for v in rng.choice(t["preds"])["loc"]]  # near another candidate
            else:
                t["y"] = [rng.randint(-16, 16) / 8 for _ in range(S)]
        elif rel == "appended":  # the list grown by appending (what online selection does)
            for _ in range(rng.randint(1, 3)):
                t["preds"].append(_gen_pred(rng, t, t["preds"]))
        elif rel == "shrunk" and n >= 2:
            keep = sorted(rng.sample(range(n), rng.randint(1, n - 1)))
            t["preds"] = [t["preds"][i] for i in keep]
    else:  # "other": unrelated candidates, any size (smaller, equal or larger)
        t = gen_task(rng, rng.choice([1, 2, 3, 4, 6, 9]), like=prev)
    t["rel"] = rel
    return t


def gen_with_history(rng, n):
    """a task to be selected on a selector object that already served 1..3 other select() calls.  The calls form a chain:
    each is derived from the one before it — unrelated candidates of any size, as many / more other candidates, the same
    candidates permuted, the same candidates against another target, the list grown by appending, a sub-list, the same
    call again.  (The chain starts from `n` candidates; every call of it is judged, see `_topk_case` / `_greedy_case`.)"""
    steps = [gen_task(rng, n)]
    for _ in range(rng.randint(1, 3)):
        steps.append(_next_step(rng, steps[-1], rng.choice(_RELATIONS)))
    return dict(steps[-1], history=steps[:-1])


def gen_opts(rng, n):
    o = dict(GREEDY_DEFAULTS)
    o["k"] = rng.choice([1, 2, 3, 3, 4, 5, 5, 8, 14])
    o["k_init"] = rng.choice([1, 1, 1, 1, 2, 2, 3, 5, 5, 14])
    o["max_it"] = rng.choice([-1, -1, -1, 0, 1, 3, 10])
    o["eps_tol"] = rng.choice([1e-3, 1e-3, 1e-3, 2.0 ** -10, 2.0 ** -4, 0.5])
    o["with_replacement"] = rng.random() < 0.5
    o["early_stopping"] = rng.random() < 0.6
    o["bagging"] = rng.random() < 0.3
    o["seed"] = rng.randrange(1000)
    if rng.random() < 0.08:
        o["verbose"] = True
    return o


# --------------------------------------------------------------------------- running the real selectors


def run_greedy_steps(steps, opts):
    """every select() call of `steps` on ONE GreedySelector object -> one result per call:
    dict(outcome='ok'|'malformed'|'exc'|'toolong', indices, weights, rec (the record of that call), y, preds, losses
    (the candidates' own losses, computed by the harness), ...); `opts["verbose"]`: the selector's trace printing (captured)"""
    import contextlib
    import io

    from deephyper.ensemble.selector import GreedySelector

    built = [build(t) for t in steps]
    rec, agg, loss, RS, inner_agg, inner_loss = _make_env(steps[0], built[0][1], min(opts["k_init"], len(built[0][1])))
    kw = {k: opts[k] for k in GREEDY_DEFAULTS}
    sel = GreedySelector(loss, agg, random_state=RS(opts.get("seed", 0)), verbose=bool(opts.get("verbose")), **kw)
    out = []
    with contextlib.redirect_stdout(io.StringIO()):
        for y, preds in built:
            res = {"y": y, "preds": preds, "inner_agg": inner_agg, "inner_loss": inner_loss,
                   "losses": _own_losses(inner_loss, y, preds)}
            rec.reset(preds, min(opts["k_init"], len(preds)))
            try:
                _record_output(res, sel.select(y, preds))
            except _TooLong:
                res["outcome"] = "toolong"
            except Exception as e:  # noqa: BLE001 - a call that failed / was cut off is part of the history too
                res.update(outcome="exc", exc=f"{type(e).__name__}: {str(e)[:160]}")
            res["rec"] = rec.snapshot()
            out.append(res)
    return out


def run_greedy(task, opts, via_online=False):
    """the last call of `task` (after the earlier select() calls of `task["history"]` on the same selector object)"""
    return run_greedy_steps(_steps_of(task), opts)[-1]


def _ens_loss(res, indices, weights):
    out = res["inner_agg"].aggregate([res["preds"][i] for i in indices], weights)
    return float(np.mean(res["inner_loss"](res["y"], out)))


def greedy_req(task, opts, res, pre=False):
    rec = res["rec"]
    n = len(res["preds"])
    if rec.unobserved:
        return None
    losses = res["losses"] if "losses" in res else [rec.member_loss.get(i) for i in range(n)]
    if any(v is None or not np.isfinite(v) for v in losses):
        return None
    order = [int(i) for i in np.argsort(losses)]
    l0 = rec.L0[1] if rec.L0 is not None else 0.0
    if not np.isfinite(l0) or any(not np.isfinite(v) for _, v in rec.table):
        return None
    return {"op": "greedy", "n": n, "pre": pre, "fuel": MAX_ITER,
            "opts": {"k": opts["k"], "k_init": opts["k_init"], "max_it": opts["max_it"], "eps_tol": rat(opts["eps_tol"]),
                     "with_replacement": opts["with_replacement"], "early_stopping": opts["early_stopping"],
                     "bagging": opts["bagging"]},
            "losses": [rat(v) for v in losses], "order": order, "L0": rat(l0),
            "table": [[k, rat(v)] for k, v in rec.table], "bags": rec.bags}


def greedy_compare(opts, res, rep):
    """model vs implementation -> None | text"""
    rec = res["rec"]
    if not rep["order_ok"]:
        return "np.argsort returned an order that is not a loss-sorted permutation (contract of the model)"
    m = rep["res"]
    if res["outcome"] == "toolong":
        return None if m == "outOfFuel" else f"impl still looping after {MAX_ITER} iterations, model: {m}"
    if res["outcome"] == "exc":
        return None if m in ("emptyEnsemble", "allNaN") else f"impl raised {res['exc']}, model: {m} {rep['indices']}"
    if res["outcome"] == "malformed":
        return f"impl: {res['problem']}, model: {m} {rep['indices']}"
    if m != "ok":
        return f"impl returned {res['indices']}, model: {m}"
    near = rep["margin"] is not None and float(unrat(rep["margin"])) < 1e-12
    if list(res["indices"]) != rep["indices"]:
        return None if near else f"indices: impl {res['indices']}, model {rep['indices']}"
    mw = [float(unrat(v)) for v in rep["weights"]]
    if len(mw) != len(res["weights"]) or any(abs(a - b) > 1e-12 for a, b in zip(res["weights"], mw)):
        return f"weights: impl {res['weights']}, model {mw}"
    if rep["missing"] and not near:
        return "the model evaluated a multiset whose loss the implementation never computed"
    # an iteration without eligible candidate calls neither the aggregator nor the loss: invisible from outside
    if [len(e) for e in rep["evals"] if e] != rec.blocks and not near:
        return f"candidates evaluated per iteration: impl {rec.blocks}, model {[len(e) for e in rep['evals']]}"
    return None


def _gfp(clause, task, opts, n, full=False):
    """fingerprint: the option values / input class that put the case outside the proved region"""
    nd = [f"{k}={opts[k]}" for k in ("early_stopping", "with_replacement", "bagging") if opts[k] != GREEDY_DEFAULTS[k]]
    if opts["max_it"] >= 0:
        nd.append("max_it>=0")
    cls = ["candidates=1"] if n == 1 else (["candidates<k"] if n < opts["k"] else [])
    if clause == "no-worse-than-start" and not opts["early_stopping"]:
        nd, cls = ["early_stopping=False"], []
    elif clause == "terminates" and not opts["early_stopping"] and opts["with_replacement"] and opts["max_it"] < 0:
        nd, cls = ["early_stopping=False", "with_replacement=True", "max_it=-1"], []
    elif full and task.get("masked"):
        cls.append("masked")
    if task.get("history") and clause not in ("no-worse-than-start", "terminates"):
        cls.append("reused-selector")
    elif task.get("history") and (opts["early_stopping"] or (clause == "terminates" and (not opts["with_replacement"] or opts["max_it"] >= 0))):
        cls.append("reused-selector")
    return f"C20|{clause}|GreedySelector.select|{','.join(nd + cls)}"


def greedy_oracle(task, opts, res):
    """-> list of (clause, detail)"""
    n = len(res["preds"])
    pre = []
    if task.get("history") and not opts["bagging"] and not res.get("_fresh"):
        # the same call on a fresh selector (bagging: the random stream legitimately continues across calls)
        fresh = run_greedy(dict(task, history=None), opts)
        same = fresh["outcome"] == res["outcome"] and (res["outcome"] != "ok" or (
            list(fresh["indices"]) == list(res["indices"]) and list(fresh["weights"]) == list(res["weights"])))
        if not same:
            pre = [("reuse-independent", f"reused selector: {res['outcome']} {res.get('indices')} {res.get('weights')}; "
                                         f"fresh selector: {fresh['outcome']} {fresh.get('indices')} {fresh.get('weights')}")]
    return pre + _greedy_oracle(task, opts, res)


def _greedy_oracle(task, opts, res):
    n = len(res["preds"])
    if res["outcome"] == "exc":
        return [("never-fails", res["exc"])]
    if res["outcome"] == "toolong":
        l0 = res["rec"].L0[1] if res["rec"].L0 else 0.0
        if opts["early_stopping"] and not (task["loss"] != "nll" and opts["eps_tol"] > 0 and l0 / opts["eps_tol"] + 1 < MAX_ITER):
            # each iteration lowers a loss that is bounded below by more than eps_tol: it terminates, but the bound
            # (L0 / eps_tol iterations; none for an unbounded loss) is beyond what this run waits for
            return [("inconclusive", "long early-stopping run")]
        return [("terminates", f"more than {MAX_ITER} greedy iterations (ensemble of {res['rec']._T} non-unique members)")]
    idx, w = res["indices"], res["weights"]
    fails = []
    if idx is None:
        fails.append(("valid-distinct", res["problem"]))
    elif not all(0 <= i < n for i in idx) or len(set(idx)) != len(idx) or not idx:
        fails.append(("valid-distinct", f"indices {idx} for {n} candidates"))
    bound = max(opts["k"], min(opts["k_init"], n))
    if idx is not None and len(idx) > bound:
        fails.append(("at-most-k", f"{len(idx)} members, bound max(k, min(k_init, n)) = {bound}"))
    if w is None:
        fails.append(("weights", res["problem"]))
    elif (idx is not None and len(w) != len(idx)) or not all(x > 0 for x in w) or not abs(sum(w) - 1) <= 1e-9:
        fails.append(("weights", f"weights {w}"))
    # the starting ensemble, determined independently of what the selector computed: the min(k_init, n) candidates of
    # lowest individual loss (np.argsort of the candidates' own losses, evaluated by the harness), aggregated without weights
    ml = res["losses"] if "losses" in res else [res["rec"].member_loss.get(i) for i in range(n)]
    if not fails and all(v is not None and np.isfinite(v) for v in ml):
        init = [int(i) for i in np.argsort(ml)[: opts["k_init"]]]
        unchanged = sorted(idx) == sorted(init) and max(w) - min(w) < 1e-15
        # (the starting ensemble itself, returned with uniform weights: the same mixture as its un-weighted aggregation —
        #  C19_uniform_eq_none / C19_perm; re-evaluating it could only differ by float rounding, which a discontinuous
        #  loss such as 0-1 at an exact argmax tie turns into a jump)
        if init and not unchanged:
            start = _ens_loss(res, init, None)
            final = _ens_loss(res, idx, w)
            if not final <= start + 1e-9 * (1 + abs(start)):
                fails.append(("no-worse-than-start", f"loss of the returned ensemble {final!r} > loss of the starting "
                                                     f"ensemble {init}: {start!r}"))
    return fails


def shrink_greedy(task, opts, clause):
    """smaller task / options closer to the defaults that still fail `clause`"""

    def fails(t, o):
        try:
            r = run_greedy(t, o)
            return any(c == clause for c, _ in greedy_oracle(t, o, r))
        except Exception:  # noqa: BLE001
            return False

    task, opts = copy.deepcopy(task), dict(opts)
    if task.get("history"):
        t2 = copy.deepcopy(task)
        t2.pop("history")
        if fails(t2, opts):
            task = t2
        else:
            i = 0
            while len(task["history"]) > 1 and i < len(task["history"]):
                t2 = copy.deepcopy(task)
                del t2["history"][i]
                if fails(t2, opts):
                    task = t2
                else:
                    i += 1
    for _ in range(2):  # masks, options, candidates, then once more on the smaller candidate set
        if task.get("masked"):
            t2 = copy.deepcopy(task)
            t2["masked"] = False
            for p in t2["preds"]:
                p.pop("mask", None)
            if fails(t2, opts):
                task = t2
        for k in ("bagging", "max_it", "with_replacement", "early_stopping", "eps_tol", "k_init", "k"):
            if opts[k] != GREEDY_DEFAULTS[k]:
                o2 = dict(opts, **{k: GREEDY_DEFAULTS[k]})
                if fails(task, o2):
                    opts = o2
        i = 0
        while len(task["preds"]) > 1 and i < len(task["preds"]):
            t2 = copy.deepcopy(task)
            del t2["preds"][i]
            if fails(t2, opts):
                task = t2
            else:
                i += 1
    return task, opts


# --------------------------------------------------------------------------- top-k


def run_topk_steps(steps, k):
    """every select() call of `steps` on ONE TopKSelector(k) object -> one result per call: dict(outcome='ok'|'malformed'|
    'exc', indices, weights, n, losses (the candidates' own losses w.r.t. the y of that call, computed by the harness),
    scored (how many candidates the selector itself scored during the call))"""
    from deephyper.ensemble.selector import TopKSelector

    built = [build(t) for t in steps]
    rec, _, loss, _, _, inner_loss = _make_env(steps[0], built[0][1], 0)
    sel = TopKSelector(loss, k=k)
    out = []
    for y, preds in built:
        res = {"n": len(preds), "losses": _own_losses(inner_loss, y, preds)}
        rec.reset(preds, 0)
        try:
            _record_output(res, sel.select(y, preds))
        except Exception as e:  # noqa: BLE001 - a call that failed is part of the history too
            res.update(outcome="exc", exc=f"{type(e).__name__}: {str(e)[:160]}")
        res["rec"] = rec.snapshot()
        res["scored"] = len(res["rec"].member_loss)
        out.append(res)
    return out


def run_topk(task, k):
    """the last call of `task` (after the earlier select() calls of `task["history"]` on the same selector object)"""
    return run_topk_steps(_steps_of(task), k)[-1]


def topk_oracle(res, k, task=None):
    """-> list of (clause, detail) for one call; `task` with a history: also compared with the same call on a fresh selector"""
    pre = []
    if task is not None and task.get("history"):
        fresh = run_topk(dict(task, history=None), k)
        if (fresh["outcome"], fresh.get("indices"), fresh.get("weights")) != (res["outcome"], res.get("indices"), res.get("weights")):
            pre = [("reuse-independent", f"reused selector: {res['outcome']} {res.get('indices')}; fresh selector: "
                                         f"{fresh['outcome']} {fresh.get('indices')}")]
    if res["outcome"] == "exc":
        return pre + [("never-fails", res["exc"])]
    return pre + _topk_oracle(res, k)


def _topk_oracle(res, k):
    """the TopK clause on what the call returned, against the candidates' own losses (never the selector's own scoring:
    a selector that scored only some candidates of this call, or none, is judged like any other)"""
    n, idx, w, losses = res["n"], res["indices"], res["weights"], res["losses"]
    fails = []
    if idx is None:
        fails.append(("valid-distinct", res["problem"]))
    elif not all(0 <= i < n for i in idx) or len(set(idx)) != len(idx):
        fails.append(("valid-distinct", f"indices {idx} for {n} candidates"))
    elif len(idx) != min(k, n):
        fails.append(("k-lowest", f"{len(idx)} members selected, expected min(k, n) = {min(k, n)}"))
    elif not all(np.isfinite(v) for v in losses):
        pass  # a NaN loss has no rank (outside the generator: every member has an unmasked row)
    elif idx and max(losses[i] for i in idx) > min([losses[j] for j in range(n) if j not in idx] or [np.inf]):
        fails.append(("k-lowest", f"selected {idx} but the candidates' losses are {losses}"))
    if w is None:
        fails.append(("weights", res["problem"]))
    elif (idx is not None and len(w) != len(idx)) or not all(x > 0 for x in w):
        fails.append(("weights", f"weights {w}"))
    return fails


def _topk_clauses_failing(steps, k):
    """clauses failing at the LAST call of `steps` served by one selector object (used by the shrinker; never raises)"""
    try:
        return {c for c, _ in topk_oracle(run_topk_steps(steps, k)[-1], k, _prefix_task(steps, len(steps) - 1))}
    except Exception:  # noqa: BLE001
        return set()


def shrink_topk(steps, k, clause):
    """-> (steps', reused): fewer earlier calls that still make `clause` fail at the last one; reused = False when the
    call fails `clause` on a fresh selector too (the history is then dropped)"""
    steps = [copy.deepcopy(t) for t in steps]
    if len(steps) > 1 and clause != "reuse-independent" and clause in _topk_clauses_failing(steps[-1:], k):
        return steps[-1:], False
    i = 0
    while len(steps) > 2 and i < len(steps) - 1:
        t2 = steps[:i] + steps[i + 1:]
        if clause in _topk_clauses_failing(t2, k):
            steps = t2
        else:
            i += 1
    return steps, len(steps) > 1


# --------------------------------------------------------------------------- EnsemblePredictor ordering


_GATES = {}  # run key -> list of threading.Event (kept out of the predictor objects: job parameters are copied)


class _Member:
    """a predictor that returns a prediction identifying it (2 cells: i, i*i + 1/2) once it is its turn to
    finish; `fail`: raise instead"""

    def __init__(self, i, rank, key, fail=False):
        self.i, self.rank, self.key, self.fail = i, rank, key, fail

    def predict(self, X):
        gates = _GATES.get(self.key)
        if gates is not None:
            gates[self.rank].wait(timeout=10)
            time.sleep(0.003)
        try:
            if self.fail:
                raise ValueError(f"member {self.i} cannot predict")
            return np.array([[float(self.i), float(self.i * self.i) + 0.5]])
        finally:
            if gates is not None and self.rank + 1 < len(gates):
                gates[self.rank + 1].set()

    def __repr__(self):
        return f"_Member({self.i})"


def _loader_class():
    from deephyper.predictor import PredictorLoader

    class _Loader(PredictorLoader):
        """a PredictorLoader: the member is loaded inside the job"""

        def __init__(self, member):
            self.member, self.i = member, member.i

        def load(self):
            return self.member

        def __repr__(self):
            return f"_Loader({self.i})"

    return _Loader


def run_predictor(finish_order, mode="list", loader=False, fail=None, evaluator="scripted", history=None, via_copy=False):
    """members finish in `finish_order` (list of member indices).
    mode: "list" = predictions_from_predictors, "predict" = predict() (MeanAggregator, weights 1,2,4,…);
    loader: members are PredictorLoaders; fail: index of a member whose predict raises;
    evaluator: "scripted" (thread backend, one worker per member, event chain), None / "thread" / dict (the constructor's
    other accepted forms; one worker, completion = submission order);
    history: earlier calls ({"finish_order", "mode", "loader", "fail", "copy"}) made on the SAME EnsemblePredictor — or,
    with "copy", on a shallow copy sharing its evaluator, as `OnlineSelector.ensemble` hands out — with their own member
    sets (other sizes); via_copy: the judged call itself goes through such a copy"""
    import copy as _copy

    from deephyper.ensemble import EnsemblePredictor
    from deephyper.ensemble.aggregator import MeanAggregator
    from deephyper.evaluator.callback import Callback

    history = history or []
    n = len(finish_order)
    nmax = max([n] + [len(h["finish_order"]) for h in history])
    seen = []

    class Spy(Callback):
        def on_done(self, job):
            # never raises inside the evaluator: a job whose member cannot be identified is recorded as None (the
            # completion order is then unobservable and the model is not asked)
            try:
                seen.append((str(job.id), int(getattr(job.args["predictor"], "i"))))
            except Exception:  # noqa: BLE001
                seen.append((str(getattr(job, "id", "?")), None))

    def members_of(order, loader_, fail_):
        key, gates = None, []
        if evaluator == "scripted":
            gates = [threading.Event() for _ in range(len(order))]
            gates[0].set()
            key = f"run{len(_GATES)}"
            _GATES[key] = gates
        rank = {m: r for r, m in enumerate(order)}
        ms = [_Member(i, rank[i], key, fail=(fail_ == i)) for i in range(len(order))]
        if loader_:
            L = _loader_class()
            ms = [L(m) for m in ms]
        return ms, gates

    def one_call(ens, order, mode_, loader_, fail_, copy_):
        ms, gates = members_of(order, loader_, fail_)
        target = _copy.copy(ens) if copy_ else ens
        target.predictors = ms
        target.weights = [float(2 ** i) for i in range(len(order))]
        X = np.zeros((1, 1))
        try:
            if mode_ == "predict":
                return {"raw_predict": target.predict(X)}
            return {"raw_returned": target.predictions_from_predictors(X, ms)}
        finally:
            for g in gates:
                g.set()

    def decode(out):
        """the returned predictions -> member numbers / cells; what cannot be decoded is `malformed` (the members return
        arrays identifying them: anything else is not a member's prediction), never an exception of the harness"""
        try:
            if "raw_predict" in out:
                return {"predict": [float(v) for v in np.asarray(out["raw_predict"], dtype=float).reshape(-1)]}
            return {"returned": [int(np.asarray(a, dtype=float).reshape(-1)[0]) for a in out["raw_returned"]]}
        except Exception as e:  # noqa: BLE001
            return {"malformed": f"{_short(out.get('raw_predict', out.get('raw_returned')))} ({type(e).__name__})"}

    weights = [float(2 ** i) for i in range(n)]
    res = {"seen": seen, "weights": weights}
    try:
        if evaluator == "scripted":
            ev = {"method": "thread", "method_kwargs": {"num_workers": nmax, "callbacks": [Spy()]}}
        else:
            ev = evaluator
        ens = EnsemblePredictor([], MeanAggregator(), weights=None, evaluator=ev)
        for h in history:
            try:
                one_call(ens, h["finish_order"], h.get("mode", "list"), h.get("loader", False), h.get("fail"), h.get("copy", False))
            except Exception:  # noqa: BLE001 - an earlier call that failed is part of the history too
                pass
        del seen[:]
        raw = one_call(ens, finish_order, mode, loader, fail, via_copy)
    except Exception as e:  # noqa: BLE001
        res.update(outcome="exc", exc=f"{type(e).__name__}: {str(e)[:200]}", exc_type=type(e).__name__)
        return res
    dec = decode(raw)
    res.update(outcome="malformed" if "malformed" in dec else "ok", **dec)
    return res


# --------------------------------------------------------------------------- run


def _greedy_case(ck, d, task, opts, label="greedy", res=None, verbose=False):
    """one select() call — or, for a task with a history, EVERY call of the history on one selector object: call i is
    judged (L2 model, L3 clauses, same result as on a fresh selector) as the case `history = calls before i, task = call i`"""
    if res is None and task.get("history"):
        steps = _steps_of(task)
        for i, r in enumerate(run_greedy_steps(steps, opts)):
            if i:
                ck.count(f"{label}:reused-selector:relation={steps[i].get('rel', 'other')}")
            _greedy_one(ck, d, _prefix_task(steps, i), opts, label, r, verbose)
        return
    _greedy_one(ck, d, task, opts, label, res or run_greedy(task, opts), verbose)


def _greedy_one(ck, d, task, opts, label, res, verbose=False):
    n = len(task["preds"])
    case = {"kind": "greedy", "task": task, "opts": opts}
    nontriv = n >= 2 and res["outcome"] == "ok" and len(res["rec"].blocks) >= 1
    ck.case(case, nontrivial=nontriv)
    ck.count(f"{label}:outcome:{res['outcome']}")
    ck.count(f"{label}:n={n}")
    if task.get("history"):
        ck.count(f"{label}:reused-selector:earlier-calls={len(task['history'])}")
    ck.count(f"{label}:iterations={min(len(res['rec'].blocks), 6)}{'+' if len(res['rec'].blocks) > 6 else ''}")
    ck.count(f"{label}:{task['agg']}/{task['loss']}{'/masked' if task.get('masked') else ''}")
    for k_ in ("with_replacement", "early_stopping", "bagging"):
        ck.count(f"{label}:{k_}={opts[k_]}")
    req = greedy_req(task, opts, res)
    dis = None
    if req is None:
        ck.count(f"{label}:" + ("trace-not-reconstructible(model not asked)" if res["rec"].unobserved
                                else "non-finite-member-loss(skipped)"))
        if verbose and res["rec"].unobserved:
            print("replay:", {"model": "not asked", "why": res["rec"].unobserved})
    else:
        slim = {k: res.get(k) for k in ("outcome", "exc", "indices", "weights", "problem")}
        slim["rec"] = types.SimpleNamespace(blocks=list(res["rec"].blocks))

        def on_reply(rep, case=case, opts=opts, slim=slim):
            ck.count(f"{label}:model:{rep['res']}")
            dis = greedy_compare(opts, slim, rep)
            if verbose:
                print("replay:", {"model": {k: rep[k] for k in ("res", "indices", "weights")}, "model_vs_impl": dis or "agree"})
            if dis:
                ck.mismatch(case, dis)

        d.ask(req, on_reply)
    fails = greedy_oracle(task, opts, res)
    if verbose:
        print("replay:", {"impl": {k: res.get(k) for k in ("outcome", "exc", "indices", "weights")}, "oracle": fails or "holds"})

    def report(clause, detail):
        pre = _gfp(clause, task, opts, n, full=True)
        if pre in _SHRUNK:  # same class already minimised in this run: count the occurrence
            ck.fail(_SHRUNK[pre], f"GreedySelector: {clause} fails", case, detail)
            return
        t2, o2 = shrink_greedy(task, opts, clause)
        r2 = run_greedy(t2, o2)
        d2 = [x for c, x in greedy_oracle(t2, o2, r2) if c == clause]
        _SHRUNK[pre] = _gfp(clause, t2, o2, len(t2["preds"]), full=True)
        ck.fail(_SHRUNK[pre], f"GreedySelector: {clause} fails",
                {"kind": "greedy", "task": t2, "opts": o2}, d2[0] if d2 else detail)

    # well-formedness of the returned (indices, weights): decided by the verified checker `checkGreedyOut` run by the
    # driver on the real output (C20_checker); the Python statement is the cross-check (disagreement = mismatch)
    wf = [(c, dt) for c, dt in fails if c in _WF_CLAUSES]
    sendable = res["outcome"] == "ok" and all(i >= 0 for i in res["indices"]) and all(np.isfinite(x) for x in res["weights"])
    if sendable:
        def on_check(rep, wf=wf):
            ck.count(f"{label}:verified-checker:{'pass' if rep['spec'] else 'fail'}")
            if bool(rep["spec"]) != (not wf):
                ck.mismatch(case, f"verified checker checkGreedyOut = {rep['spec']} but the Python oracle says {wf or 'well-formed'} "
                                  f"for {res['indices']} {res['weights']}")
            if not rep["spec"]:
                for clause, detail in (wf or [("well-formed", f"checkGreedyOut = false for {res['indices']} {res['weights']}")]):
                    report(clause, detail)

        d.ask({"op": "check_greedy", "tol": rat(1e-9), "n": n, "bound": max(opts["k"], min(opts["k_init"], n)),
               "indices": list(res["indices"]), "weights": [rat(x) for x in res["weights"]]}, on_check)
    for clause, detail in fails:
        if clause == "inconclusive":
            ck.count(f"{label}:inconclusive-long-early-stopping-run")
            continue
        if clause in _WF_CLAUSES and sendable:
            continue
        report(clause, detail)


def _topk_case(ck, d, task, k, verbose=False):
    """every select() call of the task's history (then the task itself) on ONE TopKSelector(k) object; call i is judged as
    the case `history = calls before i, task = call i`.  L2: the whole history goes to the model of the object
    (`topKHistory`, C20_topk_history: the answer to a call is a function of that call alone); L3: the verified checker
    `checkTopK` on the real answer of every call against the candidates' own losses of THAT call (computed by the harness),
    cross-checked by the Python statement; plus never-fails and reuse-independent (same answer as a fresh selector)."""
    steps = _steps_of(task)
    results = run_topk_steps(steps, k)
    if len(steps) > 1:
        ck.count(f"topk:reused-selector:earlier-calls={len(steps) - 1}")
    per = []
    for i, res in enumerate(results):
        t_i = _prefix_task(steps, i)
        n = res["n"]
        case = {"kind": "topk", "task": t_i, "k": k}
        ck.case(case, nontrivial=n >= 2 and k < n)
        ck.count(f"topk:outcome:{res['outcome']}")
        ck.count("topk:" + ("k<n" if k < n else "k>=n"))
        if i:
            ck.count(f"topk:reused-selector:relation={steps[i].get('rel', 'other')}")
            ck.count("topk:reused-selector:" + ("shorter-list" if n < results[i - 1]["n"] else "same-length-list"
                                                if n == results[i - 1]["n"] else "longer-list"))
        if res["scored"] != n:
            ck.count("topk:selector-did-not-score-every-candidate-of-the-call")
        fails = topk_oracle(res, k, t_i)
        if verbose:
            print("replay:", {"call": i, "impl": {k_: res.get(k_) for k_ in ("outcome", "exc", "problem", "indices", "weights")},
                              "own_losses": res["losses"], "oracle": fails or "holds"})
        per.append((case, res, fails))

    def tfail(i, clause, detail):
        n = results[i]["n"]
        st2, reused = shrink_topk(steps[: i + 1], k, clause) if i else (steps[:1], False)
        tags = ["candidates=1" if n == 1 else "candidates<k" if n < k else "", "reused-selector" if reused else ""]
        ck.fail(f"C20|{clause}|TopKSelector.select|" + ",".join(x for x in tags if x), f"TopKSelector: {clause} fails",
                {"kind": "topk", "task": _prefix_task(st2, len(st2) - 1), "k": k}, detail)

    finite = all(np.isfinite(v) for _, res, _ in per for v in res["losses"])
    if not finite:
        ck.count("topk:non-finite-member-loss(model not asked)")
        for i, (_, _, fails) in enumerate(per):
            for clause, detail in fails:
                tfail(i, clause, detail)
        return

    def sendable(res):
        return (res["outcome"] in ("ok", "malformed") and res["indices"] is not None and res["weights"] is not None
                and all(j >= 0 for j in res["indices"]) and all(np.isfinite(x) for x in res["weights"]))

    def on_reply(rep):
        if rep["all"] is not None:
            ck.count(f"topk:verified-history-checker:{'pass' if rep['all'] else 'fail'}")
        for i, ((case, res, fails), st) in enumerate(zip(per, rep["steps"])):
            ck.count("topk:argsort-stable" if st["stable"] else "topk:argsort-not-stable")
            dis = None
            if not st["order_ok"]:
                dis = "np.argsort returned an order that is not a loss-sorted permutation"
            elif res["outcome"] == "ok" and (st["sel"] != res["indices"] or [float(unrat(v)) for v in st["weights"]] != res["weights"]):
                dis = (f"call {i} of the history on one selector object: impl {res['indices']} {res['weights']}, "
                       f"model {st['sel']} {st['weights']}")
            if verbose:
                print("replay:", {"call": i, "model": st, "model_vs_impl": dis or "agree"})
            if dis:
                ck.mismatch(case, dis)
            spec = [(c, dt) for c, dt in fails if c in _TOPK_CLAUSES]
            if st["spec"] is not None:
                # the TopK clause is decided by the verified checker `checkTopK` (C20_checker) on the real answer of this
                # call; the Python statement is the cross-check (disagreement = mismatch)
                ck.count(f"topk:verified-checker:{'pass' if st['spec'] else 'fail'}")
                if bool(st["spec"]) != (not spec):
                    ck.mismatch(case, f"verified checker checkTopK = {st['spec']} but the Python oracle says {spec or 'k lowest'}")
                if not st["spec"]:
                    for clause, detail in (spec or [("k-lowest", f"checkTopK = false for {res['indices']} {res['weights']}")]):
                        tfail(i, clause, detail)
            for clause, detail in fails:
                if clause in _TOPK_CLAUSES and st["spec"] is not None:
                    continue
                tfail(i, clause, detail)

    d.ask({"op": "topk_history", "k": k,
           "calls": [{"losses": [rat(v) for v in res["losses"]], "order": [int(j) for j in np.argsort(res["losses"])]}
                     for _, res, _ in per],
           "outs": [{"indices": list(res["indices"]), "weights": [rat(x) for x in res["weights"]]} if sendable(res) else None
                    for _, res, _ in per]}, on_reply)


def _online_jobs(task, fail_at):
    """the finished jobs of an online session, in completion order: (position, job, sub-task of the successful jobs so far)"""
    y, preds = build(dict(task, masked=False, preds=[{k: v for k, v in p.items() if k != "mask"} for p in task["preds"]]))
    S = task["S"]
    for j, p in enumerate(task["preds"]):
        if j in fail_at:
            yield j, types.SimpleNamespace(id=f"0.{j}", output={"objective": "F_failed"}), None
            continue
        rows = [s_ for s_ in range(S) if not (p.get("mask") or [False] * S)[s_]]
        job = types.SimpleNamespace(id=f"0.{j}", output={"objective": 0.0, "online_selector": {"y_pred": preds[j][rows], "y_pred_idx": rows}})
        yield j, job, dict(task, preds=[q for i, q in enumerate(task["preds"][:j + 1]) if i not in fail_at])


def _stored_predictions_problem(online, sub):
    """every finished job's stored prediction must be valid exactly on the job's own y_pred_idx, with its own values there
    -> None | text.  Reads public attributes of the implementation only; anything unreadable is a finding, not a crash."""
    try:
        _, exp = build(sub)
        got = list(online.y_predictors)
        if len(got) != len(exp):
            return f"bookkeeping: y_predictors holds {len(got)} entries after {len(exp)} finished jobs"
        for k_, (got_a, exp_a) in enumerate(zip(got, exp)):
            gm, em = np.ma.getmaskarray(got_a), np.ma.getmaskarray(exp_a)
            if gm.shape != em.shape or (gm != em).any():
                return (f"finished job #{k_}: valid samples {np.nonzero(~gm.reshape(len(gm), -1).all(axis=1))[0].tolist()}, "
                        f"its y_pred_idx {np.nonzero(~em.reshape(len(em), -1).all(axis=1))[0].tolist()}")
            if not np.array_equal(np.ma.getdata(got_a)[~em], np.ma.getdata(exp_a)[~em]):
                return f"finished job #{k_}: stored values differ from its own predictions on its own indices"
    except Exception as e:  # noqa: BLE001
        return f"bookkeeping: y_predictors cannot be read as one masked prediction per finished job ({type(e).__name__}: {str(e)[:120]})"
    return None


def _run_prior_sessions(make_online, prior):
    """earlier online sessions served by the SAME inner selector object (another search / another validation set reusing
    the selector); their own judgement happens where they are generated as sessions of their own"""
    for ses in prior or []:
        try:
            online = make_online(ses["task"])
            for _, job, _ in _online_jobs(ses["task"], set(ses.get("fail_at", []))):
                online.on_done(job)
        except Exception:  # noqa: BLE001 - an earlier session that failed is part of the history too
            pass


def _online_case(ck, d, task, opts, fail_at, prior=None, verbose=False):
    """OnlineSelector.on_done after every finished job (the first call sees one candidate); `prior`: earlier sessions
    ({"task", "fail_at"}) that the same GreedySelector object served through other OnlineSelector objects"""
    from deephyper.ensemble.selector import GreedySelector, OnlineSelector

    case = {"kind": "online", "task": task, "opts": opts, "fail_at": sorted(fail_at)}
    if prior:
        case["prior"] = prior
        ck.count(f"online:reused-selector:earlier-sessions={len(prior)}")
    tag = "reused-selector" if prior else ""
    holder = {}

    class Sel(GreedySelector):
        # the selector OnlineSelector calls; every call is recorded like a direct call
        def select(self, y_, y_predictors):
            rec, agg, loss, RS, inner_agg, inner_loss = _make_env(task, y_predictors, min(opts["k_init"], len(y_predictors)))
            self.loss_func, self.aggregator = loss, agg
            self.random_state = RS(opts.get("seed", 0))
            holder.update(rec=rec, inner_agg=inner_agg, inner_loss=inner_loss, y=y_, preds=list(y_predictors),
                          losses=_own_losses(inner_loss, y_, y_predictors))
            return super().select(y_, y_predictors)

    kw = {k: opts[k] for k in GREEDY_DEFAULTS}
    proto = types.SimpleNamespace(predictors=None, weights=None, tag="ensemble-prototype")
    selector = Sel(None, None, **kw)

    def make_online(t):
        return OnlineSelector(build(dict(t, masked=False, preds=[]))[0], selector, proto, lambda job_id: ("loaded", job_id))

    _run_prior_sessions(make_online, prior)
    online = make_online(task)
    n_ok = 0
    for j, job, sub in _online_jobs(task, fail_at):
        if sub is None:
            try:
                online.on_done(job)
            except Exception as e:  # noqa: BLE001
                ck.fail(f"C20|never-fails|OnlineSelector.on_done|failed-job{',' + tag if tag else ''}",
                        "OnlineSelector: on_done raises on a failed job", case, f"{type(e).__name__}: {str(e)[:160]}")
                return
            continue
        n_ok += 1
        holder.clear()
        try:
            (online.on_done_other if j % 3 == 2 else online.on_done)(job)  # jobs finished by other processes: same path
            res = _record_output(dict(holder), (online.selected_predictors_indexes, online.selected_predictors_weights))
        except _TooLong:
            res = dict(holder, outcome="toolong")
        except Exception as e:  # noqa: BLE001
            res = dict(holder, outcome="exc", exc=f"{type(e).__name__}: {str(e)[:160]}")
        if "rec" not in holder:
            # the selector was not asked (or on_done failed before asking it): nothing to compare with the model
            if res["outcome"] == "exc":
                ck.fail(f"C20|never-fails|OnlineSelector.on_done|{tag}", "OnlineSelector: on_done raises", case, res["exc"])
                return
            ck.count("online:selector-not-called(model not asked)")
        bad = _stored_predictions_problem(online, sub)
        if bad and bad.startswith("bookkeeping:"):
            ck.fail("C20|online-bookkeeping|OnlineSelector.on_done|", "y_predictors does not hold one entry per finished job", case, bad)
        elif bad:
            ck.fail("C20|online-masked-predictions|OnlineSelector.on_done|jobs-with-different-y_pred_idx" if n_ok > 1 else
                    "C20|online-masked-predictions|OnlineSelector.on_done|", "OnlineSelector: a member is recorded as valid on "
                    "samples it never predicted (or with other values)", case, bad)
        if res["outcome"] in ("ok", "malformed") and not opts["bagging"]:
            direct = run_greedy(dict(sub, history=None), opts)
            if (res["outcome"] != "ok" or direct["outcome"] != "ok" or direct["indices"] != res["indices"]
                    or len(direct["weights"]) != len(res["weights"])
                    or any(abs(a - b) > 1e-12 for a, b in zip(direct["weights"], res["weights"]))):
                ck.fail(f"C20|online-selection|OnlineSelector.on_done|{tag}", "OnlineSelector: selection differs from a direct "
                        "select() on the jobs' own predictions", case,
                        {"online": [res.get("indices"), res.get("weights"), res.get("problem")],
                         "direct": [direct.get("indices"), direct.get("weights"), direct.get("exc")]})
        if "rec" in holder:
            _greedy_case(ck, d, sub, opts, label="online", res=res, verbose=verbose)
        if res["outcome"] != "ok":
            break
        n_av = len(sub["preds"])
        ok_ids = [f"0.{i}" for i in range(j + 1) if i not in fail_at]
        try:
            ids = list(online.selected_predictors_job_ids)
            want = [ok_ids[i] for i in res["indices"]] if all(0 <= i < n_av for i in res["indices"]) else None
            if want is None or ids != want:
                ck.fail("C20|online-job-ids|OnlineSelector.selected_predictors_job_ids|", "job ids do not match the selected indexes",
                        case, {"job_ids": ids, "indexes": res["indices"], "finished": ok_ids})
            # the ensemble handed out: the selected members, loaded in selected order, with the selected weights
            ens = online.ensemble
            if (ens is proto or getattr(ens, "tag", None) != "ensemble-prototype"
                    or list(ens.predictors) != [("loaded", i) for i in ids] or [float(x) for x in ens.weights] != res["weights"]
                    or proto.predictors is not None):
                ck.fail("C20|online-ensemble|OnlineSelector.ensemble|", "ensemble does not hold the selected members with their weights",
                        case, {"predictors": repr(getattr(ens, "predictors", None)), "weights": repr(getattr(ens, "weights", None))})
        except Exception as e:  # noqa: BLE001 - reading the public results of the selection must not fail either
            ck.fail("C20|online-job-ids|OnlineSelector.selected_predictors_job_ids|unreadable", "OnlineSelector: the selected job ids / "
                    "ensemble cannot be read after a successful on_done", case, f"{type(e).__name__}: {str(e)[:160]}")
            break


def _online_topk_case(ck, d, task, k, fail_at, prior=None, verbose=False):
    """OnlineSelector driving a TopKSelector: after every finished job the stored predictions must be valid exactly on
    the job's own y_pred_idx and the selection must be the k lowest losses computed from the jobs' own predictions;
    `prior`: earlier sessions ({"task", "fail_at"}) the same TopKSelector object served through other OnlineSelector objects"""
    from deephyper.ensemble.selector import OnlineSelector, TopKSelector

    case = {"kind": "online-topk", "task": task, "k": k, "fail_at": sorted(fail_at)}
    if prior:
        case["prior"] = prior
        ck.count(f"online-topk:reused-selector:earlier-sessions={len(prior)}")
    tag = ",reused-selector" if prior else ""
    _, _, _, _, _, inner_loss = _make_env(task, [], 0)
    selector = TopKSelector(inner_loss, k=k)

    def make_online(t):
        return OnlineSelector(build(dict(t, masked=False, preds=[]))[0], selector, None, lambda job_id: job_id)

    _run_prior_sessions(make_online, prior)
    online = make_online(task)
    for j, job, sub in _online_jobs(task, fail_at):
        if sub is not None:
            ck.case({"kind": "online-topk", "task": sub, "k": k, "prior": prior or []}, nontrivial=len(sub["preds"]) >= 2)
            ck.count("online-topk:calls")
        try:
            online.on_done(job)
        except Exception as e:  # noqa: BLE001
            ck.fail(f"C20|never-fails|OnlineSelector.on_done|selector=TopK{tag}", "OnlineSelector(TopK): on_done raises", case,
                    f"{type(e).__name__}: {str(e)[:160]}")
            return
        if sub is None:
            continue
        bad = _stored_predictions_problem(online, sub)
        if bad and bad.startswith("bookkeeping:"):
            ck.fail("C20|online-bookkeeping|OnlineSelector.on_done|selector=TopK", "y_predictors does not hold one entry per finished job",
                    case, bad)
        elif bad:
            ck.fail("C20|online-masked-predictions|OnlineSelector.on_done|jobs-with-different-y_pred_idx",
                    "OnlineSelector: a member is recorded as valid on samples it never predicted (or with other values)", case, bad)
        direct = run_topk(dict(sub, history=None), k)
        try:
            gi, gw, problem = _norm_output((online.selected_predictors_indexes, online.selected_predictors_weights))
        except Exception as e:  # noqa: BLE001
            gi, gw, problem = None, None, f"the selection cannot be read ({type(e).__name__})"
        if problem or direct["outcome"] != "ok" or (direct["indices"], direct["weights"]) != (gi, gw):
            ck.fail(f"C20|online-selection|OnlineSelector.on_done|selector=TopK{tag}", "OnlineSelector(TopK): not the k lowest losses "
                    "of the jobs' own predictions", case,
                    {"online": [gi, gw, problem], "direct": [direct.get("indices"), direct.get("weights"), direct.get("exc")],
                     "own_losses": direct.get("losses")})
        if verbose:
            print("replay:", {"job": j, "online": [gi, gw], "direct": direct.get("indices")})


def _predictor_case(ck, d, order, use_predict=False, loader=False, fail=None, evaluator="scripted", history=None,
                    via_copy=False, verbose=False):
    mode = "predict" if use_predict else "list"
    res = run_predictor(order, mode, loader=loader, fail=fail, evaluator=evaluator, history=history, via_copy=via_copy)
    case = {"kind": "predictor", "finish_order": list(order), "use_predict": use_predict, "loader": loader, "fail": fail,
            "evaluator": evaluator, "history": history or [], "via_copy": via_copy}
    if history:
        ck.count(f"predictor:reused-evaluator:earlier-calls={len(history)}")
        ck.count("predictor:reused-evaluator:" + ("same-size" if all(len(h["finish_order"]) == len(order) for h in history)
                                                  else "other-sizes"))
    n = len(order)
    site = "EnsemblePredictor." + ("predict" if use_predict else "predictions_from_predictors")
    cls_ = ",".join(x for x in ("evaluator=thread" if evaluator == "scripted" else f"evaluator={evaluator}",
                               "loader" if loader else "", "member-raises" if fail is not None else "",
                               "reused-evaluator" if history else "") if x)
    seen_members = [m for _, m in res["seen"]]
    if any(m is None for m in seen_members):
        # the evaluator's jobs no longer identify their member: the completion order is unobservable, the model is not
        # asked; the oracle (a statement about what is returned) still judges
        ck.count("predictor:completion-order-unobservable(model not asked)")
        seen_members = []
    ck.case(case, nontrivial=n >= 2 and seen_members != sorted(seen_members))
    ck.count(f"predictor:{mode}:members={n}")
    ck.count(f"predictor:evaluator={evaluator}{':loader' if loader else ''}{':member-raises' if fail is not None else ''}")
    if evaluator == "scripted":
        ck.count("predictor:completion-order-" + ("as-scripted" if seen_members == list(order) else "other"))
        ck.count("predictor:completion-" + ("in-submission-order" if seen_members == sorted(seen_members) else "out-of-order"))
    fails = []
    if evaluator not in ("scripted", None, "thread") and not isinstance(evaluator, dict):
        # not an accepted form: the constructor must refuse it
        if res["outcome"] != "exc" or res.get("exc_type") != "ValueError":
            fails.append(("constructor-rejects", f"evaluator={evaluator!r} accepted: {res.get('exc')}"))
    elif fail is not None:
        # the error must name the failing member by its position in the predictors list, whatever finished first
        if res["outcome"] != "exc" or res.get("exc_type") != "RuntimeError":
            fails.append(("member-error-reported", f"member {fail} raises in predict, outcome {res['outcome']} {res.get('exc')}"))
        elif f"predictors[{fail}]" not in res["exc"] or f"({fail})" not in res["exc"]:
            fails.append(("member-order", f"member {fail} failed but the error names another one: {res['exc']}"))
    elif res["outcome"] == "exc":
        fails.append(("never-fails", res["exc"]))
    elif res["outcome"] == "malformed":
        fails.append(("member-order", f"what was returned are not the members' predictions: {res['malformed']}"))
    elif use_predict:
        w = res["weights"]
        exp = [sum(w[i] * v for i, v in enumerate(col)) / sum(w)
               for col in ([float(i) for i in range(n)], [float(i * i) + 0.5 for i in range(n)])]
        if any(abs(a - b) > 1e-12 * (1 + abs(b)) for a, b in zip(res["predict"], exp)) or len(res["predict"]) != 2:
            fails.append(("member-order", f"predict() = {res['predict']!r}, weighted mean in member order = {exp!r}; "
                                          f"completion order {seen_members}"))
        if seen_members:
            def on_reply(rep, case=case, res=res):
                model = [None if v is None else float(unrat(v)) for v in rep["loc"]]
                if rep["bad_id"] or len(model) != len(res["predict"]) or any(
                        m is None or abs(m - a) > 1e-12 * (1 + abs(m)) for m, a in zip(model, res["predict"])):
                    ck.mismatch(case, f"predict(): impl {res['predict']}, model (sortById of completion order {res['seen']}, "
                                      f"then weighted mean) {model}")
                elif verbose:
                    print("replay:", {"model": model, "model_vs_impl": "agree"})

            d.ask({"op": "predict", "ids": [i for i, _ in res["seen"]],
                   "vals": [[rat(float(m)), rat(float(m * m) + 0.5)] for m in seen_members],
                   "ws": [rat(x) for x in res["weights"]]}, on_reply)
    else:
        if seen_members:
            def on_reply(rep, case=case, res=res, seen_members=seen_members):
                model = [seen_members[p] for p in rep["perm"]]
                if rep["bad_id"] or model != res["returned"]:
                    ck.mismatch(case, f"impl returned members {res['returned']}, model (sortById of completion order "
                                      f"{res['seen']}) {model}")
                elif verbose:
                    print("replay:", {"model": model, "model_vs_impl": "agree"})

            d.ask({"op": "sort", "ids": [i for i, _ in res["seen"]]}, on_reply)
        if res["returned"] != list(range(n)):
            fails.append(("member-order", f"predictions of members {res['returned']} returned for predictors 0..{n - 1}; "
                                          f"completion order {seen_members}"))
    if verbose:
        print("replay:", {"impl": res, "oracle": fails or "holds"})
    for clause, detail in fails:
        ck.fail(f"C20|{clause}|{site}|{cls_}", f"EnsemblePredictor: {clause} fails", case, detail)


def _corpus():
    import json
    from .common import VERIF

    out = []
    for f in sorted((VERIF / "corpus" / "C20").glob("*.json")):
        dd = json.loads(f.read_text())
        out.append(dd["case"] if "case" in dd else dd)
    return out


def _dispatch(ck, d, case, verbose=False):
    if case["kind"] == "greedy":
        _greedy_case(ck, d, case["task"], case["opts"], verbose=verbose)
    elif case["kind"] == "topk":
        _topk_case(ck, d, case["task"], case["k"], verbose=verbose)
    elif case["kind"] == "online-topk":
        _online_topk_case(ck, d, case["task"], case["k"], set(case.get("fail_at", [])), prior=case.get("prior"), verbose=verbose)
    elif case["kind"] == "online":
        _online_case(ck, d, case["task"], case["opts"], set(case.get("fail_at", [])), prior=case.get("prior"), verbose=verbose)
    else:
        _predictor_case(ck, d, case["finish_order"], case.get("use_predict", False), loader=case.get("loader", False),
                        fail=case.get("fail"), evaluator=case.get("evaluator", "scripted"), history=case.get("history"),
                        via_copy=case.get("via_copy", False), verbose=verbose)


def run(ck):
    rng = ck.rng
    ck.rule = ("generated: 1..12 candidates x (k, k_init, max_it, eps_tol, with_replacement, early_stopping, bagging) x "
               "regression (mean/normal aggregator; squared/absolute/NLL loss) and classification (categorical/mode aggregator; "
               "0-1/cross-entropy loss) x plain/row-masked predictions, duplicate candidates for ties; TopK with k below/above n; "
               "histories: one TopK / Greedy selector object serving 2..4 select() calls, each derived from the one before (unrelated "
               "candidates of smaller / equal / larger number, the same candidates permuted, the same candidates against another target, "
               "the list grown by appending, a sub-list, the same call again), EVERY call judged like a call on a fresh selector against "
               "the candidates' own losses of that call; OnlineSelector fed job by job (failed jobs interleaved), its inner selector "
               "object possibly reused from an earlier session; EnsemblePredictor with every finish order of <=4 (quick) / "
               "<=5 (thorough) members; non-trivial = >=2 candidates and at least one greedy iteration / k<n / completion out of order")
    ck.assumptions = [
        "loss function and aggregator are environment: the model's aggregated loss is an arbitrary function of the multiset of members "
        "(observed through the loss/aggregator objects given to the selector)",
        "np.argsort returns a permutation sorted by loss (observed; checked against the contract OrderOK on every case)",
        "individual losses are finite (no NaN candidates: every member has at least one unmasked row)",
        f"non-termination is observed as 'more than {MAX_ITER} greedy iterations' (deterministic, no wall clock)",
        "early-stopping comparison loss_min - eps_tol is exact in the model, rounded in the code: cases within 1e-12 of the threshold are not compared",
        "job ids increase with submission order (C13); thread evaluator with one worker per member",
    ]
    with ck.driver() as drv:
        d = _Batch(drv)
        for case in _corpus():
            ck.count("corpus")
            _dispatch(ck, d, case)
        # exhaustive small option lattice on tiny candidate sets (1..3 candidates: the online start)
        for n in (1, 2, 3):
            for k, k_init, repl, es, bag, max_it in itertools.product((1, 2, 5), (1, 2, 5), (True, False), (True, False),
                                                                     (False, True), (-1, 2)):
                task = gen_task(rng, n)
                opts = dict(GREEDY_DEFAULTS, k=k, k_init=k_init, with_replacement=repl, early_stopping=es, bagging=bag,
                            max_it=max_it, seed=rng.randrange(100))
                _greedy_case(ck, d, task, opts)
        for _ in range(ck.pick(500, 12000)):
            n = rng.choice([1, 2, 2, 3, 3, 4, 5, 6, 7, 8, 10, 12])
            _greedy_case(ck, d, gen_task(rng, n), gen_opts(rng, n))
        for _ in range(ck.pick(200, 4000)):
            n = rng.choice([1, 2, 3, 4, 5, 6, 8, 10, 12])
            _topk_case(ck, d, gen_task(rng, n), rng.choice([1, 1, 2, 3, 5, 5, 8, 14]))
        # structured starts: members whose errors compensate (the start is better than each of its members)
        for _ in range(ck.pick(120, 1500)):
            task, k0 = gen_compensating(rng, rng.choice([1, 2, 3, 5]))
            opts = gen_opts(rng, len(task["preds"]))
            opts.update(k_init=k0, k=k0 + rng.choice([1, 2, 4]), early_stopping=rng.random() < 0.85,
                        eps_tol=rng.choice([1e-3, 2.0 ** -10]), max_it=rng.choice([-1, -1, 3]))
            _greedy_case(ck, d, task, opts, label="compensating")
        # histories: one selector object serving several select() calls (TopK / Greedy keep no state by contract)
        for _ in range(ck.pick(150, 2000)):
            n = rng.choice([1, 2, 3, 4, 5, 6, 8, 12])
            _greedy_case(ck, d, gen_with_history(rng, n), gen_opts(rng, n))
        for _ in range(ck.pick(150, 1500)):
            n = rng.choice([1, 2, 3, 4, 5, 6, 8, 12])
            _topk_case(ck, d, gen_with_history(rng, n), rng.choice([1, 1, 2, 2, 3, 5, 8]))
        prev_online = {}  # selector kind -> the previous generated session (served again, first, by the next one's selector)
        for _ in range(ck.pick(60, 700)):
            n = rng.choice([1, 2, 3, 4, 5, 6, 8])
            task = gen_task(rng, n)
            while task["kind"] != "reg":  # OnlineSelector stores predictions shaped like y: regression
                task = gen_task(rng, n)
            if task["agg"] == "normal":
                task["agg"], task["loss"] = "mean", rng.choice(["se", "ae"])
            # which samples each job predicted (y_pred_idx): disjoint folds, overlapping subsets, all, or a mixture;
            # targets away from 0 (a sample wrongly recorded as predicted holds the value 0)
            S = rng.choice([2, 3, 4, 6, 8])
            off = rng.choice([3.0, -5.0, 10.0])
            task["S"], task["y"] = S, [off + rng.randint(-8, 8) / 8 for _ in range(S)]
            pattern = rng.choice(["folds", "folds", "overlap", "full", "mixed"])
            F = rng.choice([2, 3]) if S >= 3 else 2
            for j_, p_ in enumerate(task["preds"]):
                p_["loc"] = [t + rng.randint(-8, 8) / 8 for t in task["y"]]
                pat = pattern if pattern != "mixed" else rng.choice(["folds", "overlap", "full"])
                if pat == "folds":
                    mk = [s_ % F != j_ % F for s_ in range(S)]
                elif pat == "overlap":
                    mk = [rng.random() < 0.45 for _ in range(S)]
                else:
                    mk = [False] * S
                if all(mk):
                    mk[rng.randrange(S)] = False
                p_["mask"] = mk
            task["masked"] = True
            ck.count("online:y_pred_idx-pattern=" + pattern)
            # histories on the inner selector object: with probability 1/2 the selector first serves the previous generated
            # session (another search, another validation set: other y, other number of jobs) through another OnlineSelector
            fail_at = {i for i in range(n) if rng.random() < 0.15}
            kind_ = "topk" if rng.random() < 0.35 else "greedy"
            prior = [prev_online[kind_]] if kind_ in prev_online and rng.random() < 0.5 else None
            prev_online[kind_] = {"task": task, "fail_at": sorted(fail_at)}
            if kind_ == "topk":
                _online_topk_case(ck, d, task, rng.choice([1, 2, 3, 5]), fail_at, prior=prior)
                continue
            _online_case(ck, d, task, gen_opts(rng, n), fail_at, prior=prior)
        # EnsemblePredictor: every finish order, for predictions_from_predictors AND for predict() end to end
        nmax = ck.pick(4, 5)
        for n in range(1, nmax + 1):
            for order in itertools.permutations(range(n)):
                _predictor_case(ck, d, list(order))
                if n <= ck.pick(3, 5) or rng.random() < 0.4:
                    _predictor_case(ck, d, list(order), use_predict=True, loader=rng.random() < 0.3)
        for _ in range(ck.pick(6, 40)):  # members given as PredictorLoaders
            n = rng.randint(2, 5)
            order = list(range(n))
            rng.shuffle(order)
            _predictor_case(ck, d, order, use_predict=rng.random() < 0.5, loader=True)
        for _ in range(ck.pick(8, 60)):  # a member raises: the error must name that member, whatever finished first
            n = rng.randint(1, 4)
            order = list(range(n))
            rng.shuffle(order)
            _predictor_case(ck, d, order, use_predict=rng.random() < 0.5, fail=rng.randrange(n), loader=rng.random() < 0.3)
        # histories: several predict() / predictions_from_predictors() calls on ONE EnsemblePredictor, or on shallow copies
        # sharing its evaluator (what OnlineSelector.ensemble hands out), with different member counts: the evaluator's job
        # counter keeps increasing across calls
        for _ in range(ck.pick(30, 250)):
            def rnd_order(k_):
                o_ = list(range(k_))
                rng.shuffle(o_)
                return o_
            n = rng.randint(1, 4)
            hist = [{"finish_order": rnd_order(rng.choice([k_ for k_ in (1, 2, 3, 4, 5) if k_ != n] + [n])),
                     "mode": rng.choice(["list", "predict"]), "loader": rng.random() < 0.2,
                     "fail": None, "copy": rng.random() < 0.4} for _ in range(rng.randint(1, 3))]
            if rng.random() < 0.15:
                hist[0]["fail"] = 0
            _predictor_case(ck, d, rnd_order(n), use_predict=rng.random() < 0.5, loader=rng.random() < 0.2,
                            fail=(rng.randrange(n) if rng.random() < 0.1 else None), history=hist, via_copy=rng.random() < 0.4)
        # the other forms of the `evaluator` argument ("serial" is not one the predictor can run with: SerialEvaluator
        # refuses the non-coroutine wrapper at construction; the property quantifies over the thread backend)
        for ev in (None, "thread", {"method": "thread"}, 5, ["thread"]):
            _predictor_case(ck, d, [0, 1, 2], use_predict=ev is None, evaluator=ev)
        d.flush()


def replay(ck, case):
    with ck.driver() as drv:
        d = _Batch(drv)
        _dispatch(ck, d, case, verbose=True)
        d.flush()
