"""C20 — ensemble selection and prediction are well-formed and order-stable.

L2: TopKSelector / GreedySelector (real code, in-process; direct calls and through OnlineSelector.on_done)
    vs. `Model/Select.lean`.  The environment of the model is observed through the objects the
    selector is *given* (public constructor arguments): a recording loss function, a recording
    aggregator (which multiset of members was aggregated, with which weights), a recording
    `RandomState` (bootstrap subsets).  The model receives the individual losses, the observed
    argsort, the loss of every multiset the implementation evaluated and the bootstrap subsets, and
    must return the same indices and weights, evaluate exactly the same number of candidates in
    every iteration and never need a loss the implementation did not compute.
    EnsemblePredictor (thread backend, one worker per member): members finish in a scripted order
    (event chain, no wall-clock assertion); the completion order seen by an evaluator callback is
    sent to the model's `sortById`, which must reproduce the order of the returned predictions.
L3: the property on the implementation's outputs: selection never fails / terminates, indices valid
    and distinct, at most max(k, min(k_init, n)) of them, weights positive summing to 1, TopK = the k
    lowest losses, greedy loss no worse than the starting ensemble's, predictions in member order.

Histories: one selector object serves several select() calls (chains of related candidate lists / targets, see
    `gen_with_history`); EVERY call is judged against the candidates of that call (model `topKHistory` /
    `greedyHistory`, theorems C20_topk_history / C20_greedy_history; verified checker `checkTopK` per call).

Wave 5: (a) losses of ANY SIGN — `task["shift"]` = the loss function handed to the selector is `loss - c` (a legal Callable
    loss: negative, zero at the best member / at the start, mixed sign, far from zero), NLL of confident accurate members
    (`gen_confident_normal`), near-copies of the best member (`_near_copy`); model: C20_greedy_shift_invariant,
    C20_greedy_gain.  (b) members of ANY KIND — `loader` of a predictor case may be a pattern over M/P/L/F (`_member_kinds`),
    every in-memory/loader pattern x every finish order; model: `submitJobs`, C20_member_order_any_kind; the driver also
    checks the hypothesis "ids increase along the predictors list".  (c) online sessions with targets stored as
    int/uint/bool/float32 and reports as float32 / int / nested lists: the candidates handed to select() are compared with
    the model `onlineCandidate` (C20_online_candidate) and judged against what the jobs reported (`online-candidates`);
    TopK selections are judged against the TRUE losses (of the reported predictions).

Robustness rule of this file: nothing the implementation returns, stores or omits may crash the harness.
    * what `select()` returns goes through `_norm_output` (outcome `malformed` -> clause valid-distinct / weights);
    * the candidates' individual losses are computed by the harness (`_own_losses`), never read from what the
      selector chose to evaluate;
    * the recording aggregator never raises on behalf of the implementation (`rec.unobserved` -> the model is not
      asked, the oracle still judges; the iteration cut-off also counts raw aggregator calls);
    * public state of OnlineSelector / EnsemblePredictor results is read inside guards that turn an unreadable value
      into a finding with a stable fingerprint.
"""
import copy
import itertools
import threading
import time
import types
from fractions import Fraction
from math import gcd

import numpy as np

from .common import rat, unrat

MAX_ITER = 120  # iterations after which a greedy run is declared non-terminating (the model gets the same fuel)
GREEDY_DEFAULTS = {"k": 5, "k_init": 5, "max_it": -1, "eps_tol": 1e-3, "with_replacement": True,
                   "early_stopping": True, "bagging": False}


class _Batch:
    """defers the driver round trips: requests are sent pipelined, replies handed to their callbacks"""

    def __init__(self, driver, size=150):
        self.d, self.size, self.items = driver, size, []

    def ask(self, req, fn):
        self.items.append((req, fn))
        if len(self.items) >= self.size:
            self.flush()

    def flush(self):
        items, self.items = self.items, []
        for (_, fn), rep in zip(items, self.d.ask_all([r for r, _ in items])):
            fn(rep)


_WF_CLAUSES = ("valid-distinct", "at-most-k", "weights")
_TOPK_CLAUSES = ("valid-distinct", "k-lowest", "weights")
_SHRUNK = {}  # un-shrunk fingerprint -> fingerprint of its minimised case


class _TooLong(Exception):
    pass


# --------------------------------------------------------------------------- recording environment


class _Rec:
    """what the selector did with the objects it was given (during the call being judged)"""

    def __init__(self, preds, k_init_eff):
        self.reset(preds, k_init_eff)

    def reset(self, preds, k_init_eff):
        """start recording a new select() call on the same loss / aggregator / RandomState objects"""
        self.ids = {id(p): i for i, p in enumerate(preds)}
        self.k0 = k_init_eff
        self.member_loss = {}
        self.agg_calls = []  # (indices tuple, weights tuple | None, output object id)
        self.table = []  # [exact unique-counts key, loss]
        self.blocks = []  # number of candidate evaluations per iteration
        self.L0 = None
        self.bags = []
        self._T = None
        self._pending = None
        self._keep = preds  # keeps the ids valid
        self.calls = 0  # aggregator calls of this select()
        self.max_calls = (MAX_ITER + 2) * (len(preds) + 1)  # more than MAX_ITER iterations whatever could be recorded
        self.unobserved = None  # why the trace of this call cannot be reconstructed (L2 is then skipped, L3 still judges)

    def snapshot(self):
        """the record of the call that just ended (reset() re-binds every container, so a shallow copy keeps them)"""
        return copy.copy(self)


def _make_env(task, preds, k_init_eff):
    import deephyper.ensemble.aggregator as A
    import deephyper.ensemble.loss as Lo
    from deephyper.ensemble.aggregator import Aggregator

    rec = _Rec(preds, k_init_eff)
    inner_agg = {"mean": lambda: A.MeanAggregator(), "normal": lambda: A.MixedNormalAggregator(),
                 "cat": lambda: A.MixedCategoricalAggregator(), "mode": lambda: A.ModeAggregator()}[task["agg"]]()
    inner_loss = {"se": lambda: Lo.SquaredError(), "ae": lambda: Lo.AbsoluteError(),
                  "zo": lambda: Lo.ZeroOneLoss(predict_proba=task["agg"] == "cat"),
                  "cce": lambda: Lo.CategoricalCrossEntropy(), "nll": lambda: Lo.NormalNegLogLikelihood()}[task["loss"]]()
    if task.get("shift"):
        inner_loss = _ShiftedLoss(inner_loss, float(task["shift"]))

    class RecAgg(Aggregator):
        def aggregate(self, y, weights=None):
            # the recording never raises on behalf of the implementation (an exception here would surface as a failure of
            # select()): what cannot be reconstructed is marked `unobserved`; only the iteration cut-off is raised
            rec.calls += 1
            if rec.calls > rec.max_calls:
                raise _TooLong()
            key = None
            try:
                idx = tuple(rec.ids.get(id(p), -1) for p in y)
                w = None if weights is None else tuple(float(x) for x in weights)
            except Exception as e:  # noqa: BLE001
                idx, w = (-1,), None
                rec.unobserved = f"aggregator called with unexpected arguments ({type(e).__name__})"
            if -1 in idx:
                rec.unobserved = rec.unobserved or "the selector aggregated an object that is not a candidate of this call"
            elif w is not None and rec.unobserved is None:
                # exact counts: weights are counts/T with T = previous T or previous T + 1
                try:
                    fr = [Fraction(x).limit_denominator(100000) for x in w]
                except (ValueError, OverflowError):
                    fr = None
                den = 1
                for f in fr or []:
                    den = den * f.denominator // gcd(den, f.denominator)
                prev = rec._T if rec._T is not None else rec.k0 + 1
                T = prev if prev % den == 0 else prev + 1
                if fr is None or len(fr) != len(idx) or T % den != 0:
                    rec.unobserved = f"cannot reconstruct the multiset of members from the weights {w} (T={prev})"
                else:
                    if rec._T is None or T != rec._T:
                        rec._T = T
                        rec.blocks.append(0)
                        if len(rec.blocks) > MAX_ITER:
                            raise _TooLong()
                    rec.blocks[-1] += 1
                    key = [[i, int(f * T)] for i, f in zip(idx, fr)]
            out = inner_agg.aggregate(y, weights)
            rec._pending = None if rec.unobserved else (idx, key, id(out), out)
            return out

    def rec_loss(y_true, y_pred):
        scores = inner_loss(y_true, y_pred)
        val = float(np.mean(scores))
        if id(y_pred) in rec.ids:
            rec.member_loss[rec.ids[id(y_pred)]] = val
        elif rec._pending is not None and rec._pending[2] == id(y_pred):
            idx, key, _, _ = rec._pending
            if key is None:
                rec.L0 = (list(idx), val)
            else:
                rec.table.append([key, val])
            rec._pending = None
        return scores

    class RecRS(np.random.RandomState):
        def randint(self, *a, **k):
            r = super().randint(*a, **k)
            rec.bags.append(sorted(set(int(v) for v in np.atleast_1d(r))))
            return r

    return rec, RecAgg(), rec_loss, RecRS, inner_agg, inner_loss


class _ShiftedLoss:
    """a user loss function `loss(y_true, y_pred) - c` (a `Callable` loss is a legal `loss_func`): the library's loss
    measured from another origin — a score negated to be minimised, a log-likelihood ratio against a baseline, a loss
    whose additive constants were dropped.  With c > 0 the aggregated losses the selector sees are negative, zero or of
    mixed sign; with c < 0 they are far from zero.  What the property says of the selection does not depend on c."""

    def __init__(self, base, c):
        self.base, self.c = base, c

    def __call__(self, y_true, y_pred):
        return self.base(y_true, y_pred) - self.c


def _own_losses(inner_loss, y, preds):
    """the individual loss of every candidate of THIS call w.r.t. the y of THIS call, computed by the harness with the
    real loss function — never taken from what the selector chose to evaluate (a selector that scores only some of the
    candidates, or scores them against something else, must not blind the oracle)"""
    return [float(np.mean(inner_loss(y, p))) for p in preds]


def _is_int(x):
    return isinstance(x, (int, np.integer)) and not isinstance(x, (bool, np.bool_))


def _is_real(x):
    return isinstance(x, (int, float, np.integer, np.floating)) and not isinstance(x, (bool, np.bool_))


def _flat(seq):
    """a list / tuple / 1-D array -> list of its elements (0-d arrays unwrapped); None if it is not a flat sequence"""
    if isinstance(seq, np.ndarray):
        return seq.tolist() if seq.ndim == 1 and not np.ma.isMaskedArray(seq) else None
    if not isinstance(seq, (list, tuple)):
        return None
    return [x.item() if isinstance(x, np.ndarray) and x.ndim == 0 else x for x in seq]


def _norm_output(out):
    """what select() returned -> (indices, weights, problem).  A pair of flat sequences (list, tuple, 1-D array — all
    are `Sequence[int]` / `Sequence[float]`) of integers / real numbers becomes plain lists of Python ints / floats;
    a part that is something else is None and `problem` says what was returned.  Never raises."""
    try:
        if not isinstance(out, (tuple, list)) or len(out) != 2:
            return None, None, f"select() returned {_short(out)} instead of (indices, weights)"
        idx, w = _flat(out[0]), _flat(out[1])
        problems = []
        if idx is None or not all(_is_int(i) for i in idx):
            problems.append(f"indices {_short(out[0])} are not a flat sequence of integers")
            idx = None
        else:
            idx = [int(i) for i in idx]
        if w is None or not all(_is_real(x) for x in w):
            problems.append(f"weights {_short(out[1])} are not a flat sequence of numbers")
            w = None
        else:
            w = [float(x) for x in w]
        return idx, w, "; ".join(problems) or None
    except Exception as e:  # noqa: BLE001
        return None, None, f"select() returned an object that cannot be read ({type(e).__name__})"


def _short(x, limit=160):
    try:
        r = repr(x)
    except Exception:  # noqa: BLE001
        r = f"<{type(x).__name__}>"
    return r if len(r) <= limit else r[:limit] + "…"


def _record_output(res, out):
    """fills outcome / indices / weights of a result from what select() returned"""
    idx, w, problem = _norm_output(out)
    if problem:
        res.update(outcome="malformed", indices=idx, weights=w, problem=problem)
    else:
        res.update(outcome="ok", indices=idx, weights=w)
    return res


def _steps_of(task):
    """the select() calls a task stands for, in call order: its history, then the task itself"""
    return list(task.get("history") or []) + [{k: v for k, v in task.items() if k != "history"}]


def _prefix_task(steps, i):
    """call number i of a history as a task of its own: judged after the calls before it on the same object"""
    return dict(steps[i], history=[copy.deepcopy(h) for h in steps[:i]]) if i else dict(steps[i])


# --------------------------------------------------------------------------- tasks (y, predictions)


def _arr(flat, shape, mask=None):
    a = np.array(flat, dtype=float).reshape(shape)
    if mask is not None:
        m = np.array(mask, dtype=bool)
        m = np.broadcast_to(m.reshape((shape[0],) + (1,) * (len(shape) - 1)), shape)
        a = np.ma.masked_array(a, mask=m)
    return a


def build(task):
    """numpy objects of a task description: (y, [prediction per candidate])"""
    S = task["S"]
    if task["kind"] == "reg":
        y = np.array(task["y"], dtype=float).reshape(S, 1)
        if task.get("y_dtype"):  # validation targets stored as integers / booleans / single precision (values representable)
            y = y.astype(np.dtype(task["y_dtype"]))
        preds = []
        for p in task["preds"]:
            loc = _arr(p["loc"], (S, 1), p.get("mask"))
            if task["agg"] == "normal":
                preds.append({"loc": loc, "scale": _arr(p["scale"], (S, 1), p.get("mask"))})
            else:
                preds.append(loc)
        return y, preds
    C = task["C"]
    y = np.array(task["y"], dtype=int).reshape(S)
    return y, [_arr(p["loc"], (S, C), p.get("mask")) for p in task["preds"]]


def _gen_pred(rng, task, pool=()):
    """one more candidate prediction for `task` (its y, S, C, aggregator); `pool`: earlier candidates, sometimes duplicated"""
    S = task["S"]
    if task["kind"] == "reg":
        if pool and rng.random() < 0.2:
            p = copy.deepcopy(rng.choice(list(pool)))  # identical candidates: argsort / argmin ties
            p.pop("mask", None)
        else:
            noise = task.get("noise", 4)
            p = {"loc": [t + rng.randint(-noise, noise) / 8 for t in task["y"]]}
            if task["agg"] == "normal":
                p["scale"] = [rng.randint(2, 16) / 8 for _ in range(S)]
    else:
        C = task["C"]
        rows = []
        for s_ in range(S):
            cuts = sorted(rng.randint(0, 16) for _ in range(C - 1))
            q = [b - a for a, b in zip([0] + cuts, cuts + [16])]
            if rng.random() < 0.5:  # lean towards the true class
                j = task["y"][s_]
                m = max(range(C), key=lambda c: q[c])
                q[j], q[m] = q[m], q[j]
            rows += [v / 16 for v in q]
        p = {"loc": rows}
    if task.get("masked"):
        mk = [rng.random() < 0.35 for _ in range(S)]
        if all(mk):
            mk[rng.randrange(S)] = False
        p["mask"] = mk
    return p


def gen_task(rng, n, like=None):
    """`like`: another task whose kind / aggregator / loss the new one must share (same selector object)"""
    kind = like["kind"] if like else rng.choice(["reg", "reg", "cls"])
    S = rng.choice([1, 2, 3, 4, 6])
    masked = rng.random() < 0.4
    task = {"kind": kind, "S": S, "masked": False}
    if kind == "reg":
        task["agg"], task["loss"] = rng.choice([("mean", "se"), ("mean", "se"), ("mean", "ae"), ("normal", "se"),
                                                ("normal", "nll")])
        if like:
            task["agg"], task["loss"] = like["agg"], like["loss"]
        task["y"] = [rng.randint(-16, 16) / 8 for _ in range(S)]
        task["noise"] = rng.choice([1, 4, 16])
    else:
        task["C"] = rng.choice([2, 3, 4])
        task["agg"], task["loss"] = rng.choice([("cat", "zo"), ("cat", "cce"), ("cat", "cce")])
        if like:
            task["agg"], task["loss"] = like["agg"], like["loss"]
        task["y"] = [rng.randrange(task["C"]) for _ in range(S)]
    task["preds"] = []
    for _ in range(n):
        task["preds"].append(_gen_pred(rng, task, task["preds"]))
    if masked and task["loss"] == "nll":
        masked = False  # scipy's logpdf ignores masks (NaN losses): outside the selector
    if masked:
        task["masked"] = True
        for p in task["preds"]:
            mk = [rng.random() < 0.35 for _ in range(S)]
            if all(mk):
                mk[rng.randrange(S)] = False
            p["mask"] = mk
    return task


def gen_compensating(rng, n_extra):
    """a structured candidate set: the individually best members err in opposite directions (y+e, y-e, …), so the
    starting ensemble of k_init of them is much better than each of them; the other candidates have larger individual
    errors (they are not in the start) but small enough to be tempting.  -> (task, k_init)"""
    S = rng.choice([1, 2, 4])
    pairs = rng.choice([1, 1, 2])
    y = [rng.randint(-16, 16) / 8 for _ in range(S)]
    task = {"kind": "reg", "S": S, "masked": False, "agg": "mean", "loss": rng.choice(["se", "se", "ae"]), "y": y, "preds": []}
    for _ in range(pairs):
        e = [rng.choice([-1, 1]) * rng.choice([0.5, 1.0, 2.0]) for _ in range(S)]
        task["preds"].append({"loc": [t + d for t, d in zip(y, e)]})
        task["preds"].append({"loc": [t - d for t, d in zip(y, e)]})
    emax = max(abs(p["loc"][s_] - y[s_]) for p in task["preds"] for s_ in range(S))
    for _ in range(n_extra):
        f = rng.choice([1.25, 1.5, 2.0, 2.5])
        task["preds"].append({"loc": [t + rng.choice([-1, 1]) * f * emax for t in y]})
    rng.shuffle(task["preds"])
    return task, 2 * pairs


def gen_confident_normal(rng, n):
    """probabilistic regressors that are confident and (mostly) accurate: predictive scale well below 1, location within a
    fraction of it -> the normal negative log-likelihood of the members and of their mixtures is NEGATIVE (density above 1);
    a quarter of the candidates are over-confident wrong members or vague ones (large positive / mildly positive NLL)"""
    S = rng.choice([1, 2, 4, 8])
    y = [rng.randint(-16, 16) / 8 for _ in range(S)]
    task = {"kind": "reg", "S": S, "masked": False, "agg": "normal", "loss": "nll", "y": y, "noise": 1, "preds": []}
    for _ in range(n):
        if rng.random() < 0.25:
            p = {"loc": [t + rng.choice([-1, 1]) * rng.choice([0.25, 0.5]) for t in y],
                 "scale": [rng.choice([1 / 16, 1.0, 2.0]) for _ in y]}
        else:
            p = {"loc": [t + rng.randint(-4, 4) / 64 for t in y], "scale": [rng.choice([1 / 32, 1 / 16, 1 / 8, 1 / 4]) for _ in y]}
        task["preds"].append(p)
    return task


def _near_copy(rng, task, p):
    """a candidate that is almost `p` (the same model trained with another seed): every entry, or one entry, moved by
    2^-3 .. 2^-10; probabilities are moved between two classes of one row"""
    q = copy.deepcopy(p)
    d = 2.0 ** -rng.randint(3, 10)
    S = task["S"]
    if task["kind"] == "reg":
        rows = range(S) if rng.random() < 0.5 else [rng.randrange(S)]
        sg = rng.choice([-1, 1])
        for s_ in rows:
            q["loc"][s_] += sg * d
        if "scale" in q and rng.random() < 0.5:
            s_ = rng.randrange(S)
            q["scale"][s_] += d / 4
    else:
        C = task["C"]
        s_ = rng.randrange(S)
        row = q["loc"][s_ * C:(s_ + 1) * C]
        a = max(range(C), key=lambda c: row[c])
        b = rng.choice([c for c in range(C) if c != a])
        d = min(d, row[a] / 2)
        q["loc"][s_ * C + a] -= d
        q["loc"][s_ * C + b] += d
    return q


def _task_losses(task, k_init):
    """(own losses of the candidates, loss of the starting ensemble of the k_init best) with the real loss / aggregator of
    the task, its shift included — used by the generator to place the origin of the loss, never by the oracle"""
    try:
        y, preds = build(task)
        _, _, _, _, inner_agg, inner_loss = _make_env(task, [], 0)
        losses = _own_losses(inner_loss, y, preds)
        start = None
        if all(np.isfinite(v) for v in losses) and preds:
            init = [int(i) for i in np.argsort(losses)[:k_init]]
            start = float(np.mean(inner_loss(y, inner_agg.aggregate([preds[i] for i in init]))))
        return losses, (start if start is not None and np.isfinite(start) else None)
    except Exception:  # noqa: BLE001 - a tree whose loss / aggregator fails here is judged by the cases, not by the generator
        return [float("nan")] * len(task["preds"]), None


_SHIFT_MODES = ("natural", "neg-small", "neg", "neg", "neg-big", "zero-best", "zero-start", "mixed", "pos")


def gen_signed(rng, n):
    """a greedy case whose aggregated losses are negative, zero, of mixed sign or far from zero — through the loss function
    itself (NLL of confident members) or through the origin of the loss (`task["shift"]`: loss - c) — among candidates that
    include near-copies of the best member (steps that change the aggregate by very little, in either direction).
    -> (task, opts)"""
    r = rng.random()
    if r < 0.3:
        task = gen_confident_normal(rng, n)
    elif r < 0.4:
        task, _ = gen_compensating(rng, max(1, n - 2))
    else:
        task = gen_task(rng, n)
    opts = gen_opts(rng, len(task["preds"]))
    opts["early_stopping"] = rng.random() < 0.85
    losses, _ = _task_losses(task, opts["k_init"])
    if all(np.isfinite(v) for v in losses):
        order = [int(i) for i in np.argsort(losses)]
        for _ in range(rng.choice([0, 1, 1, 2, 3])):
            if len(task["preds"]) >= 12:
                break
            src = order[0] if rng.random() < 0.7 else rng.choice(order)
            task["preds"].insert(rng.randrange(len(task["preds"]) + 1), _near_copy(rng, task, task["preds"][src]))
            losses, _ = _task_losses(task, opts["k_init"])
            order = [int(i) for i in np.argsort(losses)]
    mode = rng.choice(_SHIFT_MODES)
    losses, start = _task_losses(task, opts["k_init"])
    if mode != "natural" and start is not None and all(np.isfinite(v) for v in losses):
        top = 2.0 ** int(np.ceil(np.log2(max(1.0, max(abs(v) for v in losses) + 1))))
        task["shift"] = {"neg-small": min(losses) + 2.0 ** -rng.randint(1, 8), "neg": top * rng.choice([1, 2, 4]),
                         "neg-big": rng.choice([256.0, 1024.0]), "zero-best": min(losses), "zero-start": start,
                         "mixed": float(np.median(losses)), "pos": -rng.choice([1.0, 16.0, 1024.0])}[mode]
        if not task["shift"]:
            task.pop("shift")
    task["origin"] = mode
    return task, opts


_RELATIONS = ("other", "other", "same-size", "same-size", "larger", "permuted", "other-target", "other-target",
              "appended", "shrunk", "repeat")


def _next_step(rng, prev, rel):
    """the next select() call a selector object is asked to serve, related to the previous one by `rel`"""
    n = len(prev["preds"])
    if rel == "same-size":  # other candidates, other target, as many of them (another fold, another search)
        t = gen_task(rng, n, like=prev)
    elif rel == "larger":
        t = gen_task(rng, n + rng.randint(1, 4), like=prev)
    elif rel in ("permuted", "other-target", "appended", "shrunk", "repeat"):
        t = copy.deepcopy({k: v for k, v in prev.items() if k != "rel"})
        if rel == "permuted":  # the same candidates listed in another order
            for _ in range(4):
                rng.shuffle(t["preds"])
                if t["preds"] != prev["preds"]:
                    break
        elif rel == "other-target":  # the same candidates scored against another y (of the same length)
            S = t["S"]
            if t["kind"] != "reg":
                t["y"] = [rng.randrange(t["C"]) for _ in range(S)]
            elif rng.random() < 0.5:
                t["y"] = [v + rng.choice([-0.25, 0.125, 0.5]) for v in rng.choice(t["preds"])["loc"]]  # near another candidate
            else:
                t["y"] = [rng.randint(-16, 16) / 8 for _ in range(S)]
        elif rel == "appended":  # the list grown by appending (what online selection does)
            for _ in range(rng.randint(1, 3)):
                t["preds"].append(_gen_pred(rng, t, t["preds"]))
        elif rel == "shrunk" and n >= 2:
            keep = sorted(rng.sample(range(n), rng.randint(1, n - 1)))
            t["preds"] = [t["preds"][i] for i in keep]
    else:  # "other": unrelated candidates, any size (smaller, equal or larger)
        t = gen_task(rng, rng.choice([1, 2, 3, 4, 6, 9]), like=prev)
    t["rel"] = rel
    t.pop("origin", None)
    if prev.get("shift"):  # one selector object = one loss function: the origin of the loss is that of the object
        t["shift"] = prev["shift"]
    return t


def gen_with_history(rng, n):
    """a task to be selected on a selector object that already served 1..3 other select() calls.  The calls form a chain:
    each is derived from the one before it — unrelated candidates of any size, as many / more other candidates, the same
    candidates permuted, the same candidates against another target, the list grown by appending, a sub-list, the same
    call again.  (The chain starts from `n` candidates; every call of it is judged, see `_topk_case` / `_greedy_case`.)"""
    steps = [gen_task(rng, n)]
    for _ in range(rng.randint(1, 3)):
        steps.append(_next_step(rng, steps[-1], rng.choice(_RELATIONS)))
    return dict(steps[-1], history=steps[:-1])


def gen_opts(rng, n):
    o = dict(GREEDY_DEFAULTS)
    o["k"] = rng.choice([1, 2, 3, 3, 4, 5, 5, 8, 14])
    o["k_init"] = rng.choice([1, 1, 1, 1, 2, 2, 3, 5, 5, 14])
    o["max_it"] = rng.choice([-1, -1, -1, 0, 1, 3, 10])
    o["eps_tol"] = rng.choice([1e-3, 1e-3, 1e-3, 2.0 ** -10, 2.0 ** -4, 0.5])
    o["with_replacement"] = rng.random() < 0.5
    o["early_stopping"] = rng.random() < 0.6
    o["bagging"] = rng.random() < 0.3
    o["seed"] = rng.randrange(1000)
    if rng.random() < 0.08:
        o["verbose"] = True
    return o


# --------------------------------------------------------------------------- running the real selectors


def run_greedy_steps(steps, opts):
    """every select() call of `steps` on ONE GreedySelector object -> one result per call:
    dict(outcome='ok'|'malformed'|'exc'|'toolong', indices, weights, rec (the record of that call), y, preds, losses
    (the candidates' own losses, computed by the harness), ...); `opts["verbose"]`: the selector's trace printing (captured)"""
    import contextlib
    import io

    from deephyper.ensemble.selector import GreedySelector

    built = [build(t) for t in steps]
    rec, agg, loss, RS, inner_agg, inner_loss = _make_env(steps[0], built[0][1], min(opts["k_init"], len(built[0][1])))
    kw = {k: opts[k] for k in GREEDY_DEFAULTS}
    sel = GreedySelector(loss, agg, random_state=RS(opts.get("seed", 0)), verbose=bool(opts.get("verbose")), **kw)
    out = []
    with contextlib.redirect_stdout(io.StringIO()):
        for y, preds in built:
            res = {"y": y, "preds": preds, "inner_agg": inner_agg, "inner_loss": inner_loss,
                   "losses": _own_losses(inner_loss, y, preds)}
            rec.reset(preds, min(opts["k_init"], len(preds)))
            try:
                _record_output(res, sel.select(y, preds))
            except _TooLong:
                res["outcome"] = "toolong"
            except Exception as e:  # noqa: BLE001 - a call that failed / was cut off is part of the history too
                res.update(outcome="exc", exc=f"{type(e).__name__}: {str(e)[:160]}")
            res["rec"] = rec.snapshot()
            out.append(res)
    return out


def run_greedy(task, opts, via_online=False):
    """the last call of `task` (after the earlier select() calls of `task["history"]` on the same selector object)"""
    return run_greedy_steps(_steps_of(task), opts)[-1]


def _ens_loss(res, indices, weights):
    out = res["inner_agg"].aggregate([res["preds"][i] for i in indices], weights)
    return float(np.mean(res["inner_loss"](res["y"], out)))


def greedy_req(task, opts, res, pre=False):
    rec = res["rec"]
    n = len(res["preds"])
    if rec.unobserved:
        return None
    losses = res["losses"] if "losses" in res else [rec.member_loss.get(i) for i in range(n)]
    if any(v is None or not np.isfinite(v) for v in losses):
        return None
    order = [int(i) for i in np.argsort(losses)]
    l0 = rec.L0[1] if rec.L0 is not None else 0.0
    if not np.isfinite(l0) or any(not np.isfinite(v) for _, v in rec.table):
        return None
    return {"op": "greedy", "n": n, "pre": pre, "fuel": MAX_ITER,
            "opts": {"k": opts["k"], "k_init": opts["k_init"], "max_it": opts["max_it"], "eps_tol": rat(opts["eps_tol"]),
                     "with_replacement": opts["with_replacement"], "early_stopping": opts["early_stopping"],
                     "bagging": opts["bagging"]},
            "losses": [rat(v) for v in losses], "order": order, "L0": rat(l0),
            "table": [[k, rat(v)] for k, v in rec.table], "bags": rec.bags}


def greedy_compare(opts, res, rep):
    """model vs implementation -> None | text"""
    rec = res["rec"]
    if not rep["order_ok"]:
        return "np.argsort returned an order that is not a loss-sorted permutation (contract of the model)"
    m = rep["res"]
    if res["outcome"] == "toolong":
        return None if m == "outOfFuel" else f"impl still looping after {MAX_ITER} iterations, model: {m}"
    if res["outcome"] == "exc":
        return None if m in ("emptyEnsemble", "allNaN") else f"impl raised {res['exc']}, model: {m} {rep['indices']}"
    if res["outcome"] == "malformed":
        return f"impl: {res['problem']}, model: {m} {rep['indices']}"
    if m != "ok":
        return f"impl returned {res['indices']}, model: {m}"
    near = rep["margin"] is not None and float(unrat(rep["margin"])) < 1e-12
    if list(res["indices"]) != rep["indices"]:
        return None if near else f"indices: impl {res['indices']}, model {rep['indices']}"
    mw = [float(unrat(v)) for v in rep["weights"]]
    if len(mw) != len(res["weights"]) or any(abs(a - b) > 1e-12 for a, b in zip(res["weights"], mw)):
        return f"weights: impl {res['weights']}, model {mw}"
    if rep["missing"] and not near:
        return "the model evaluated a multiset whose loss the implementation never computed"
    # an iteration without eligible candidate calls neither the aggregator nor the loss: invisible from outside
    if [len(e) for e in rep["evals"] if e] != rec.blocks and not near:
        return f"candidates evaluated per iteration: impl {rec.blocks}, model {[len(e) for e in rep['evals']]}"
    return None


def _sign_class(res, opts):
    """input-class predicate of a greedy call for the fingerprint: the sign of the loss of its starting ensemble"""
    v = _start_loss(res, opts)
    return "negative-loss" if v is not None and v < 0 else ""


def _gfp(clause, task, opts, n, full=False, sign=""):
    """fingerprint: the option values / input class that put the case outside the proved region"""
    nd = [f"{k}={opts[k]}" for k in ("early_stopping", "with_replacement", "bagging") if opts[k] != GREEDY_DEFAULTS[k]]
    if opts["max_it"] >= 0:
        nd.append("max_it>=0")
    cls = ["candidates=1"] if n == 1 else (["candidates<k"] if n < opts["k"] else [])
    if clause == "no-worse-than-start" and not opts["early_stopping"]:
        nd, cls = ["early_stopping=False"], []
    elif clause == "terminates" and not opts["early_stopping"] and opts["with_replacement"] and opts["max_it"] < 0:
        nd, cls = ["early_stopping=False", "with_replacement=True", "max_it=-1"], []
    else:
        if full and task.get("masked"):
            cls.append("masked")
        if full and sign:
            cls.append(sign)
    if task.get("history") and clause not in ("no-worse-than-start", "terminates"):
        cls.append("reused-selector")
    elif task.get("history") and (opts["early_stopping"] or (clause == "terminates" and (not opts["with_replacement"] or opts["max_it"] >= 0))):
        cls.append("reused-selector")
    return f"C20|{clause}|GreedySelector.select|{','.join(nd + cls)}"


def greedy_oracle(task, opts, res):
    """-> list of (clause, detail)"""
    n = len(res["preds"])
    pre = []
    if task.get("history") and not opts["bagging"] and not res.get("_fresh"):
        # the same call on a fresh selector (bagging: the random stream legitimately continues across calls)
        fresh = run_greedy(dict(task, history=None), opts)
        same = fresh["outcome"] == res["outcome"] and (res["outcome"] != "ok" or (
            list(fresh["indices"]) == list(res["indices"]) and list(fresh["weights"]) == list(res["weights"])))
        if not same:
            pre = [("reuse-independent", f"reused selector: {res['outcome']} {res.get('indices')} {res.get('weights')}; "
                                         f"fresh selector: {fresh['outcome']} {fresh.get('indices')} {fresh.get('weights')}")]
    return pre + _greedy_oracle(task, opts, res)


def _start_loss(res, opts):
    """the loss of the starting ensemble of a call, evaluated by the harness (the k_init candidates of lowest own loss,
    aggregated without weights) -> float | None; never raises"""
    try:
        ml = res["losses"]
        if not ml or not all(np.isfinite(v) for v in ml):
            return None
        v = _ens_loss(res, [int(i) for i in np.argsort(ml)[: opts["k_init"]]], None)
        return v if np.isfinite(v) else None
    except Exception:  # noqa: BLE001
        return None


def _greedy_oracle(task, opts, res):
    n = len(res["preds"])
    if res["outcome"] == "exc":
        return [("never-fails", res["exc"])]
    if res["outcome"] == "toolong":
        l0 = _start_loss(res, opts)
        low = -float(task.get("shift") or 0.0)  # the library's losses other than the NLL are >= 0: loss - c >= -c
        if opts["early_stopping"] and not (task["loss"] != "nll" and opts["eps_tol"] > 0 and l0 is not None
                                           and (l0 - low) / opts["eps_tol"] + 1 < MAX_ITER):
            # each iteration lowers a loss that is bounded below by more than eps_tol: it terminates, but the bound
            # ((L0 - B) / eps_tol iterations, C20_greedy_terminates; none for an unbounded loss) is beyond what this run waits for
            return [("inconclusive", "long early-stopping run")]
        return [("terminates", f"more than {MAX_ITER} greedy iterations (ensemble of {res['rec']._T} non-unique members)")]
    idx, w = res["indices"], res["weights"]
    fails = []
    if idx is None:
        fails.append(("valid-distinct", res["problem"]))
    elif not all(0 <= i < n for i in idx) or len(set(idx)) != len(idx) or not idx:
        fails.append(("valid-distinct", f"indices {idx} for {n} candidates"))
    bound = max(opts["k"], min(opts["k_init"], n))
    if idx is not None and len(idx) > bound:
        fails.append(("at-most-k", f"{len(idx)} members, bound max(k, min(k_init, n)) = {bound}"))
    if w is None:
        fails.append(("weights", res["problem"]))
    elif (idx is not None and len(w) != len(idx)) or not all(x > 0 for x in w) or not abs(sum(w) - 1) <= 1e-9:
        fails.append(("weights", f"weights {w}"))
    # the starting ensemble, determined independently of what the selector computed: the min(k_init, n) candidates of
    # lowest individual loss (np.argsort of the candidates' own losses, evaluated by the harness), aggregated without weights
    ml = res["losses"] if "losses" in res else [res["rec"].member_loss.get(i) for i in range(n)]
    if not fails and all(v is not None and np.isfinite(v) for v in ml):
        init = [int(i) for i in np.argsort(ml)[: opts["k_init"]]]
        unchanged = sorted(idx) == sorted(init) and max(w) - min(w) < 1e-15
        # (the starting ensemble itself, returned with uniform weights: the same mixture as its un-weighted aggregation —
        #  C19_uniform_eq_none / C19_perm; re-evaluating it could only differ by float rounding, which a discontinuous
        #  loss such as 0-1 at an exact argmax tie turns into a jump)
        if init and not unchanged:
            start = _ens_loss(res, init, None)
            final = _ens_loss(res, idx, w)
            if not final <= start + 1e-9 * (1 + abs(start)):
                fails.append(("no-worse-than-start", f"loss of the returned ensemble {final!r} > loss of the starting "
                                                     f"ensemble {init}: {start!r}"))
    return fails


def shrink_greedy(task, opts, clause):
    """smaller task / options closer to the defaults that still fail `clause`"""

    def fails(t, o):
        try:
            r = run_greedy(t, o)
            return any(c == clause for c, _ in greedy_oracle(t, o, r))
        except Exception:  # noqa: BLE001
            return False

    task, opts = copy.deepcopy(task), dict(opts)
    if task.get("history"):
        t2 = copy.deepcopy(task)
        t2.pop("history")
        if fails(t2, opts):
            task = t2
        else:
            i = 0
            while len(task["history"]) > 1 and i < len(task["history"]):
                t2 = copy.deepcopy(task)
                del t2["history"][i]
                if fails(t2, opts):
                    task = t2
                else:
                    i += 1
    def with_shift(t, c):
        t2 = copy.deepcopy(t)
        for st in [t2] + list(t2.get("history") or []):
            if c:
                st["shift"] = c
            else:
                st.pop("shift", None)
        return t2

    if task.get("shift"):  # the origin of the loss: the library's own loss if the failure does not need another one,
        for c in (0.0, float(np.ceil(task["shift"])), float(np.round(task["shift"], 2))):  # else a round constant
            if c != task["shift"]:
                t2 = with_shift(task, c)
                if fails(t2, opts):
                    task = t2
                    break
    task.pop("origin", None)
    for _ in range(2):  # masks, options, candidates, then once more on the smaller candidate set
        if task.get("masked"):
            t2 = copy.deepcopy(task)
            t2["masked"] = False
            for p in t2["preds"]:
                p.pop("mask", None)
            if fails(t2, opts):
                task = t2
        for k in ("bagging", "max_it", "with_replacement", "early_stopping", "eps_tol", "k_init", "k"):
            if opts[k] != GREEDY_DEFAULTS[k]:
                o2 = dict(opts, **{k: GREEDY_DEFAULTS[k]})
                if fails(task, o2):
                    opts = o2
        i = 0
        while len(task["preds"]) > 1 and i < len(task["preds"]):
            t2 = copy.deepcopy(task)
            del t2["preds"][i]
            if fails(t2, opts):
                task = t2
            else:
                i += 1
    return task, opts


# --------------------------------------------------------------------------- top-k


def run_topk_steps(steps, k):
    """every select() call of `steps` on ONE TopKSelector(k) object -> one result per call: dict(outcome='ok'|'malformed'|
    'exc', indices, weights, n, losses (the candidates' own losses w.r.t. the y of that call, computed by the harness),
    scored (how many candidates the selector itself scored during the call))"""
    from deephyper.ensemble.selector import TopKSelector

    built = [build(t) for t in steps]
    rec, _, loss, _, _, inner_loss = _make_env(steps[0], built[0][1], 0)
    sel = TopKSelector(loss, k=k)
    out = []
    for y, preds in built:
        res = {"n": len(preds), "losses": _own_losses(inner_loss, y, preds)}
        rec.reset(preds, 0)
        try:
            _record_output(res, sel.select(y, preds))
        except Exception as e:  # noqa: BLE001 - a call that failed is part of the history too
            res.update(outcome="exc", exc=f"{type(e).__name__}: {str(e)[:160]}")
        res["rec"] = rec.snapshot()
        res["scored"] = len(res["rec"].member_loss)
        out.append(res)
    return out


def run_topk(task, k):
    """the last call of `task` (after the earlier select() calls of `task["history"]` on the same selector object)"""
    return run_topk_steps(_steps_of(task), k)[-1]


def topk_oracle(res, k, task=None):
    """-> list of (clause, detail) for one call; `task` with a history: also compared with the same call on a fresh selector"""
    pre = []
    if task is not None and task.get("history"):
        fresh = run_topk(dict(task, history=None), k)
        if (fresh["outcome"], fresh.get("indices"), fresh.get("weights")) != (res["outcome"], res.get("indices"), res.get("weights")):
            pre = [("reuse-independent", f"reused selector: {res['outcome']} {res.get('indices')}; fresh selector: "
                                         f"{fresh['outcome']} {fresh.get('indices')}")]
    if res["outcome"] == "exc":
        return pre + [("never-fails", res["exc"])]
    return pre + _topk_oracle(res, k)


def _topk_oracle(res, k):
    """the TopK clause on what the call returned, against the candidates' own losses (never the selector's own scoring:
    a selector that scored only some candidates of this call, or none, is judged like any other)"""
    n, idx, w, losses = res["n"], res["indices"], res["weights"], res["losses"]
    fails = []
    if idx is None:
        fails.append(("valid-distinct", res["problem"]))
    elif not all(0 <= i < n for i in idx) or len(set(idx)) != len(idx):
        fails.append(("valid-distinct", f"indices {idx} for {n} candidates"))
    elif len(idx) != min(k, n):
        fails.append(("k-lowest", f"{len(idx)} members selected, expected min(k, n) = {min(k, n)}"))
    elif not all(np.isfinite(v) for v in losses):
        pass  # a NaN loss has no rank (outside the generator: every member has an unmasked row)
    elif idx and max(losses[i] for i in idx) > min([losses[j] for j in range(n) if j not in idx] or [np.inf]):
        fails.append(("k-lowest", f"selected {idx} but the candidates' losses are {losses}"))
    if w is None:
        fails.append(("weights", res["problem"]))
    elif (idx is not None and len(w) != len(idx)) or not all(x > 0 for x in w):
        fails.append(("weights", f"weights {w}"))
    return fails


def _topk_clauses_failing(steps, k):
    """clauses failing at the LAST call of `steps` served by one selector object (used by the shrinker; never raises)"""
    try:
        return {c for c, _ in topk_oracle(run_topk_steps(steps, k)[-1], k, _prefix_task(steps, len(steps) - 1))}
    except Exception:  # noqa: BLE001
        return set()


def shrink_topk(steps, k, clause):
    """-> (steps', reused): fewer earlier calls that still make `clause` fail at the last one; reused = False when the
    call fails `clause` on a fresh selector too (the history is then dropped)"""
    steps = [copy.deepcopy(t) for t in steps]
    if len(steps) > 1 and clause != "reuse-independent" and clause in _topk_clauses_failing(steps[-1:], k):
        return steps[-1:], False
    i = 0
    while len(steps) > 2 and i < len(steps) - 1:
        t2 = steps[:i] + steps[i + 1:]
        if clause in _topk_clauses_failing(t2, k):
            steps = t2
        else:
            i += 1
    return steps, len(steps) > 1


# --------------------------------------------------------------------------- EnsemblePredictor ordering


_GATES = {}  # run key -> list of threading.Event (kept out of the predictor objects: job parameters are copied)
_STUCK = [0]  # gate waits that timed out (a tree on which a member's job never reaches predict breaks the event chain):
#               after two of them the remaining scripted scenarios wait 0.2 s instead of 10 s (bounded cost on a broken tree)


class _Member:
    """a predictor that returns a prediction identifying it (2 cells: i, i*i + 1/2) once it is its turn to
    finish; `fail`: raise instead"""

    def __init__(self, i, rank, key, fail=False):
        self.i, self.rank, self.key, self.fail = i, rank, key, fail

    def predict(self, X):
        gates = _GATES.get(self.key)
        if gates is not None:
            if not gates[self.rank].wait(timeout=10 if _STUCK[0] < 2 else 0.2):
                _STUCK[0] += 1
            time.sleep(0.003)
        try:
            if self.fail:
                raise ValueError(f"member {self.i} cannot predict")
            return np.array([[float(self.i), float(self.i * self.i) + 0.5]])
        finally:
            if gates is not None and self.rank + 1 < len(gates):
                gates[self.rank + 1].set()

    def __repr__(self):
        return f"_Member({self.i})"


_KINDS = {}  # member kind letter -> factory(member) (built once: the classes derive from the repo's own base classes)
_TMP = []  # the temporary directory of the pickled members


def _member_kinds():
    """the kinds of object a member of an EnsemblePredictor may be (`Sequence[Predictor | PredictorLoader]`, freely mixed):
    M  an in-memory object with a predict method (duck-typed),
    P  an instance of a subclass of deephyper.predictor.Predictor,
    L  a PredictorLoader holding the predictor in memory (loaded inside the job),
    F  a PredictorFileLoader whose load() unpickles the predictor from a file in a temporary directory"""
    if _KINDS:
        return _KINDS
    import atexit
    import os
    import pickle
    import shutil
    import tempfile

    from deephyper.predictor import Predictor, PredictorFileLoader, PredictorLoader

    class _PMember(_Member, Predictor):
        def __repr__(self):
            return f"_PMember({self.i})"

    class _Loader(PredictorLoader):
        def __init__(self, member):
            self.member, self.i = member, member.i

        def load(self):
            return self.member

        def __repr__(self):
            return f"_Loader({self.i})"

    class _FileLoader(PredictorFileLoader):
        def __init__(self, member):
            if not _TMP:
                _TMP.append(tempfile.mkdtemp(prefix="c20_members_"))
                atexit.register(shutil.rmtree, _TMP[0], ignore_errors=True)
            fd, path = tempfile.mkstemp(suffix=".pkl", dir=_TMP[0])
            with os.fdopen(fd, "wb") as f:
                pickle.dump(_Member(member.i, member.rank, member.key, member.fail), f)
            super().__init__(path)
            self.i = member.i

        def load(self):
            with open(self.path_predictor_file, "rb") as f:
                return pickle.load(f)

        def __repr__(self):
            return f"_FileLoader({self.i})"

    _KINDS.update(M=lambda m: m, P=lambda m: _PMember(m.i, m.rank, m.key, m.fail), L=_Loader, F=_FileLoader)
    return _KINDS


def _kinds_of(loader, n):
    """the `loader` field of a predictor case -> one kind letter per member: False = in-memory objects, True = loaders,
    a string over M/P/L/F = that pattern (repeated / cut to n members); anything else = in-memory objects"""
    if isinstance(loader, str) and loader and all(c in "MPLF" for c in loader):
        return (loader * n)[:n]
    return ("L" if loader is True else "M") * n


def _kinds_class(kinds):
    """input class of a member pattern for the fingerprint"""
    ld = [c in "LF" for c in kinds]
    return "loader" if ld and all(ld) else "mixed-members" if any(ld) else ""


def run_predictor(finish_order, mode="list", loader=False, fail=None, evaluator="scripted", history=None, via_copy=False):
    """members finish in `finish_order` (list of member indices).
    mode: "list" = predictions_from_predictors, "predict" = predict() (MeanAggregator, weights 1,2,4,…);
    loader: True = every member is a PredictorLoader, or a pattern over M/P/L/F (`_member_kinds`: in-memory objects,
    Predictor subclass instances, loaders, file loaders of pickled members — freely mixed); fail: index of a member
    whose predict raises;
    evaluator: "scripted" (thread backend, one worker per member, event chain), None / "thread" / dict (the constructor's
    other accepted forms; one worker, completion = submission order);
    history: earlier calls ({"finish_order", "mode", "loader", "fail", "copy"}) made on the SAME EnsemblePredictor — or,
    with "copy", on a shallow copy sharing its evaluator, as `OnlineSelector.ensemble` hands out — with their own member
    sets (other sizes); via_copy: the judged call itself goes through such a copy"""
    import copy as _copy

    from deephyper.ensemble import EnsemblePredictor
    from deephyper.ensemble.aggregator import MeanAggregator
    from deephyper.evaluator.callback import Callback

    history = history or []
    n = len(finish_order)
    nmax = max([n] + [len(h["finish_order"]) for h in history])
    seen = []

    class Spy(Callback):
        def on_done(self, job):
            # never raises inside the evaluator: a job whose member cannot be identified is recorded as None (the
            # completion order is then unobservable and the model is not asked)
            try:
                seen.append((str(job.id), int(getattr(job.args["predictor"], "i"))))
            except Exception:  # noqa: BLE001
                seen.append((str(getattr(job, "id", "?")), None))

    def members_of(order, loader_, fail_):
        key, gates = None, []
        if evaluator == "scripted":
            gates = [threading.Event() for _ in range(len(order))]
            gates[0].set()
            key = f"run{len(_GATES)}"
            _GATES[key] = gates
        rank = {m: r for r, m in enumerate(order)}
        ms = [_Member(i, rank[i], key, fail=(fail_ == i)) for i in range(len(order))]
        kinds = _member_kinds()
        ms = [kinds[c](m) for c, m in zip(_kinds_of(loader_, len(order)), ms)]
        return ms, gates

    def one_call(ens, order, mode_, loader_, fail_, copy_):
        ms, gates = members_of(order, loader_, fail_)
        target = _copy.copy(ens) if copy_ else ens
        target.predictors = ms
        target.weights = [float(2 ** i) for i in range(len(order))]
        X = np.zeros((1, 1))
        try:
            if mode_ == "predict":
                return {"raw_predict": target.predict(X)}
            return {"raw_returned": target.predictions_from_predictors(X, ms)}
        finally:
            for g in gates:
                g.set()

    def decode(out):
        """the returned predictions -> member numbers / cells; what cannot be decoded is `malformed` (the members return
        arrays identifying them: anything else is not a member's prediction), never an exception of the harness"""
        try:
            if "raw_predict" in out:
                return {"predict": [float(v) for v in np.asarray(out["raw_predict"], dtype=float).reshape(-1)]}
            return {"returned": [int(np.asarray(a, dtype=float).reshape(-1)[0]) for a in out["raw_returned"]]}
        except Exception as e:  # noqa: BLE001
            return {"malformed": f"{_short(out.get('raw_predict', out.get('raw_returned')))} ({type(e).__name__})"}

    weights = [float(2 ** i) for i in range(n)]
    res = {"seen": seen, "weights": weights}
    try:
        if evaluator == "scripted":
            ev = {"method": "thread", "method_kwargs": {"num_workers": nmax, "callbacks": [Spy()]}}
        else:
            ev = evaluator
        ens = EnsemblePredictor([], MeanAggregator(), weights=None, evaluator=ev)
        for h in history:
            try:
                one_call(ens, h["finish_order"], h.get("mode", "list"), h.get("loader", False), h.get("fail"), h.get("copy", False))
            except Exception:  # noqa: BLE001 - an earlier call that failed is part of the history too
                pass
        del seen[:]
        raw = one_call(ens, finish_order, mode, loader, fail, via_copy)
    except Exception as e:  # noqa: BLE001
        res.update(outcome="exc", exc=f"{type(e).__name__}: {str(e)[:200]}", exc_type=type(e).__name__)
        return res
    dec = decode(raw)
    res.update(outcome="malformed" if "malformed" in dec else "ok", **dec)
    return res


# --------------------------------------------------------------------------- run


def _greedy_case(ck, d, task, opts, label="greedy", res=None, verbose=False):
    """one select() call — or, for a task with a history, EVERY call of the history on one selector object: call i is
    judged (L2 model, L3 clauses, same result as on a fresh selector) as the case `history = calls before i, task = call i`"""
    if res is None and task.get("history"):
        steps = _steps_of(task)
        for i, r in enumerate(run_greedy_steps(steps, opts)):
            if i:
                ck.count(f"{label}:reused-selector:relation={steps[i].get('rel', 'other')}")
            _greedy_one(ck, d, _prefix_task(steps, i), opts, label, r, verbose)
        return
    _greedy_one(ck, d, task, opts, label, res or run_greedy(task, opts), verbose)


def _greedy_one(ck, d, task, opts, label, res, verbose=False):
    n = len(task["preds"])
    case = {"kind": "greedy", "task": task, "opts": opts}
    nontriv = n >= 2 and res["outcome"] == "ok" and len(res["rec"].blocks) >= 1
    ck.case(case, nontrivial=nontriv)
    ck.count(f"{label}:outcome:{res['outcome']}")
    ck.count(f"{label}:n={n}")
    if task.get("history"):
        ck.count(f"{label}:reused-selector:earlier-calls={len(task['history'])}")
    ck.count(f"{label}:iterations={min(len(res['rec'].blocks), 6)}{'+' if len(res['rec'].blocks) > 6 else ''}")
    ck.count(f"{label}:{task['agg']}/{task['loss']}{'/masked' if task.get('masked') else ''}")
    for k_ in ("with_replacement", "early_stopping", "bagging"):
        ck.count(f"{label}:{k_}={opts[k_]}")
    req = greedy_req(task, opts, res)
    dis = None
    if req is None:
        ck.count(f"{label}:" + ("trace-not-reconstructible(model not asked)" if res["rec"].unobserved
                                else "non-finite-member-loss(skipped)"))
        if verbose and res["rec"].unobserved:
            print("replay:", {"model": "not asked", "why": res["rec"].unobserved})
    else:
        slim = {k: res.get(k) for k in ("outcome", "exc", "indices", "weights", "problem")}
        slim["rec"] = types.SimpleNamespace(blocks=list(res["rec"].blocks))

        def on_reply(rep, case=case, opts=opts, slim=slim):
            ck.count(f"{label}:model:{rep['res']}")
            dis = greedy_compare(opts, slim, rep)
            if verbose:
                print("replay:", {"model": {k: rep[k] for k in ("res", "indices", "weights")}, "model_vs_impl": dis or "agree"})
            if dis:
                ck.mismatch(case, dis)

        d.ask(req, on_reply)
    fails = greedy_oracle(task, opts, res)
    if verbose:
        print("replay:", {"impl": {k: res.get(k) for k in ("outcome", "exc", "indices", "weights")}, "oracle": fails or "holds"})

    def report(clause, detail):
        pre = _gfp(clause, task, opts, n, full=True, sign=_sign_class(res, opts))
        if pre in _SHRUNK:  # same class already minimised in this run: count the occurrence
            ck.fail(_SHRUNK[pre], f"GreedySelector: {clause} fails", case, detail)
            return
        t2, o2 = shrink_greedy(task, opts, clause)
        r2 = run_greedy(t2, o2)
        d2 = [x for c, x in greedy_oracle(t2, o2, r2) if c == clause]
        _SHRUNK[pre] = _gfp(clause, t2, o2, len(t2["preds"]), full=True, sign=_sign_class(r2, o2))
        ck.fail(_SHRUNK[pre], f"GreedySelector: {clause} fails",
                {"kind": "greedy", "task": t2, "opts": o2}, d2[0] if d2 else detail)

    # well-formedness of the returned (indices, weights): decided by the verified checker `checkGreedyOut` run by the
    # driver on the real output (C20_checker); the Python statement is the cross-check (disagreement = mismatch)
    wf = [(c, dt) for c, dt in fails if c in _WF_CLAUSES]
    sendable = res["outcome"] == "ok" and all(i >= 0 for i in res["indices"]) and all(np.isfinite(x) for x in res["weights"])
    if sendable:
        def on_check(rep, wf=wf):
            ck.count(f"{label}:verified-checker:{'pass' if rep['spec'] else 'fail'}")
            if bool(rep["spec"]) != (not wf):
                ck.mismatch(case, f"verified checker checkGreedyOut = {rep['spec']} but the Python oracle says {wf or 'well-formed'} "
                                  f"for {res['indices']} {res['weights']}")
            if not rep["spec"]:
                for clause, detail in (wf or [("well-formed", f"checkGreedyOut = false for {res['indices']} {res['weights']}")]):
                    report(clause, detail)

        d.ask({"op": "check_greedy", "tol": rat(1e-9), "n": n, "bound": max(opts["k"], min(opts["k_init"], n)),
               "indices": list(res["indices"]), "weights": [rat(x) for x in res["weights"]]}, on_check)
    for clause, detail in fails:
        if clause == "inconclusive":
            ck.count(f"{label}:inconclusive-long-early-stopping-run")
            continue
        if clause in _WF_CLAUSES and sendable:
            continue
        report(clause, detail)


def _topk_case(ck, d, task, k, verbose=False):
    """every select() call of the task's history (then the task itself) on ONE TopKSelector(k) object; call i is judged as
    the case `history = calls before i, task = call i`.  L2: the whole history goes to the model of the object
    (`topKHistory`, C20_topk_history: the answer to a call is a function of that call alone); L3: the verified checker
    `checkTopK` on the real answer of every call against the candidates' own losses of THAT call (computed by the harness),
    cross-checked by the Python statement; plus never-fails and reuse-independent (same answer as a fresh selector)."""
    steps = _steps_of(task)
    results = run_topk_steps(steps, k)
    if len(steps) > 1:
        ck.count(f"topk:reused-selector:earlier-calls={len(steps) - 1}")
    per = []
    for i, res in enumerate(results):
        t_i = _prefix_task(steps, i)
        n = res["n"]
        case = {"kind": "topk", "task": t_i, "k": k}
        ck.case(case, nontrivial=n >= 2 and k < n)
        ck.count(f"topk:outcome:{res['outcome']}")
        ck.count("topk:" + ("k<n" if k < n else "k>=n"))
        if i:
            ck.count(f"topk:reused-selector:relation={steps[i].get('rel', 'other')}")
            ck.count("topk:reused-selector:" + ("shorter-list" if n < results[i - 1]["n"] else "same-length-list"
                                                if n == results[i - 1]["n"] else "longer-list"))
        if res["scored"] != n:
            ck.count("topk:selector-did-not-score-every-candidate-of-the-call")
        fails = topk_oracle(res, k, t_i)
        if verbose:
            print("replay:", {"call": i, "impl": {k_: res.get(k_) for k_ in ("outcome", "exc", "problem", "indices", "weights")},
                              "own_losses": res["losses"], "oracle": fails or "holds"})
        per.append((case, res, fails))

    def tfail(i, clause, detail):
        n = results[i]["n"]
        st2, reused = shrink_topk(steps[: i + 1], k, clause) if i else (steps[:1], False)
        tags = ["candidates=1" if n == 1 else "candidates<k" if n < k else "", "reused-selector" if reused else ""]
        ck.fail(f"C20|{clause}|TopKSelector.select|" + ",".join(x for x in tags if x), f"TopKSelector: {clause} fails",
                {"kind": "topk", "task": _prefix_task(st2, len(st2) - 1), "k": k}, detail)

    finite = all(np.isfinite(v) for _, res, _ in per for v in res["losses"])
    if not finite:
        ck.count("topk:non-finite-member-loss(model not asked)")
        for i, (_, _, fails) in enumerate(per):
            for clause, detail in fails:
                tfail(i, clause, detail)
        return

    def sendable(res):
        return (res["outcome"] in ("ok", "malformed") and res["indices"] is not None and res["weights"] is not None
                and all(j >= 0 for j in res["indices"]) and all(np.isfinite(x) for x in res["weights"]))

    def on_reply(rep):
        if rep["all"] is not None:
            ck.count(f"topk:verified-history-checker:{'pass' if rep['all'] else 'fail'}")
        for i, ((case, res, fails), st) in enumerate(zip(per, rep["steps"])):
            ck.count("topk:argsort-stable" if st["stable"] else "topk:argsort-not-stable")
            dis = None
            if not st["order_ok"]:
                dis = "np.argsort returned an order that is not a loss-sorted permutation"
            elif res["outcome"] == "ok" and (st["sel"] != res["indices"] or [float(unrat(v)) for v in st["weights"]] != res["weights"]):
                dis = (f"call {i} of the history on one selector object: impl {res['indices']} {res['weights']}, "
                       f"model {st['sel']} {st['weights']}")
            if verbose:
                print("replay:", {"call": i, "model": st, "model_vs_impl": dis or "agree"})
            if dis:
                ck.mismatch(case, dis)
            spec = [(c, dt) for c, dt in fails if c in _TOPK_CLAUSES]
            if st["spec"] is not None:
                # the TopK clause is decided by the verified checker `checkTopK` (C20_checker) on the real answer of this
                # call; the Python statement is the cross-check (disagreement = mismatch)
                ck.count(f"topk:verified-checker:{'pass' if st['spec'] else 'fail'}")
                if bool(st["spec"]) != (not spec):
                    ck.mismatch(case, f"verified checker checkTopK = {st['spec']} but the Python oracle says {spec or 'k lowest'}")
                if not st["spec"]:
                    for clause, detail in (spec or [("k-lowest", f"checkTopK = false for {res['indices']} {res['weights']}")]):
                        tfail(i, clause, detail)
            for clause, detail in fails:
                if clause in _TOPK_CLAUSES and st["spec"] is not None:
                    continue
                tfail(i, clause, detail)

    d.ask({"op": "topk_history", "k": k,
           "calls": [{"losses": [rat(v) for v in res["losses"]], "order": [int(j) for j in np.argsort(res["losses"])]}
                     for _, res, _ in per],
           "outs": [{"indices": list(res["indices"]), "weights": [rat(x) for x in res["weights"]]} if sendable(res) else None
                    for _, res, _ in per]}, on_reply)


def _online_jobs(task, fail_at):
    """the finished jobs of an online session, in completion order: (position, job, sub-task of the successful jobs so far)"""
    y, preds = build(dict(task, masked=False, preds=[{k: v for k, v in p.items() if k != "mask"} for p in task["preds"]]))
    S = task["S"]
    for j, p in enumerate(task["preds"]):
        if j in fail_at:
            yield j, types.SimpleNamespace(id=f"0.{j}", output={"objective": "F_failed"}), None
            continue
        rows = [s_ for s_ in range(S) if not (p.get("mask") or [False] * S)[s_]]
        y_pred = preds[j][rows]
        pd_ = task.get("pred_dtype")
        if pd_ == "list":  # a job may report nested Python lists
            y_pred = y_pred.tolist()
        elif pd_:
            y_pred = y_pred.astype(np.dtype(pd_))  # the generator keeps the values representable in that type
        idx = np.array(rows, dtype=int) if task.get("idx_array") else rows
        job = types.SimpleNamespace(id=f"0.{j}", output={"objective": 0.0, "online_selector": {"y_pred": y_pred, "y_pred_idx": idx}})
        yield j, job, dict(task, preds=[q for i, q in enumerate(task["preds"][:j + 1]) if i not in fail_at])


def _stored_predictions_problem(online, sub, what="y_predictors"):
    """every finished job's stored prediction must be valid exactly on the job's own y_pred_idx, with its own values there
    -> None | text.  Reads public attributes of the implementation only; anything unreadable is a finding, not a crash.
    `online`: the OnlineSelector (its public `y_predictors` is read), or a list — the candidates on_done handed to the
    inner selector's select()"""
    try:
        _, exp = build(sub)
        got = list(online if isinstance(online, (list, tuple)) else online.y_predictors)
        if len(got) != len(exp):
            return f"bookkeeping: {what} holds {len(got)} entries after {len(exp)} finished jobs"
        for k_, (got_a, exp_a) in enumerate(zip(got, exp)):
            gm, em = np.ma.getmaskarray(got_a), np.ma.getmaskarray(exp_a)
            if gm.shape != em.shape or (gm != em).any():
                return (f"finished job #{k_}: valid samples {np.nonzero(~gm.reshape(len(gm), -1).all(axis=1))[0].tolist()}, "
                        f"its y_pred_idx {np.nonzero(~em.reshape(len(em), -1).all(axis=1))[0].tolist()}")
            gv, ev = np.ma.getdata(got_a)[~em], np.ma.getdata(exp_a)[~em]
            if not np.array_equal(gv, ev):
                return (f"finished job #{k_}: stored values {_short(np.asarray(gv).reshape(-1).tolist(), 80)} (dtype {np.ma.getdata(got_a).dtype}) "
                        f"differ from the predictions it reported on its own indices {_short(np.asarray(ev).reshape(-1).tolist(), 80)}")
    except Exception as e:  # noqa: BLE001
        return f"bookkeeping: {what} cannot be read as one masked prediction per finished job ({type(e).__name__}: {str(e)[:120]})"
    return None


def _candidates_req(S, sub, cands):
    """the candidates handed to the inner selector vs. the model `onlineCandidate` of every finished job (what each job
    reported: its y_pred_idx and its values, as exact rationals) -> (request, observed) | None when the observed
    candidates cannot be put on the wire (not one value per target); never raises"""
    try:
        jobs, obs = [], []
        for p, c in zip(sub["preds"], cands):
            rows = [s_ for s_ in range(S) if not (p.get("mask") or [False] * S)[s_]]
            jobs.append({"idx": rows, "vals": [rat(float(p["loc"][s_])) for s_ in rows]})
            data = np.asarray(np.ma.getdata(c), dtype=float).reshape(-1)
            mask = np.ma.getmaskarray(c).reshape(-1)
            if len(data) != S or not np.isfinite(data[~mask]).all():
                return None
            obs.append([None if m else rat(float(v)) for v, m in zip(data, mask)])
        if len(obs) != len(sub["preds"]) or len(cands) != len(sub["preds"]):
            return None
        return {"op": "online_candidates", "S": S, "jobs": jobs}, obs
    except Exception:  # noqa: BLE001
        return None


def _run_prior_sessions(make_online, prior):
    """earlier online sessions served by the SAME inner selector object (another search / another validation set reusing
    the selector); their own judgement happens where they are generated as sessions of their own"""
    for ses in prior or []:
        try:
            online = make_online(ses["task"])
            for _, job, _ in _online_jobs(ses["task"], set(ses.get("fail_at", []))):
                online.on_done(job)
        except Exception:  # noqa: BLE001 - an earlier session that failed is part of the history too
            pass


class _QuietCk:
    """stands in for the Check object while a session is re-run to find out which input class a failure needs"""

    def __init__(self):
        self.fps = []

    def count(self, *a, **k):
        pass

    def case(self, *a, **k):
        pass

    def mismatch(self, *a, **k):
        pass

    def fail(self, fingerprint, what, case, detail=None):
        self.fps.append(fingerprint)


class _NullBatch:
    def ask(self, req, fn):
        pass

    def flush(self):
        pass


_STORAGE_KEYS = ("y_dtype", "pred_dtype", "idx_array")


def _storage_class(task):
    """input class of an online session: how the validation targets, the reported predictions and y_pred_idx are stored
    -> {task key: class tag}"""
    tags = {}
    yd = np.dtype(task["y_dtype"]) if task.get("y_dtype") else np.dtype(float)
    if yd.kind in "iu":
        tags["y_dtype"] = "integer-targets"
    elif yd.kind == "b":
        tags["y_dtype"] = "bool-targets"
    elif yd != np.dtype(float):
        tags["y_dtype"] = f"targets={yd.name}"
    pd_ = task.get("pred_dtype")
    if pd_ == "list":
        tags["pred_dtype"] = "predictions=list"
    elif pd_ and np.dtype(pd_) != np.dtype(float):
        tags["pred_dtype"] = "integer-predictions" if np.dtype(pd_).kind in "iu" else f"predictions={np.dtype(pd_).name}"
    if task.get("idx_array"):
        tags["idx_array"] = "y_pred_idx=array"
    return tags


class _OnlineReport:
    """collects the failures of one online session; when the session stores its targets / predictions / indexes in another
    form than float64 arrays and lists, each failure is attributed: the same session (same values) is re-run quietly with
    the default storage — all of it, then one aspect at a time — and a failure gets appended to its fingerprint exactly
    the storage classes without which it does not show up"""

    def __init__(self, ck, case, rerun):
        self.ck, self.case, self.rerun, self.pending = ck, case, rerun, []

    def fail(self, fingerprint, what, detail):
        self.pending.append((fingerprint, what, detail))

    def _fps_without(self, keys, cache):
        k_ = tuple(sorted(keys))
        if k_ not in cache:
            q = _QuietCk()
            try:
                self.rerun(q, {a: b for a, b in self.case["task"].items() if a not in keys})
                cache[k_] = set(q.fps)
            except Exception:  # noqa: BLE001
                cache[k_] = None
        return cache[k_]

    def flush(self):
        pending, self.pending = self.pending, []
        if not pending:
            return
        tags = _storage_class(self.case["task"]) if self.rerun is not None else {}
        cache = {}
        for fp, what, detail in pending:
            if tags:
                plain = self._fps_without(list(tags), cache)
                if plain is not None and fp not in plain:
                    needed = [t for key, t in tags.items()
                              if len(tags) == 1 or (self._fps_without([key], cache) is not None and fp not in self._fps_without([key], cache))]
                    fp = fp + ("" if fp.endswith("|") else ",") + ",".join(needed or tags.values())
            self.ck.fail(fp, what, self.case, detail)


def _check_candidates(ck, d, rep_, label, S, sub, cands, case, n_ok, verbose=False):
    """what on_done handed to the inner selector's select(): one candidate per finished job, valid exactly on the job's
    own y_pred_idx and holding there the values the job REPORTED (L3 `online-candidates`; L2: model `onlineCandidate`,
    C20_online_candidate)"""
    if cands is None:
        return
    try:
        cands = list(cands)
    except Exception:  # noqa: BLE001
        rep_.fail("C20|online-candidates|OnlineSelector.on_done|", "OnlineSelector: what is handed to the selector is not a list of "
                  "candidates", _short(cands))
        return
    bad = _stored_predictions_problem(cands, sub, what="the candidate list handed to select()")
    if bad:
        rep_.fail("C20|online-candidates|OnlineSelector.on_done|" + ("jobs-with-different-y_pred_idx" if n_ok > 1 and "valid samples" in bad else ""),
                  "OnlineSelector: the candidates handed to the selector are not the predictions the jobs reported", bad)
    rq = _candidates_req(S, sub, cands)
    if rq is None:
        ck.count(f"{label}:candidates-not-comparable(model not asked)")
        return
    req, obs = rq

    def on_reply(rep, obs=obs):
        ck.count(f"{label}:candidates-compared-with-model", len(obs))
        if rep["cands"] != obs:
            k_ = next((i for i, (a, b) in enumerate(zip(rep["cands"], obs)) if a != b), None)
            ck.mismatch(case, f"candidate of finished job #{k_} handed to select(): impl {_short(obs[k_] if k_ is not None else obs)}, "
                              f"model onlineCandidate {_short(rep['cands'][k_] if k_ is not None else rep['cands'])}")
        elif verbose:
            print("replay:", {"candidates": "as the model onlineCandidate"})

    d.ask(req, on_reply)


def _online_case(ck, d, task, opts, fail_at, prior=None, verbose=False, _probe=False):
    """OnlineSelector.on_done after every finished job (the first call sees one candidate); `prior`: earlier sessions
    ({"task", "fail_at"}) that the same GreedySelector object served through other OnlineSelector objects"""
    case = {"kind": "online", "task": task, "opts": opts, "fail_at": sorted(fail_at)}
    if prior:
        case["prior"] = prior
        ck.count(f"online:reused-selector:earlier-sessions={len(prior)}")
    rep_ = _OnlineReport(ck, case, None if _probe else
                         (lambda q, t: _online_case(q, _NullBatch(), t, opts, fail_at, prior=prior, _probe=True)))
    try:
        _online_session(ck, d, rep_, case, task, opts, fail_at, prior, verbose, _probe)
    finally:
        rep_.flush()


def _online_session(ck, d, rep_, case, task, opts, fail_at, prior, verbose, _probe):
    from deephyper.ensemble.selector import GreedySelector, OnlineSelector

    tag = "reused-selector" if prior else ""
    holder = {}

    class Sel(GreedySelector):
        # the selector OnlineSelector calls; every call is recorded like a direct call
        def select(self, y_, y_predictors):
            holder["cands"] = y_predictors
            rec, agg, loss, RS, inner_agg, inner_loss = _make_env(task, y_predictors, min(opts["k_init"], len(y_predictors)))
            self.loss_func, self.aggregator = loss, agg
            self.random_state = RS(opts.get("seed", 0))
            holder.update(rec=rec, inner_agg=inner_agg, inner_loss=inner_loss, y=y_, preds=list(y_predictors),
                          losses=_own_losses(inner_loss, y_, y_predictors))
            return super().select(y_, y_predictors)

    kw = {k: opts[k] for k in GREEDY_DEFAULTS}
    proto = types.SimpleNamespace(predictors=None, weights=None, tag="ensemble-prototype")
    selector = Sel(None, None, **kw)

    def make_online(t):
        return OnlineSelector(build(dict(t, masked=False, preds=[]))[0], selector, proto, lambda job_id: ("loaded", job_id))

    _run_prior_sessions(make_online, prior)
    online = make_online(task)
    n_ok = 0
    for j, job, sub in _online_jobs(task, fail_at):
        if sub is None:
            try:
                online.on_done(job)
            except Exception as e:  # noqa: BLE001
                rep_.fail(f"C20|never-fails|OnlineSelector.on_done|failed-job{',' + tag if tag else ''}",
                          "OnlineSelector: on_done raises on a failed job", f"{type(e).__name__}: {str(e)[:160]}")
                return
            continue
        n_ok += 1
        holder.clear()
        try:
            (online.on_done_other if j % 3 == 2 else online.on_done)(job)  # jobs finished by other processes: same path
            res = _record_output(dict(holder), (online.selected_predictors_indexes, online.selected_predictors_weights))
        except _TooLong:
            res = dict(holder, outcome="toolong")
        except Exception as e:  # noqa: BLE001
            res = dict(holder, outcome="exc", exc=f"{type(e).__name__}: {str(e)[:160]}")
        res.pop("cands", None)
        if "rec" not in holder:
            # the selector was not asked (or on_done failed before asking it): nothing to compare with the model
            if res["outcome"] == "exc":
                rep_.fail(f"C20|never-fails|OnlineSelector.on_done|{tag}", "OnlineSelector: on_done raises", res["exc"])
                return
            ck.count("online:selector-not-called(model not asked)")
        bad = _stored_predictions_problem(online, sub)
        if bad and bad.startswith("bookkeeping:"):
            rep_.fail("C20|online-bookkeeping|OnlineSelector.on_done|", "y_predictors does not hold one entry per finished job", bad)
        elif bad:
            rep_.fail("C20|online-masked-predictions|OnlineSelector.on_done|jobs-with-different-y_pred_idx" if n_ok > 1 else
                      "C20|online-masked-predictions|OnlineSelector.on_done|", "OnlineSelector: a member is recorded as valid on "
                      "samples it never predicted (or with other values)", bad)
        _check_candidates(ck, d, rep_, "online", task["S"], sub, holder.get("cands"), case, n_ok, verbose)
        if res["outcome"] in ("ok", "malformed") and not opts["bagging"]:
            direct = run_greedy(dict(sub, history=None), opts)
            if (res["outcome"] != "ok" or direct["outcome"] != "ok" or direct["indices"] != res["indices"]
                    or len(direct["weights"]) != len(res["weights"])
                    or any(abs(a - b) > 1e-12 for a, b in zip(direct["weights"], res["weights"]))):
                rep_.fail(f"C20|online-selection|OnlineSelector.on_done|{tag}", "OnlineSelector: selection differs from a direct "
                          "select() on the predictions the jobs reported",
                          {"online": [res.get("indices"), res.get("weights"), res.get("problem")],
                           "direct": [direct.get("indices"), direct.get("weights"), direct.get("exc")]})
        if "rec" in holder and not _probe:
            _greedy_case(ck, d, sub, opts, label="online", res=res, verbose=verbose)
        if res["outcome"] != "ok":
            break
        n_av = len(sub["preds"])
        ok_ids = [f"0.{i}" for i in range(j + 1) if i not in fail_at]
        try:
            ids = list(online.selected_predictors_job_ids)
            want = [ok_ids[i] for i in res["indices"]] if all(0 <= i < n_av for i in res["indices"]) else None
            if want is None or ids != want:
                rep_.fail("C20|online-job-ids|OnlineSelector.selected_predictors_job_ids|", "job ids do not match the selected indexes",
                          {"job_ids": ids, "indexes": res["indices"], "finished": ok_ids})
            # the ensemble handed out: the selected members, loaded in selected order, with the selected weights
            ens = online.ensemble
            if (ens is proto or getattr(ens, "tag", None) != "ensemble-prototype"
                    or list(ens.predictors) != [("loaded", i) for i in ids] or [float(x) for x in ens.weights] != res["weights"]
                    or proto.predictors is not None):
                rep_.fail("C20|online-ensemble|OnlineSelector.ensemble|", "ensemble does not hold the selected members with their weights",
                          {"predictors": repr(getattr(ens, "predictors", None)), "weights": repr(getattr(ens, "weights", None))})
        except Exception as e:  # noqa: BLE001 - reading the public results of the selection must not fail either
            rep_.fail("C20|online-job-ids|OnlineSelector.selected_predictors_job_ids|unreadable", "OnlineSelector: the selected job ids / "
                      "ensemble cannot be read after a successful on_done", f"{type(e).__name__}: {str(e)[:160]}")
            break


def _online_topk_case(ck, d, task, k, fail_at, prior=None, verbose=False, _probe=False):
    """OnlineSelector driving a TopKSelector: after every finished job the stored predictions and the candidates handed to
    the selector must be valid exactly on the job's own y_pred_idx with the values the job reported, and the selection
    must be the k lowest losses of the predictions the jobs REPORTED (true losses: computed by the harness from the jobs'
    own reports, whatever the candidates handed to the selector look like);
    `prior`: earlier sessions ({"task", "fail_at"}) the same TopKSelector object served through other OnlineSelector objects"""
    case = {"kind": "online-topk", "task": task, "k": k, "fail_at": sorted(fail_at)}
    if prior:
        case["prior"] = prior
        ck.count(f"online-topk:reused-selector:earlier-sessions={len(prior)}")
    rep_ = _OnlineReport(ck, case, None if _probe else
                         (lambda q, t: _online_topk_case(q, _NullBatch(), t, k, fail_at, prior=prior, _probe=True)))
    try:
        _online_topk_session(ck, d, rep_, case, task, k, fail_at, prior, verbose)
    finally:
        rep_.flush()


def _online_topk_session(ck, d, rep_, case, task, k, fail_at, prior, verbose):
    from deephyper.ensemble.selector import OnlineSelector, TopKSelector

    tag = ",reused-selector" if prior else ""
    _, _, _, _, _, inner_loss = _make_env(task, [], 0)
    holder = {}

    class Sel(TopKSelector):
        def select(self, y_, y_predictors):
            holder["cands"] = y_predictors
            return super().select(y_, y_predictors)

    selector = Sel(inner_loss, k=k)

    def make_online(t):
        return OnlineSelector(build(dict(t, masked=False, preds=[]))[0], selector, None, lambda job_id: job_id)

    _run_prior_sessions(make_online, prior)
    online = make_online(task)
    y_true = build(dict(task, masked=False, preds=[]))[0]
    n_ok = 0
    for j, job, sub in _online_jobs(task, fail_at):
        if sub is not None:
            ck.case({"kind": "online-topk", "task": sub, "k": k, "prior": prior or []}, nontrivial=len(sub["preds"]) >= 2)
            ck.count("online-topk:calls")
        holder.clear()
        try:
            online.on_done(job)
        except Exception as e:  # noqa: BLE001
            rep_.fail(f"C20|never-fails|OnlineSelector.on_done|selector=TopK{tag}", "OnlineSelector(TopK): on_done raises",
                      f"{type(e).__name__}: {str(e)[:160]}")
            return
        if sub is None:
            continue
        n_ok += 1
        bad = _stored_predictions_problem(online, sub)
        if bad and bad.startswith("bookkeeping:"):
            rep_.fail("C20|online-bookkeeping|OnlineSelector.on_done|selector=TopK", "y_predictors does not hold one entry per finished job", bad)
        elif bad:
            rep_.fail("C20|online-masked-predictions|OnlineSelector.on_done|jobs-with-different-y_pred_idx",
                      "OnlineSelector: a member is recorded as valid on samples it never predicted (or with other values)", bad)
        _check_candidates(ck, d, rep_, "online-topk", task["S"], sub, holder.get("cands"), case, n_ok, verbose)
        # the selection against the TRUE losses: those of the predictions the jobs reported, w.r.t. the session's targets
        try:
            gi, gw, problem = _norm_output((online.selected_predictors_indexes, online.selected_predictors_weights))
        except Exception as e:  # noqa: BLE001
            gi, gw, problem = None, None, f"the selection cannot be read ({type(e).__name__})"
        true_losses = _own_losses(inner_loss, y_true, build(sub)[1])
        judged = {"n": len(sub["preds"]), "losses": true_losses, "indices": gi, "weights": gw, "problem": problem}
        fails = _topk_oracle(judged, k)
        if fails:
            rep_.fail(f"C20|online-selection|OnlineSelector.on_done|selector=TopK{tag}", "OnlineSelector(TopK): not the k lowest losses "
                      "of the predictions the jobs reported",
                      {"online": [gi, gw, problem], "clauses": fails, "true_losses": true_losses})
        if verbose:
            print("replay:", {"job": j, "online": [gi, gw], "true_losses": true_losses, "oracle": fails or "holds"})


def _predictor_clauses_failing(res, n, use_predict, fail, evaluator):
    """the clauses of the property that fail on the outcome of one EnsemblePredictor call -> set of clause names (the same
    statements as in `_predictor_case`, without details; never raises)"""
    try:
        if evaluator not in ("scripted", None, "thread") and not isinstance(evaluator, dict):
            return {"constructor-rejects"} if res["outcome"] != "exc" or res.get("exc_type") != "ValueError" else set()
        if fail is not None:
            if res["outcome"] != "exc" or res.get("exc_type") != "RuntimeError":
                return {"member-error-reported"}
            return {"member-order"} if f"predictors[{fail}]" not in res["exc"] or f"({fail})" not in res["exc"] else set()
        if res["outcome"] == "exc":
            return {"never-fails"}
        if res["outcome"] == "malformed":
            return {"member-order"}
        if use_predict:
            w = res["weights"]
            exp = [sum(w[i] * v for i, v in enumerate(col)) / sum(w)
                   for col in ([float(i) for i in range(n)], [float(i * i) + 0.5 for i in range(n)])]
            bad = any(abs(a - b) > 1e-12 * (1 + abs(b)) for a, b in zip(res["predict"], exp)) or len(res["predict"]) != 2
            return {"member-order"} if bad else set()
        return {"member-order"} if res["returned"] != list(range(n)) else set()
    except Exception:  # noqa: BLE001
        return set()


def _predictor_case(ck, d, order, use_predict=False, loader=False, fail=None, evaluator="scripted", history=None,
                    via_copy=False, verbose=False):
    mode = "predict" if use_predict else "list"
    res = run_predictor(order, mode, loader=loader, fail=fail, evaluator=evaluator, history=history, via_copy=via_copy)
    case = {"kind": "predictor", "finish_order": list(order), "use_predict": use_predict, "loader": loader, "fail": fail,
            "evaluator": evaluator, "history": history or [], "via_copy": via_copy}
    if history:
        ck.count(f"predictor:reused-evaluator:earlier-calls={len(history)}")
        ck.count("predictor:reused-evaluator:" + ("same-size" if all(len(h["finish_order"]) == len(order) for h in history)
                                                  else "other-sizes"))
    n = len(order)
    site = "EnsemblePredictor." + ("predict" if use_predict else "predictions_from_predictors")
    kinds = _kinds_of(loader, n)
    cls_ = ",".join(x for x in ("evaluator=thread" if evaluator == "scripted" else f"evaluator={evaluator}",
                               _kinds_class(kinds), "member-raises" if fail is not None else "",
                               "reused-evaluator" if history else "") if x)
    seen_members = [m for _, m in res["seen"]]
    if any(m is None for m in seen_members):
        # the evaluator's jobs no longer identify their member: the completion order is unobservable, the model is not
        # asked; the oracle (a statement about what is returned) still judges
        ck.count("predictor:completion-order-unobservable(model not asked)")
        seen_members = []
    ck.case(case, nontrivial=n >= 2 and seen_members != sorted(seen_members))
    ck.count(f"predictor:{mode}:members={n}")
    ck.count(f"predictor:evaluator={evaluator}{':' + _kinds_class(kinds) if _kinds_class(kinds) else ''}"
             f"{':member-raises' if fail is not None else ''}")
    if n >= 2:
        ck.count("predictor:members:" + ("loaders-before-predictors" if kinds == "".join(sorted(kinds, key=lambda c: c not in "LF"))
                                         and _kinds_class(kinds) == "mixed-members" else
                                         "a-predictor-before-a-loader" if _kinds_class(kinds) == "mixed-members" else
                                         "all-loaders" if _kinds_class(kinds) == "loader" else "all-in-memory"))
        ck.count("predictor:member-kinds=" + "".join(sorted(set(kinds))))
    if evaluator == "scripted":
        ck.count("predictor:completion-order-" + ("as-scripted" if seen_members == list(order) else "other"))
        ck.count("predictor:completion-" + ("in-submission-order" if seen_members == sorted(seen_members) else "out-of-order"))
    fails = []
    if evaluator not in ("scripted", None, "thread") and not isinstance(evaluator, dict):
        # not an accepted form: the constructor must refuse it
        if res["outcome"] != "exc" or res.get("exc_type") != "ValueError":
            fails.append(("constructor-rejects", f"evaluator={evaluator!r} accepted: {res.get('exc')}"))
    elif fail is not None:
        # the error must name the failing member by its position in the predictors list, whatever finished first
        if res["outcome"] != "exc" or res.get("exc_type") != "RuntimeError":
            fails.append(("member-error-reported", f"member {fail} raises in predict, outcome {res['outcome']} {res.get('exc')}"))
        elif f"predictors[{fail}]" not in res["exc"] or f"({fail})" not in res["exc"]:
            fails.append(("member-order", f"member {fail} failed but the error names another one: {res['exc']}"))
    elif res["outcome"] == "exc":
        fails.append(("never-fails", res["exc"]))
    elif res["outcome"] == "malformed":
        fails.append(("member-order", f"what was returned are not the members' predictions: {res['malformed']}"))
    elif use_predict:
        w = res["weights"]
        exp = [sum(w[i] * v for i, v in enumerate(col)) / sum(w)
               for col in ([float(i) for i in range(n)], [float(i * i) + 0.5 for i in range(n)])]
        if any(abs(a - b) > 1e-12 * (1 + abs(b)) for a, b in zip(res["predict"], exp)) or len(res["predict"]) != 2:
            fails.append(("member-order", f"predict() = {res['predict']!r}, weighted mean in member order = {exp!r}; "
                                          f"completion order {seen_members}"))
        if seen_members:
            def on_reply(rep, case=case, res=res):
                model = [None if v is None else float(unrat(v)) for v in rep["loc"]]
                if not rep["bad_id"] and not rep.get("hs_ok", True):
                    ck.mismatch(case, f"the jobs' ids do not increase along the predictors list (hypothesis of C20_order / "
                                      f"C20_member_order_any_kind: members are submitted in list order): {res['seen']}")
                if rep["bad_id"] or len(model) != len(res["predict"]) or any(
                        m is None or abs(m - a) > 1e-12 * (1 + abs(m)) for m, a in zip(model, res["predict"])):
                    ck.mismatch(case, f"predict(): impl {res['predict']}, model (sortById of completion order {res['seen']}, "
                                      f"then weighted mean) {model}")
                elif verbose:
                    print("replay:", {"model": model, "model_vs_impl": "agree"})

            d.ask({"op": "predict", "ids": [i for i, _ in res["seen"]], "members": list(seen_members),
                   "vals": [[rat(float(m)), rat(float(m * m) + 0.5)] for m in seen_members],
                   "ws": [rat(x) for x in res["weights"]]}, on_reply)
    else:
        if seen_members:
            def on_reply(rep, case=case, res=res, seen_members=seen_members):
                model = [seen_members[p] for p in rep["perm"]]
                if not rep["bad_id"] and not rep.get("hs_ok", True):
                    ck.mismatch(case, f"the jobs' ids do not increase along the predictors list (hypothesis of C20_order / "
                                      f"C20_member_order_any_kind: members are submitted in list order): {res['seen']}")
                if rep["bad_id"] or model != res["returned"] or rep.get("by_member", model) != model:
                    ck.mismatch(case, f"impl returned members {res['returned']}, model (sortById of completion order "
                                      f"{res['seen']}) {model}")
                elif verbose:
                    print("replay:", {"model": model, "model_vs_impl": "agree"})

            d.ask({"op": "sort", "ids": [i for i, _ in res["seen"]], "members": list(seen_members)}, on_reply)
        if res["returned"] != list(range(n)):
            fails.append(("member-order", f"predictions of members {res['returned']} returned for predictors 0..{n - 1}; "
                                          f"completion order {seen_members}"))
    if verbose:
        print("replay:", {"impl": res, "oracle": fails or "holds"})
    plain = None
    for clause, detail in fails:
        kc = _kinds_class(kinds)
        if kc:
            # does the failure need members of these kinds?  the same call (same orders, same history) with in-memory
            # duck-typed members everywhere; the member-kind class stays in the fingerprint only if that one passes
            if plain is None:
                try:
                    r2 = run_predictor(order, mode, loader=False, fail=fail, evaluator=evaluator, via_copy=via_copy,
                                       history=[dict(h, loader=False) for h in history or []])
                    plain = _predictor_clauses_failing(r2, n, use_predict, fail, evaluator)
                except Exception:  # noqa: BLE001
                    plain = set()
            if clause in plain:
                kc = ""
        cls2 = ",".join(x for x in ("evaluator=thread" if evaluator == "scripted" else f"evaluator={evaluator}", kc,
                                    "member-raises" if fail is not None else "", "reused-evaluator" if history else "") if x)
        ck.fail(f"C20|{clause}|{site}|{cls2}", f"EnsemblePredictor: {clause} fails", case, detail)


def _corpus():
    import json
    from .common import VERIF

    out = []
    for f in sorted((VERIF / "corpus" / "C20").glob("*.json")):
        dd = json.loads(f.read_text())
        out.append(dd["case"] if "case" in dd else dd)
    return out


def _dispatch(ck, d, case, verbose=False):
    if case["kind"] == "greedy":
        _greedy_case(ck, d, case["task"], case["opts"], verbose=verbose)
    elif case["kind"] == "topk":
        _topk_case(ck, d, case["task"], case["k"], verbose=verbose)
    elif case["kind"] == "online-topk":
        _online_topk_case(ck, d, case["task"], case["k"], set(case.get("fail_at", [])), prior=case.get("prior"), verbose=verbose)
    elif case["kind"] == "online":
        _online_case(ck, d, case["task"], case["opts"], set(case.get("fail_at", [])), prior=case.get("prior"), verbose=verbose)
    else:
        _predictor_case(ck, d, case["finish_order"], case.get("use_predict", False), loader=case.get("loader", False),
                        fail=case.get("fail"), evaluator=case.get("evaluator", "scripted"), history=case.get("history"),
                        via_copy=case.get("via_copy", False), verbose=verbose)


def run(ck):
    rng = ck.rng
    ck.rule = ("generated: 1..12 candidates x (k, k_init, max_it, eps_tol, with_replacement, early_stopping, bagging) x "
               "regression (mean/normal aggregator; squared/absolute/NLL loss) and classification (categorical/mode aggregator; "
               "0-1/cross-entropy loss) x plain/row-masked predictions, duplicate candidates for ties; TopK with k below/above n; "
               "histories: one TopK / Greedy selector object serving 2..4 select() calls, each derived from the one before (unrelated "
               "candidates of smaller / equal / larger number, the same candidates permuted, the same candidates against another target, "
               "the list grown by appending, a sub-list, the same call again), EVERY call judged like a call on a fresh selector against "
               "the candidates' own losses of that call; losses of any sign (NLL of confident members; loss - c for c making the "
               "aggregated losses negative / zero at the best member or at the start / mixed / far from zero) with near-copies of the "
               "best member; OnlineSelector fed job by job (failed jobs interleaved), its inner selector "
               "object possibly reused from an earlier session, targets stored as float64/float32/int64/int32/uint8/bool x reports as "
               "float64/float32/int64 arrays or nested lists x y_pred_idx as list or array; EnsemblePredictor with every finish order "
               "of <=4 (quick) / <=5 (thorough) members, members of four kinds (duck-typed, Predictor subclass, PredictorLoader, "
               "PredictorFileLoader of a pickled member) in every in-memory/loader pattern x every finish order of <=3 / <=4 members; "
               "non-trivial = >=2 candidates and at least one greedy iteration / k<n / completion out of order")
    ck.assumptions = [
        "loss function and aggregator are environment: the model's aggregated loss is an arbitrary function of the multiset of members "
        "(observed through the loss/aggregator objects given to the selector)",
        "np.argsort returns a permutation sorted by loss (observed; checked against the contract OrderOK on every case)",
        "individual losses are finite (no NaN candidates: every member has at least one unmasked row)",
        f"non-termination is observed as 'more than {MAX_ITER} greedy iterations' (deterministic, no wall clock)",
        "early-stopping comparison loss_min - eps_tol is exact in the model, rounded in the code: cases within 1e-12 of the threshold are not compared",
        "job ids increase with submission order (C13); thread evaluator with one worker per member",
    ]
    with ck.driver() as drv:
        d = _Batch(drv)
        for case in _corpus():
            ck.count("corpus")
            _dispatch(ck, d, case)
        # exhaustive small option lattice on tiny candidate sets (1..3 candidates: the online start)
        for n in (1, 2, 3):
            for k, k_init, repl, es, bag, max_it in itertools.product((1, 2, 5), (1, 2, 5), (True, False), (True, False),
                                                                     (False, True), (-1, 2)):
                task = gen_task(rng, n)
                opts = dict(GREEDY_DEFAULTS, k=k, k_init=k_init, with_replacement=repl, early_stopping=es, bagging=bag,
                            max_it=max_it, seed=rng.randrange(100))
                _greedy_case(ck, d, task, opts)
        for _ in range(ck.pick(500, 12000)):
            n = rng.choice([1, 2, 2, 3, 3, 4, 5, 6, 7, 8, 10, 12])
            _greedy_case(ck, d, gen_task(rng, n), gen_opts(rng, n))
        for _ in range(ck.pick(200, 4000)):
            n = rng.choice([1, 2, 3, 4, 5, 6, 8, 10, 12])
            _topk_case(ck, d, gen_task(rng, n), rng.choice([1, 1, 2, 3, 5, 5, 8, 14]))
        # structured starts: members whose errors compensate (the start is better than each of its members)
        for _ in range(ck.pick(120, 1500)):
            task, k0 = gen_compensating(rng, rng.choice([1, 2, 3, 5]))
            opts = gen_opts(rng, len(task["preds"]))
            opts.update(k_init=k0, k=k0 + rng.choice([1, 2, 4]), early_stopping=rng.random() < 0.85,
                        eps_tol=rng.choice([1e-3, 2.0 ** -10]), max_it=rng.choice([-1, -1, 3]))
            _greedy_case(ck, d, task, opts, label="compensating")
        # losses of any sign: NLL of confident members, and the library's losses measured from another origin (loss - c:
        # negative, zero at the best member / at the starting ensemble, mixed sign, far from zero), with near-copies of the
        # best member among the candidates; a fifth of them as chains on one selector object, a tenth through TopK
        for _ in range(ck.pick(260, 2500)):
            n = rng.choice([1, 2, 2, 3, 3, 4, 5, 6, 8, 10])
            task, opts = gen_signed(rng, n)
            ck.count(f"signed:origin={task['origin']}")
            r = rng.random()
            if r < 0.1:
                _topk_case(ck, d, task, rng.choice([1, 2, 3, 5]))
                continue
            if r < 0.3:
                steps = [task]
                for _ in range(rng.randint(1, 2)):
                    steps.append(_next_step(rng, steps[-1], rng.choice(_RELATIONS)))
                task = dict(steps[-1], history=steps[:-1])
            _greedy_case(ck, d, task, opts, label="signed")
        # histories: one selector object serving several select() calls (TopK / Greedy keep no state by contract)
        for _ in range(ck.pick(150, 2000)):
            n = rng.choice([1, 2, 3, 4, 5, 6, 8, 12])
            _greedy_case(ck, d, gen_with_history(rng, n), gen_opts(rng, n))
        for _ in range(ck.pick(150, 1500)):
            n = rng.choice([1, 2, 3, 4, 5, 6, 8, 12])
            _topk_case(ck, d, gen_with_history(rng, n), rng.choice([1, 1, 2, 2, 3, 5, 8]))
        prev_online = {}  # selector kind -> the previous generated session (served again, first, by the next one's selector)
        for _ in range(ck.pick(80, 800)):
            n = rng.choice([1, 2, 3, 4, 5, 6, 8])
            task = gen_task(rng, n)
            while task["kind"] != "reg":  # OnlineSelector stores predictions shaped like y: regression
                task = gen_task(rng, n)
            if task["agg"] == "normal":
                task["agg"], task["loss"] = "mean", rng.choice(["se", "ae"])
            # which samples each job predicted (y_pred_idx): disjoint folds, overlapping subsets, all, or a mixture;
            # targets away from 0 (a sample wrongly recorded as predicted holds the value 0)
            S = rng.choice([2, 3, 4, 6, 8])
            off = rng.choice([3.0, -5.0, 10.0])
            # how the validation targets are stored (counts, ratings, labels: integer / boolean arrays; single precision) and
            # how a job reports its predictions (float64 / float32 arrays, integer arrays, nested lists); every value is
            # representable in its storage type, so the session means the same whatever the types
            yd = rng.choice(["float64"] * 5 + ["float32", "int64", "int64", "int32", "uint8", "bool"])
            pdt = rng.choice([None] * 4 + ["float32", "list", "int64"])
            if np.dtype(yd).kind == "b":
                ys = [float(rng.randrange(2)) for _ in range(S)]
            elif np.dtype(yd).kind in "iu":
                ys = [(abs(off) if yd == "uint8" else off) + rng.randint(-2, 2) for _ in range(S)]
            else:
                ys = [off + rng.randint(-8, 8) / 8 for _ in range(S)]
            task["S"], task["y"] = S, ys
            if yd != "float64":
                task["y_dtype"] = yd
            if pdt:
                task["pred_dtype"] = pdt
            if rng.random() < 0.3:
                task["idx_array"] = True
            ck.count(f"online:targets={yd}")
            ck.count(f"online:predictions={pdt or 'float64'}")
            pattern = rng.choice(["folds", "folds", "overlap", "full", "mixed"])
            F = rng.choice([2, 3]) if S >= 3 else 2
            for j_, p_ in enumerate(task["preds"]):
                if pdt == "int64":  # integer-valued reports (labels, counts)
                    p_["loc"] = [float(round(t) + rng.randint(-3, 3)) for t in task["y"]]
                else:  # real-valued reports (eighths: exact in single precision too)
                    p_["loc"] = [t + rng.randint(-8, 8) / 8 for t in task["y"]]
                pat = pattern if pattern != "mixed" else rng.choice(["folds", "overlap", "full"])
                if pat == "folds":
                    mk = [s_ % F != j_ % F for s_ in range(S)]
                elif pat == "overlap":
                    mk = [rng.random() < 0.45 for _ in range(S)]
                else:
                    mk = [False] * S
                if all(mk):
                    mk[rng.randrange(S)] = False
                p_["mask"] = mk
            task["masked"] = True
            ck.count("online:y_pred_idx-pattern=" + pattern)
            # histories on the inner selector object: with probability 1/2 the selector first serves the previous generated
            # session (another search, another validation set: other y, other number of jobs) through another OnlineSelector
            fail_at = {i for i in range(n) if rng.random() < 0.15}
            kind_ = "topk" if rng.random() < 0.35 else "greedy"
            prior = [prev_online[kind_]] if kind_ in prev_online and rng.random() < 0.5 else None
            prev_online[kind_] = {"task": task, "fail_at": sorted(fail_at)}
            if kind_ == "topk":
                _online_topk_case(ck, d, task, rng.choice([1, 2, 3, 5]), fail_at, prior=prior)
                continue
            _online_case(ck, d, task, gen_opts(rng, n), fail_at, prior=prior)
        # EnsemblePredictor: every finish order, for predictions_from_predictors AND for predict() end to end
        nmax = ck.pick(4, 5)
        for n in range(1, nmax + 1):
            for order in itertools.permutations(range(n)):
                _predictor_case(ck, d, list(order))
                if n <= ck.pick(3, 5) or rng.random() < 0.4:
                    _predictor_case(ck, d, list(order), use_predict=True, loader=rng.random() < 0.3)
        for _ in range(ck.pick(6, 40)):  # members given as PredictorLoaders
            n = rng.randint(2, 5)
            order = list(range(n))
            rng.shuffle(order)
            _predictor_case(ck, d, order, use_predict=rng.random() < 0.5, loader=True)

        def rnd_kinds(n_):
            """a random member pattern over the four kinds of member object"""
            return "".join(rng.choice("MPLF") for _ in range(n_))

        # mixed ensembles: EVERY pattern of in-memory member / loader (2^n; which in-memory class and which loader class at
        # each position is drawn) x EVERY finish order, for <= 3 (quick) / <= 4 (thorough) members; larger ones sampled
        nmix = ck.pick(3, 4)
        for n in range(1, nmix + 1):
            for pat in itertools.product((False, True), repeat=n):
                for order in itertools.permutations(range(n)):
                    kinds_ = "".join(rng.choice("LF") if ld else rng.choice("MP") for ld in pat)
                    _predictor_case(ck, d, list(order), use_predict=rng.random() < 0.4, loader=kinds_)
        for _ in range(ck.pick(16, 250)):
            n = rng.randint(nmix + 1, 6)
            order = list(range(n))
            rng.shuffle(order)
            _predictor_case(ck, d, order, use_predict=rng.random() < 0.4, loader=rnd_kinds(n))
        for _ in range(ck.pick(8, 60)):  # a member raises: the error must name that member, whatever finished first
            n = rng.randint(1, 4)
            order = list(range(n))
            rng.shuffle(order)
            _predictor_case(ck, d, order, use_predict=rng.random() < 0.5, fail=rng.randrange(n),
                            loader=rng.choice([False, False, True, rnd_kinds(n), rnd_kinds(n)]))
        # histories: several predict() / predictions_from_predictors() calls on ONE EnsemblePredictor, or on shallow copies
        # sharing its evaluator (what OnlineSelector.ensemble hands out), with different member counts: the evaluator's job
        # counter keeps increasing across calls
        for _ in range(ck.pick(30, 250)):
            def rnd_order(k_):
                o_ = list(range(k_))
                rng.shuffle(o_)
                return o_
            n = rng.randint(1, 4)
            hist = [{"finish_order": rnd_order(rng.choice([k_ for k_ in (1, 2, 3, 4, 5) if k_ != n] + [n])),
                     "mode": rng.choice(["list", "predict"]), "loader": rng.choice([False, False, False, True, rnd_kinds(5)]),
                     "fail": None, "copy": rng.random() < 0.4} for _ in range(rng.randint(1, 3))]
            if rng.random() < 0.15:
                hist[0]["fail"] = 0
            _predictor_case(ck, d, rnd_order(n), use_predict=rng.random() < 0.5,
                            loader=rng.choice([False, False, True, rnd_kinds(n), rnd_kinds(n)]),
                            fail=(rng.randrange(n) if rng.random() < 0.1 else None), history=hist, via_copy=rng.random() < 0.4)
        # the other forms of the `evaluator` argument ("serial" is not one the predictor can run with: SerialEvaluator
        # refuses the non-coroutine wrapper at construction; the property quantifies over the thread backend)
        for ev in (None, "thread", {"method": "thread"}, 5, ["thread"]):
            _predictor_case(ck, d, [0, 1, 2], use_predict=ev is None, evaluator=ev)
        d.flush()


def replay(ck, case):
    with ck.driver() as drv:
        d = _Batch(drv)
        _dispatch(ck, d, case, verbose=True)
        d.flush()
