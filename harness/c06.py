"""C06 — failed evaluations are contained: recorded as failures, never fatal.

L2 (correspondence with `Model/Failures.lean` + the `_on_done` part of `Model/Dump.lean`):
  A. `set_output` + `Evaluator._on_done` on constructed HPOJobs      vs `onDoneObjective ∘ standardizeOutput`
  B. `CBO._tell(results)` (what it hands to the public `Optimizer.tell`) vs `cboTell`
  C. `Optimizer._filter_failures(yi)` scalar and per-objective           vs `filterFailures`
  C'. `Optimizer.tell` used directly with `n_initial_points=0` (fits from the start): ok / fit input /
     `ExhaustedFailures` / the marker reaching the estimator                vs `optTell`
  D. full `CBO.search()` with a recording sklearn regressor as surrogate and the identity scaler:
     every `Optimizer.tell` argument and every `y` that reaches `estimator.fit` vs `searchTell`
  E. `RegularizedEvolution.search()`: proposals are fresh samples while the model's population is
     not full and one-gene mutations of a member of the model's population afterwards
  A'. the `"out"` entry `_on_done` writes to the storage, and the objective of the job another evaluator
     attached to the same search rebuilds from it (`gather_other_jobs_done`)     vs `onDoneStore` / `otherObjective`
  G. the constant-liar ask cache over sequences of `Optimizer.ask/tell/update_next` and of
     `CBO.ask/tell` (which ask returns a batch computed now, which a cached one)  vs `optAsk` / `cboAsk` / `cboTellCache`
L3 (the property on the real code): success/failure patterns x failure kind x policy x surrogate x
     single/multi objective x search class x workers: search() does not raise, every failed row
     carries a marker in every objective column, every proposal is a member of the space,
     relabelling the failures (same seed; ANY text after the leading 'F': none, no underscore, spaces,
     punctuation, unicode, very long, one label per failure) leaves the proposals unchanged, and the
     batch proposed right after a batch that failed entirely is not that batch again.
     Two searches attached to ONE storage and search_id (taking turns): the same clauses for each of
     them, on its own results and on the results it reads back from the storage.
"""
import contextlib
import io
import copy
import csv
import itertools
import json
import math
import numbers
import os
import shutil
import tempfile
from fractions import Fraction

import numpy as np

from . import c04 as T
from .common import HarnessError, VERIF, rat, unrat

PROP = "C06"
REL_TOL = Fraction(1, 10**12)

DEFAULTS = {"cls": "RandomSearch", "nobj": 1, "kind": "str", "policy": "min", "surrogate": "ET", "workers": 1,
            "strategy": "cl_max", "max_failures": 100}
STRATEGIES = ["cl_max", "cl_min", "cl_mean", "qUCB"]  # topk / boltzmann are C02's subject
KINDS = ["str", "nan", "inf", "-inf", "nan-in-tuple"]
# the same failures carried by NumPy types / other return forms (only the Python type differs)
KINDS_NP = ["nan32-in-tuple", "inf16-in-dict", "nan32-in-dict", "-inf64-in-list"]
POLICY_MAP = {"min": "max", "mean": "mean", "ignore": "ignore"}
# "a string starting with 'F'": the text after the leading F is arbitrary
LABEL_POOL = ["F", "F_x", "F_", "F__", "FAILED", "Fail: out of memory", "F-timeout", "F timeout", "F.", "F:1", "F0", "False",
              "FF", "F\u00e9\u2713", "F\u4e2d\u6587 \u2713", "F" + "x" * 300, "F_" + "y" * 300, "F,1", 'F"q"', "F_line1\nline2", "F\t",
              "F_another_label_0123", "F ", "Fx_y"]
_LABEL_ALPHABET = "abcXYZ019_ -:;.,!?/()[]\u00e9\u00fc\u2713\u4e2d\U0001f600'\"#%"
# searches whose every proposal is selected among freshly drawn candidates of the whole space (which has
# a continuous dimension): an unproposed candidate always exists and an exact repetition is never a
# coincidence.  (RegularizedEvolution proposes one-gene mutations of a few parents: a small finite
# candidate set, which may legitimately contain a configuration that failed before.)
FRESH_CLASSES = ("CBO", "RandomSearch", "ExperimentalDesignSearch")


def gen_label(rng):
    """a failure label: 'F' followed by arbitrary text (pool + random text of random length)"""
    if rng.random() < 0.6:
        return rng.choice(LABEL_POOL)
    n = rng.choice([0, 1, 2, 5, 12, 40])
    return "F" + "".join(rng.choice(_LABEL_ALPHABET) for _ in range(n))


def gen_labels(rng):
    """the labels of one run: one text for all failures, or one text per failure (cycled)"""
    if rng.random() < 0.6:
        return gen_label(rng)
    return [gen_label(rng) for _ in range(rng.randint(2, 4))]


def label_at(label, k):
    return label if isinstance(label, str) else label[k % len(label)]


def label_form(label):
    """'F' | 'F_*' | 'F*' (a list: the forms it contains)"""
    if isinstance(label, str):
        return "F" if label == "F" else ("F_*" if label.startswith("F_") else "F*")
    return "+".join(sorted({label_form(x) for x in label}))

# --------------------------------------------------------------------------- helpers


def y_to_wire(v):
    """an element of opt_y as the model prints it"""
    if isinstance(v, str):
        return "F" if v == "F" else {"str": v}
    if isinstance(v, (list, tuple)):
        return {"vec": [num_to_wire(x) for x in v]}
    return {"v": num_to_wire(v)}


def num_to_wire(x):
    x = float(x) if not isinstance(x, int) else x
    if isinstance(x, float) and math.isnan(x):
        return {"nf": "nan"}
    if isinstance(x, float) and math.isinf(x):
        return {"nf": "inf" if x > 0 else "-inf"}
    return rat(x)


def make_problem():
    from deephyper.hpo import HpProblem

    p = HpProblem()
    p.add_hyperparameter((0.0, 1.0), "x")
    p.add_hyperparameter((1, 10), "k")
    p.add_hyperparameter(["a", "b"], "c")
    return p


def valid_config(cfg):
    try:
        x, k, c = cfg["x"], cfg["k"], cfg["c"]
    except Exception:
        return False
    if not isinstance(x, numbers.Real) or isinstance(x, bool) or not (0.0 <= float(x) <= 1.0):
        return False
    if not isinstance(k, numbers.Integral) or isinstance(k, bool) or not (1 <= int(k) <= 10):
        return False
    return c in ("a", "b") and set(cfg.keys()) == {"x", "k", "c"}


def failure_value(kind, nobj, v, label="F_x", k=0):
    if kind == "str":
        return label_at(label, k)
    if kind in KINDS_NP:
        bad = {"nan32-in-tuple": np.float32("nan"), "inf16-in-dict": np.float16("inf"), "nan32-in-dict": np.float32("nan"),
               "-inf64-in-list": np.float64("-inf")}[kind]
        if nobj > 1:
            xs = [np.float32(v)] * nobj
            xs[0] = bad
            obj = list(xs) if kind.endswith("list") else tuple(xs)
        else:
            obj = bad
        return {"objective": obj} if kind.endswith("dict") or nobj == 1 else obj
    if kind == "nan-in-tuple" and nobj > 1:
        xs = [v] * nobj
        xs[-1] = float("nan")
        return tuple(xs)
    x = {"nan": float("nan"), "inf": float("inf"), "-inf": float("-inf"), "nan-in-tuple": float("nan")}[kind]
    return x


def success_value(nobj, cfg):
    v = float(cfg["x"]) + 0.1 * int(cfg["k"])
    return v if nobj == 1 else tuple(v * (1 if i % 2 == 0 else -1) + i for i in range(nobj))


_AVAIL = {}


def make_search(case, run, log_dir, surrogate_obj=None, extra=None, storage=None):
    """the search object of a case (None + reason when the class/surrogate cannot be constructed
    for a reason outside C06, e.g. the DUMMY surrogate under scikit-learn >= 1.6)"""
    from deephyper.evaluator import Evaluator
    from deephyper.hpo import CBO, RandomSearch, RegularizedEvolution

    mk = {"num_workers": case["workers"]}
    if storage is not None:  # (storage, search_id): several evaluators attached to one search
        mk.update(storage=storage[0], search_id=storage[1])
    ev = Evaluator.create(run, method="serial", method_kwargs=mk)
    p = make_problem()
    cls = case["cls"]
    seed = case.get("seed", 1)
    if cls == "RandomSearch":
        return RandomSearch(p, ev, random_state=seed, log_dir=log_dir)
    if cls == "RegularizedEvolution":
        return RegularizedEvolution(p, ev, random_state=seed, log_dir=log_dir, population_size=3, sample_size=2)
    if cls == "ExperimentalDesignSearch":
        from deephyper.hpo import ExperimentalDesignSearch

        return ExperimentalDesignSearch(p, ev, random_state=seed, log_dir=log_dir, n_points=max(len(case["pattern"]), 2), design="random")
    sm = case["surrogate"]
    kw = dict(surrogate_model=surrogate_obj if surrogate_obj is not None else sm, filter_failures=case["policy"],
              n_initial_points=case.get("n_init", 2), n_points=case.get("n_points", 40), random_state=seed, log_dir=log_dir)
    if sm in ("ET", "RF"):
        kw["surrogate_model_kwargs"] = {"n_estimators": 5}
    if sm == "GP" or surrogate_obj is not None:
        kw["acq_func"] = "UCB"  # default "UCBd" + GP is a C02 defect
    if case.get("strategy", "cl_max") != "cl_max":
        kw["multi_point_strategy"] = case["strategy"]
    if case.get("max_failures", 100) != 100:
        kw["max_failures"] = case["max_failures"]
    if extra:
        kw.update(extra)
    return CBO(p, ev, **kw)


def available(cls, surrogate):
    """can this class / surrogate be constructed at all in this environment?"""
    key = (cls, surrogate if cls == "CBO" else None)
    if key not in _AVAIL:
        tmp = tempfile.mkdtemp(prefix="c06a_")

        async def run(job):
            return 0.0

        try:
            # a failure-free two-evaluation search: if this raises, the class / surrogate is broken
            # for a reason that has nothing to do with failures
            s = make_search({"cls": cls, "surrogate": surrogate, "policy": "min", "workers": 1, "pattern": [1, 1]}, run, tmp)
            s.search(max_evals=2)
            _AVAIL[key] = True
        except Exception:
            _AVAIL[key] = False
        finally:
            shutil.rmtree(tmp, ignore_errors=True)
    return _AVAIL[key]


def _jid(job_id):
    return int(str(job_id).split(".")[-1])


def _cfg_key(cfg):
    return tuple(sorted((k, repr(v)) for k, v in dict(cfg).items()))


def run_case(case, label=None):
    """one full search() with a scripted success/failure pattern.
    -> dict(err, configs (what the run-function received, by job id), returned (by job id), cells,
            events (the ask / tell calls of the search, in order))"""
    if case.get("shared"):
        return run_shared(case, label)
    if label is None:
        label = (case.get("labels") or ["F_x"])[0]
    tmp = tempfile.mkdtemp(prefix="c06s_")
    try:
        pattern = case["pattern"]
        counter = itertools.count()
        seen, ret, events = {}, {}, []

        async def run(job):
            k = next(counter)
            cfg = dict(job.parameters)
            jid = _jid(job.id)
            seen[jid] = cfg
            ok = pattern[k % len(pattern)]
            try:
                out = success_value(case["nobj"], cfg) if ok else failure_value(case["kind"], case["nobj"], 0.5, label, k)
            except Exception:
                out = failure_value(case["kind"], case["nobj"], 0.5, label, k)
            ret[jid] = out
            return out

        try:
            s = make_search(case, run, tmp)
        except Exception as e:
            return {"unavailable": f"{type(e).__name__}: {str(e)[:80]}"}
        oa, ot = s.ask, s.tell

        def ask(n=1):
            out = oa(n)
            events.append(("ask", [_cfg_key(c) for c in out]))
            return out

        def tell(results):
            try:
                events.append(("tell", [(_jid(j.id), _cfg_key(j.args), j.objective) for j in results]))
            except Exception:
                events.append(("tell", None))
            return ot(results)

        s.ask, s.tell = ask, tell
        err = None
        try:
            s.search(max_evals=len(pattern))
        except Exception as e:
            err = f"{type(e).__name__}: {str(e)[:100]}"
        cells = T.read_csv_cells(os.path.join(tmp, "results.csv"))
        return {"err": err, "configs": seen, "returned": ret, "cells": cells, "events": events}
    finally:
        shutil.rmtree(tmp, ignore_errors=True)


def _sub(case, i):
    """the options of search i of a shared-storage scenario"""
    return case if i == 0 else dict(case, **case["shared"])


def run_shared(case, label=None):
    """two searches attached to ONE storage and search_id (the decentralised set-up / a search restarted
    on an existing storage), taking turns: turn t runs `search(max_evals=turns[t])` of search t % 2.  The
    pattern is indexed by the evaluations of both.
    -> dict(err (first exception: "search i: ..."), per (one dict per search: err, configs, cells, told),
            returned (by job id, both searches), owner (job id -> search))"""
    from deephyper.evaluator.storage import MemoryStorage

    if label is None:
        label = (case.get("labels") or ["F_x"])[0]
    tmp = tempfile.mkdtemp(prefix="c06m_")
    spy = _TellSpy(passthrough=True)
    try:
        pattern = case["pattern"]
        counter = itertools.count()
        ret, owner = {}, {}
        per = [{"err": None, "configs": {}, "cells": None, "told": []} for _ in range(2)]
        current = [0]

        async def run(job):
            k = next(counter)
            cfg = dict(job.parameters)
            jid = _jid(job.id)
            per[current[0]]["configs"][jid] = cfg
            owner[jid] = current[0]
            ok = pattern[k % len(pattern)]
            try:
                out = success_value(case["nobj"], cfg) if ok else failure_value(case["kind"], case["nobj"], 0.5, label, k)
            except Exception:
                out = failure_value(case["kind"], case["nobj"], 0.5, label, k)
            ret[jid] = out
            return out

        storage = MemoryStorage()
        sid = storage.create_new_search()
        searches = []
        try:
            for i in range(2):
                d = os.path.join(tmp, f"s{i}")
                os.makedirs(d)
                searches.append(make_search(_sub(case, i), run, d, storage=(storage, sid)))
        except Exception as e:
            return {"unavailable": f"{type(e).__name__}: {str(e)[:80]}"}
        first_err = None
        for t, k in enumerate(case["turns"]):
            i = t % 2
            if per[i]["err"] is not None:
                continue
            current[0] = i
            n0 = len(spy.calls)
            try:
                with contextlib.redirect_stdout(io.StringIO()):  # gather_other_jobs_done prints the storage's job data
                    searches[i].search(max_evals=k)
            except Exception as e:
                per[i]["err"] = f"{type(e).__name__}: {str(e)[:100]}"
                first_err = first_err or f"search {i} ({_sub(case, i)['cls']}), turn {t}: {per[i]['err']}"
            per[i]["told"] += [y for _x, y in spy.calls[n0:]]
        for i in range(2):
            per[i]["cells"] = T.read_csv_cells(os.path.join(tmp, f"s{i}", "results.csv"))
        return {"err": first_err, "per": per, "returned": ret, "owner": owner,
                "configs": {j: c for p_ in per for j, c in p_["configs"].items()}}
    finally:
        spy.close()
        shutil.rmtree(tmp, ignore_errors=True)


def pattern_tag(pattern):
    if all(not p for p in pattern):
        return "all-failed"
    if all(pattern):
        return "no-failure"
    if not pattern[0]:
        return "failure-first"
    return "failure-later"


def options_tag(case, who=0):
    """option values of the (failing) search `who` that differ from the defaults"""
    sub = _sub(case, who) if case.get("shared") else case
    parts = ["moo" if case["nobj"] > 1 else "single"]
    for k in ("kind", "policy", "surrogate", "workers", "strategy", "max_failures"):
        if sub.get(k, DEFAULTS[k]) != DEFAULTS[k] and (sub["cls"] == "CBO" or k in ("kind", "workers")):
            parts.append(f"{k}={sub[k]}")
    if case.get("shared"):
        parts.append("shared-storage")
    if case.get("labels") and case["kind"] == "str":
        forms = sorted({label_form(x) for x in case["labels"]})
        if forms != ["F_*"]:  # the documented form 'F_<reason>' is the default
            parts.append("labels=" + "/".join(forms))
    parts.append(pattern_tag(case["pattern"]))
    return ",".join(parts)


def _rows_clauses(cells, returned, must_have):
    """rows of one results.csv against what the run-function returned (by job id): every failed
    evaluation in `must_have` has a row, and every failed evaluation that has a row is marked"""
    out = []
    if not cells:
        return [("no-table", None)] if must_have else []
    hdr, body = cells[0], cells[1:]
    col = {c: i for i, c in enumerate(hdr)}
    ocols = [c for c in hdr if c.startswith("objective")]
    by_id = {line[col["job_id"]]: line for line in body} if "job_id" in col else {}
    for jid, r in returned.items():
        if not T.is_failure_obj(r):
            continue
        line = by_id.get(str(jid))
        if line is None:
            if jid in must_have:
                out.append(("failed-evaluation-not-recorded", {"job": jid}))
                break
            continue
        bad = [c for c in ocols if not line[col[c]].startswith("F")]
        if bad or not ocols:
            out.append(("failed-row-not-marked", {"job": jid, "columns": bad, "line": line, "returned": repr(r)}))
            break
    return out


def _nonfinite_in(y):
    flat = []
    for v in y:
        flat += list(v) if isinstance(v, (list, tuple)) else [v]
    return any(isinstance(x, (int, float, np.floating)) and not isinstance(x, bool) and not math.isfinite(x) for x in flat)


def progress_clause(case, events):
    """the batch proposed right after a batch that failed entirely is not that batch again"""
    if case["cls"] not in FRESH_CLASSES or not events:
        return []
    for i, ev in enumerate(events):
        if ev[0] != "tell" or not ev[1]:
            continue
        if not all(isinstance(o, str) and o.startswith("F") for _j, _c, o in ev[1]):
            continue
        nxt = next((e for e in events[i + 1:] if e[0] == "ask"), None)
        if nxt is None or not nxt[1]:
            continue
        failed = {c for _j, c, _o in ev[1]}
        if all(c in failed for c in nxt[1]):
            return [("no-progress-after-failure", {"failed_batch": [repr(c) for c in sorted(failed)][:4],
                                                   "failed_jobs": [j for j, _c, _o in ev[1]],
                                                   "next_batch": [repr(c) for c in nxt[1]][:4]})]
    return []


def oracle_case(case, obs, relabel=None):
    """the property on one observed run -> list of (clause, detail, index of the search concerned)"""
    if case.get("shared"):
        return oracle_shared(case, obs)
    out = []
    if obs["err"] is not None:
        return [("raises", obs["err"], 0)]
    for jid, cfg in obs["configs"].items():
        if not valid_config(cfg):
            out.append(("invalid-proposal", {"job": jid, "config": repr(cfg)}, 0))
            break
    if obs["cells"] or obs["returned"]:
        out += [(c, d, 0) for c, d in _rows_clauses(obs["cells"], obs["returned"], set(obs["returned"]))]
    out += [(c, d, 0) for c, d in progress_clause(case, obs.get("events"))]
    if relabel is not None:
        a, a2, b = relabel
        if a == a2 and a != b:
            la, lb = (case.get("labels") or ["F_x", "F_another_label_0123"])[:2]
            out.append(("label-changes-proposals", {"labels": [la, lb], "with_first": _short(a), "with_second": _short(b)}, 0))
    return out


def oracle_shared(case, obs):
    out = []
    for i, p_ in enumerate(obs["per"]):
        if p_["err"] is not None:
            out.append(("raises", p_["err"], i))
        for jid, cfg in p_["configs"].items():
            if not valid_config(cfg):
                out.append(("invalid-proposal", {"job": jid, "config": repr(cfg)}, i))
                break
        for y in p_["told"]:
            if _nonfinite_in(y):
                out.append(("nonfinite-told-to-optimizer", {"y": repr(y)[:200]}, i))
                break
        if p_["err"] is None:
            own = {j for j, w in obs["owner"].items() if w == i}
            out += [(c, d, i) for c, d in _rows_clauses(p_["cells"], obs["returned"], own)]
    return out


def _short(seq):
    return [repr(c) for c in seq[:8]]


def proposals(obs):
    return [tuple(sorted((k, repr(v)) for k, v in obs["configs"][j].items())) for j in sorted(obs["configs"])]


def _clauses(case, obs):
    return {(cl, who) for cl, _d, who in oracle_case(case, obs)}


def _case_ok(c):
    if c["kind"] == "nan-in-tuple" and c["nobj"] == 1:
        return False
    subs = [c] + ([_sub(c, 1)] if c.get("shared") else [])
    if c.get("shared") and c["nobj"] > 1 and not any(c["pattern"][i % len(c["pattern"])] for i in range(c["turns"][0])):
        # a first search() call that ends with nothing but failed multi-objective evaluations fixes the
        # header to the single column 'objective' (open finding of C04, `FlushOK` of C04_rows): not generated
        return False
    return not any(x["cls"] == "RegularizedEvolution" and c["nobj"] > 1 for x in subs)


def shrink_case(case, clause, who=0):
    def fails(c):
        if not _case_ok(c):
            return False
        obs = run_case(c)
        if "unavailable" in obs:
            return False
        return (clause, who) in _clauses(c, obs)

    cur = copy.deepcopy(case)
    keys = ("cls", "surrogate", "policy", "workers", "kind", "nobj", "strategy", "max_failures")
    if cur.get("shared"):
        for k in keys:
            if k in cur["shared"] and cur["shared"][k] != DEFAULTS.get(k):
                cand = copy.deepcopy(cur)
                cand["shared"][k] = DEFAULTS[k]
                if fails(cand):
                    cur = cand
    for k in keys:
        if cur.get(k, DEFAULTS[k]) != DEFAULTS[k]:
            cand = dict(cur, **{k: DEFAULTS[k]})
            if fails(cand):
                cur = cand
    if cur.get("labels") and cur["kind"] != "str":
        cur.pop("labels")
    elif cur.get("labels") and cur["labels"] != ["F_x", "F_another_label_0123"]:
        cand = dict(cur, labels=["F_x", "F_another_label_0123"])
        if fails(cand):
            cur = cand
    if cur.get("shared") and len(cur["turns"]) > 2:
        for n in range(2, len(cur["turns"])):
            cand = dict(cur, turns=cur["turns"][:n])
            if fails(cand):
                cur = cand
                break
    changed = True
    budget = 40
    while changed and len(cur["pattern"]) > 1 and budget > 0:
        changed = False
        for i in range(len(cur["pattern"])):
            budget -= 1
            cand = dict(cur, pattern=cur["pattern"][:i] + cur["pattern"][i + 1:])
            if cand["pattern"] and fails(cand):
                cur, changed = cand, True
                break
    return cur


def label_differs(case):
    """same seed, same pattern, the two label sets of the case -> proposals differ (and each run is reproducible)"""
    la, lb = case["labels"][:2]
    a, a2, b, b2 = run_case(case, la), run_case(case, la), run_case(case, lb), run_case(case, lb)
    if any("unavailable" in o or o.get("err") is not None for o in (a, a2, b, b2)):
        return None
    if proposals(a) != proposals(a2) or proposals(b) != proposals(b2):
        return None
    return (proposals(a), proposals(a2), proposals(b)) if proposals(a) != proposals(b) else None


def shrink_label_case(case):
    """minimise a `label-changes-proposals` case: default options, one representative text per label form"""
    cur = copy.deepcopy(case)
    rep = {"F": "F", "F_*": "F_x", "F*": "Fx"}
    tries = []
    la, lb = cur["labels"][:2]
    tries.append(["F_x", "F_another_label_0123"])
    for x in ([la] if isinstance(la, str) else la):
        for y in ([lb] if isinstance(lb, str) else lb):
            if label_form(x) != label_form(y):
                tries.append([rep[label_form(x)], rep[label_form(y)]])
                tries.append([x, y])
    for lab in tries:
        cand = dict(cur, labels=lab)
        if label_differs(cand):
            cur = cand
            break
    for k in ("surrogate", "policy", "nobj", "strategy", "max_failures"):
        if cur.get(k, DEFAULTS[k]) != DEFAULTS[k]:
            cand = dict(cur, **{k: DEFAULTS[k]})
            if _case_ok(cand) and label_differs(cand):
                cur = cand
    return cur


def fingerprint(case, clause, who=0):
    cls = _sub(case, who)["cls"] if case.get("shared") else case["cls"]
    return f"{PROP}|{clause}|{cls}.search|{options_tag(case, who)}"


# --------------------------------------------------------------------------- part A: _on_done


def typed_numbers(rng=None):
    """the numeric types a run-function realistically returns, finite and non-finite"""
    vals = []
    for ty in (float, np.float64, np.float32, np.float16):
        for x in (1.5, -0.25, float("nan"), float("inf"), float("-inf")):
            vals.append(ty(x))
    vals += [3, -2, True, False, np.int64(4), np.int32(-3), np.int16(2), np.uint8(7)]
    return vals


def typed_outputs():
    """every value of `typed_numbers` in every return form"""
    outs = []
    for v in typed_numbers():
        outs += [v, (v, 1.0), [2.0, v], (v, v), {"objective": v}, {"objective": (1.0, v), "metadata": {"a": 1}},
                 {"output": v, "metadata": {}}, {"output": {"objective": [v, 0.5]}, "metadata": {"b": 2}}]
    return outs


def part_ondone(ck, reqs, post):
    from deephyper.evaluator import Evaluator, HPOJob, JobStatus
    from deephyper.evaluator.storage import MemoryStorage

    rng = ck.rng
    raws = [float("nan"), float("inf"), float("-inf"), (1.0, float("nan")), [float("inf"), 2], (1, 2.5), 3, "F", "F_abc",
            {"objective": (float("nan"), 1.0)}, {"objective": float("-inf"), "metadata": {"a": 1}},
            {"output": (2.0, float("inf")), "metadata": {}}, {"output": {"objective": float("nan")}},
            (float("nan"), float("nan")), (1.0, "F"), np.float64("nan"), (np.float64(1.0), np.float64("inf"))]
    raws += typed_outputs()
    # extreme but finite magnitudes (the sum of the components overflows): successes, in every form
    for tpl in T.OVERFLOW_TUPLES:
        raws += [tpl, list(tpl), {"objective": tpl}, {"objective": list(tpl), "metadata": {"a": 1}}, {"output": tpl, "metadata": {}},
                 {"output": {"objective": tpl}}]
    for v in T.EXTREMES:
        raws += [v, (v, 1.0), {"objective": v}, {"output": v, "metadata": {}}]
    for _ in range(ck.pick(150, 1500)):
        m = rng.choice([1, 2, 3])
        obj, _k = T.gen_objective(rng, m, 0.6, ["str", "nonfin", "nonfin-in-tuple"])
        raw, _f = T.wrap_form(rng, obj)
        raws.append(raw)

    async def run(job):
        return 0.0

    storage = MemoryStorage()
    sid = storage.create_new_search()
    ev = Evaluator.create(run, method="serial", method_kwargs={"storage": storage, "search_id": sid})
    # a second evaluator attached to the same storage and search: what does it read back?
    ev2 = Evaluator.create(run, method="serial", method_kwargs={"storage": storage, "search_id": sid})
    ev2._job_class = HPOJob
    for raw in raws:
        wire = T.enc(_plain(raw))
        case = {"part": "ondone", "out": wire}
        job = HPOJob(storage.create_new_job(sid), {"x": 0.5}, None, storage)
        storage.store_job_in(job.id, args=({"x": 0.5},))  # as `Evaluator.submit` does
        job.status = JobStatus.RUNNING
        try:
            job.set_output(copy.deepcopy(raw))
            ev._on_done(job)
            got = {"err": None, "objective": T.enc(_plain(job.objective))}
        except Exception as e:
            got = {"err": type(e).__name__}
        seen_by_other = None
        if got["err"] is None:
            try:
                got["stored"] = T.enc(_plain(storage.load_job(job.id)["out"]))
            except Exception as e:
                got["stored"] = {"err": type(e).__name__}
            try:
                with contextlib.redirect_stdout(io.StringIO()):
                    others = ev2.gather_other_jobs_done()
                mine = [j for j in others if j.id == job.id]
                seen_by_other = mine[0].objective if mine else None
                got["other"] = {"seen": T.enc(_plain(seen_by_other))} if mine else None
            except Exception as e:
                got["other"] = {"err": type(e).__name__}
        exp = T.expected_objective(_plain(raw))
        kind = _failure_kind(exp)
        ck.case(case, nontrivial=kind != "success")
        ck.count("ondone:" + kind)
        for tname in _types_in(raw):
            ck.count("ondone:type=" + tname)
        if got["err"] is None and kind == "success" and isinstance(job.objective, str) and not isinstance(exp, str):
            ck.fail(f"{PROP}|finite-objective-marked-as-failure|Evaluator._on_done|{'tuple' if isinstance(exp, (tuple, list)) else 'scalar'}",
                    "_on_done turns a finite objective into the failure marker", case, {"returned": repr(exp), "objective_after": job.objective})
        if got["err"] is None and kind != "success":
            o = job.objective
            if not (isinstance(o, str) and o.startswith("F")):
                ck.fail(f"{PROP}|failure-not-marked|Evaluator._on_done|{kind}",
                        f"_on_done leaves a {kind} objective unmarked", case, {"objective_after": repr(o)})
            if isinstance(got.get("other"), dict) and "seen" in got["other"]:
                ck.count("ondone:failure-read-back-by-another-evaluator")
                if not (isinstance(seen_by_other, str) and seen_by_other.startswith("F")):
                    ck.fail(f"{PROP}|failure-not-marked|Evaluator.gather_other_jobs_done|{kind}",
                            f"another evaluator attached to the same search reads a {kind} objective back unmarked", case,
                            {"objective_of_the_job_it_rebuilds": repr(seen_by_other), "local_objective_after_on_done": repr(job.objective)})
        reqs.append({"op": "ondone", "out": wire})
        post.append(("ondone", case, got))


def _plain(v):
    """numpy scalars -> Python numbers (for encoding only)"""
    if isinstance(v, (bool, np.bool_)):
        return int(v)
    if isinstance(v, np.generic):
        return _plain(v.item())
    if isinstance(v, np.ndarray) and v.ndim == 0:
        return _plain(v.item())
    if isinstance(v, tuple):
        return tuple(_plain(x) for x in v)
    if isinstance(v, list):
        return [_plain(x) for x in v]
    if isinstance(v, dict):
        return {k: _plain(x) for k, x in v.items()}
    return v


def _types_in(v):
    if isinstance(v, dict):
        return set().union(*[_types_in(x) for x in v.values()]) if v else set()
    if isinstance(v, (tuple, list)):
        return set().union(*[_types_in(x) for x in v]) if v else set()
    if isinstance(v, (int, float, bool, np.generic)):
        return {type(v).__name__}
    return set()


def _failure_kind(o):
    if isinstance(o, str):
        return "str" if o.startswith("F") else "success"
    if isinstance(o, (int, float)):
        return "success" if math.isfinite(o) else "nonfinite-scalar"
    if isinstance(o, (tuple, list)):
        if any(isinstance(x, (int, float)) and not math.isfinite(x) for x in o):
            return "nonfinite-in-tuple"
    return "success"  # (numpy scalars and bools have been converted by _plain before)


# --------------------------------------------------------------------------- part B/C: CBO._tell, _filter_failures


class _TellSpy:
    """records the arguments of the public Optimizer.tell; optionally swallows the call"""

    def __init__(self, passthrough=True):
        import deephyper.skopt

        self.cls = deephyper.skopt.Optimizer
        self.orig = self.cls.tell
        self.calls = []
        spy = self

        def tell(opt, x, y, fit=True):
            spy.calls.append((copy.deepcopy(x), copy.deepcopy(y)))
            if passthrough:
                return spy.orig(opt, x, y, fit=fit)
            return None

        self.cls.tell = tell

    def close(self):
        self.cls.tell = self.orig


def gen_tell_obj(rng):
    r = rng.random()
    if r < 0.3:
        return T.gen_number(rng)
    if r < 0.55:
        return rng.choice(T.LABELS + ["F", "F_x"])
    if r < 0.62:
        return rng.choice(["abc", "aFb", "x", "fail", "xF"])
    if r < 0.85:
        return tuple(T.gen_number(rng) for _ in range(rng.choice([2, 3])))
    if r < 0.9:
        return [T.gen_number(rng), rng.choice(["F", "F_a", "abc"])]
    if r < 0.95:
        return (rng.choice(["abc", "F_1"]), T.gen_number(rng))
    return rng.choice([float("nan"), float("inf"), (1.0, float("nan"))])


def part_tell_filter(ck, reqs, post):
    rng = ck.rng
    tmp = tempfile.mkdtemp(prefix="c06t_")
    searches = {}
    try:
        async def run(job):
            return 1.0

        for pol in ("min", "mean", "ignore"):
            case = {"cls": "CBO", "surrogate": "ET", "policy": pol, "workers": 1, "pattern": [1], "n_init": 2}
            s = make_search(case, run, os.path.join(tmp, pol), extra={"max_failures": 5})
            s.search(max_evals=1)  # creates the optimizer
            searches[pol] = s
        spy = _TellSpy(passthrough=False)
        try:
            for _ in range(ck.pick(250, 2500)):
                pol = rng.choice(["min", "mean", "ignore"])
                objs = [gen_tell_obj(rng) for _ in range(rng.randint(0, 5))]
                if rng.random() < 0.03:
                    objs.insert(rng.randrange(len(objs) + 1), "")
                if rng.random() < 0.02:
                    objs.insert(rng.randrange(len(objs) + 1), None)
                results = [({"x": 0.1 * i, "k": 1, "c": "a"}, o) for i, o in enumerate(objs)]
                spy.calls.clear()
                try:
                    searches[pol]._tell(results)
                    got = {"err": None, "ys": [y_to_wire(v) for v in (spy.calls[-1][1] if spy.calls else [])],
                           "nx": len(spy.calls[-1][0]) if spy.calls else 0}
                except Exception as e:
                    got = {"err": type(e).__name__}
                case = {"part": "tell", "policy": pol, "objs": [T.enc(o) for o in objs]}
                ck.case(case, nontrivial=any(isinstance(o, str) for o in objs))
                ck.count("tell:" + pol)
                reqs.append({"op": "tell", "policy": POLICY_MAP[pol], "objs": case["objs"]})
                post.append(("tell", case, got))
        finally:
            spy.close()
        # _filter_failures
        for _ in range(ck.pick(250, 2500)):
            pol = rng.choice(["min", "mean", "ignore"])
            m = rng.choice([1, 1, 2, 3])
            n = rng.randint(0, 7)
            pf = rng.choice([0.0, 0.3, 0.7, 1.0])
            yi = []
            for _i in range(n):
                if rng.random() < pf and pol != "ignore":
                    yi.append("F")
                elif m == 1:
                    yi.append(float(rng.randint(-8, 8)) / rng.choice([1, 2, 4]))
                else:
                    yi.append([float(rng.randint(-8, 8)) / rng.choice([1, 2, 4]) for _ in range(m)])
            opt = searches[pol]._opt
            try:
                out = opt._filter_failures(list(yi))
                got = {"err": None, "yi": out}
            except Exception as e:
                got = {"err": type(e).__name__}
            wire = [None if v == "F" else ([rat(v)] if m == 1 else [rat(x) for x in v]) for v in yi]
            case = {"part": "filter", "policy": pol, "m": m, "yi": wire, "max_failures": 5}
            ck.case(case, nontrivial="F" in yi and any(v != "F" for v in yi))
            ck.count(f"filter:{pol}:m={m}")
            reqs.append({"op": "filter", "policy": POLICY_MAP[pol], "max_failures": 5, "yi": wire})
            post.append(("filter", case, got))
    finally:
        shutil.rmtree(tmp, ignore_errors=True)


def part_opttell(ck, reqs, post):
    """`Optimizer.tell` without `CBO._tell` in front, fitting from the start (n_initial_points=0):
    the only way to reach `ExhaustedFailures` (theorem C06_exhausted_exact)"""
    from deephyper.skopt import Optimizer

    rng = ck.rng
    for _ in range(ck.pick(60, 500)):
        pol = rng.choice(["mean", "max", "ignore"])
        mf = rng.choice([1, 2, 3, 4])
        nprev = rng.choice([0, 0, 1, 2])
        k = rng.randint(1, 5)
        pf = rng.choice([1.0, 1.0, 0.6, 0.3])

        def draw(n, allow_fail=True):
            return ["F" if (allow_fail and rng.random() < pf) else float(rng.randint(-6, 6)) / rng.choice([1, 2, 4]) for _ in range(n)]

        prev, ys = draw(nprev), draw(k)
        _FITS.clear()
        opt = Optimizer([(0.0, 1.0)], base_estimator=_spy_regressor(), n_initial_points=0, acq_func="LCB", acq_optimizer="sampling",
                        acq_optimizer_kwargs={"filter_failures": pol, "max_failures": mf, "n_points": 10},
                        objective_scaler="identity", random_state=rng.randint(0, 999))
        got = {"err": None, "fit": None}
        try:
            if prev:
                try:
                    opt.tell([[0.01 * (i + 1)] for i in range(len(prev))], list(prev), fit=False)
                except Exception:
                    continue
            _FITS.clear()
            opt.tell([[0.5 + 0.01 * i] for i in range(k)], list(ys))
            got["fit"] = _FITS[0] if _FITS else None
        except Exception as e:
            got["err"] = type(e).__name__
        w = lambda v: None if v == "F" else rat(v)
        case = {"part": "opttell", "policy": pol, "max_failures": mf, "prev": [w(v) for v in prev], "ys": [w(v) for v in ys]}
        ck.case(case, nontrivial="F" in ys)
        allv = prev + ys
        reqs.append({"op": "opttell", "policy": pol, "max_failures": mf, "n_init": 0, "prev": case["prev"], "ys": case["ys"],
                     "scaled": [rat(v) for v in allv if v != "F"]})
        post.append(("opttell", case, got))


# --------------------------------------------------------------------------- part D: what reaches the surrogate

_FITS = []


def _spy_regressor():
    from sklearn.base import BaseEstimator, RegressorMixin

    class SpyReg(RegressorMixin, BaseEstimator):
        def __init__(self, tag=0):
            self.tag = tag

        def fit(self, X, y):
            _FITS.append([float(v) for v in np.asarray(y, dtype=float).reshape(-1)] if np.ndim(y) == 1 else [[float(a) for a in v] for v in y])
            self.m_ = float(np.nanmean(np.asarray(y, dtype=float))) if len(y) else 0.0
            return self

        def predict(self, X, return_std=False):
            mu = np.full(len(X), self.m_)
            return (mu, np.ones(len(X))) if return_std else mu

    return SpyReg()


def _safe_rat(x):
    """non-finite values only occur on a defective tree (the model then reports the error itself)"""
    try:
        return rat(x)
    except (ValueError, OverflowError, TypeError):
        return "0/1"


def part_surrogate(ck, reqs, post):
    rng = ck.rng
    n = ck.pick(60, 800)
    for t in range(n):
        nobj = rng.choice([1, 1, 2])
        kind = rng.choice((KINDS if nobj > 1 else KINDS[:4]) + KINDS_NP)
        pol = rng.choice(["min", "mean", "ignore"])
        L = rng.randint(3, 8)
        pattern = [1 if rng.random() < rng.choice([0.3, 0.6, 0.8]) else 0 for _ in range(L)]
        case = {"part": "surrogate", "cls": "CBO", "surrogate": "spy", "policy": pol, "workers": 1, "nobj": nobj, "kind": kind,
                "pattern": pattern, "n_init": rng.choice([1, 2, 3]), "seed": rng.randint(0, 999)}
        tmp = tempfile.mkdtemp(prefix="c06d_")
        spy = _TellSpy(passthrough=True)
        _FITS.clear()
        batches = []
        try:
            counter = itertools.count()

            async def run(job):
                k = next(counter)
                cfg = dict(job.parameters)
                ok = pattern[k % len(pattern)]
                return success_value(nobj, cfg) if ok else failure_value(kind, nobj, 0.5)

            s = make_search(case, run, tmp, surrogate_obj=_spy_regressor(),
                            extra={"objective_scaler": "identity", "acq_optimizer": "sampling"})
            orig_tell = s.tell

            def _batch(objs, ncall, nfit, err):
                # a fit belongs to this tell only when Optimizer.tell was called in it: a refit of
                # unchanged data on a *copy* of the optimizer (refresh of the next point when every
                # result was an ignored failure) tells the optimizer nothing
                told = spy.calls[ncall][1] if len(spy.calls) > ncall else None
                fit = _FITS[nfit] if (len(_FITS) > nfit and told is not None) else None
                extra = [f for f in _FITS[nfit:]] if told is None else []
                return {"objs": objs, "told": told, "fit": fit, "err": err, "refits": extra}

            def tell(results):
                nfit, ncall = len(_FITS), len(spy.calls)
                objs = [job.objective for job in results]
                err = None
                try:
                    orig_tell(results)
                except Exception as e:
                    err = type(e).__name__
                    batches.append(_batch(objs, ncall, nfit, err))
                    raise
                batches.append(_batch(objs, ncall, nfit, None))

            s.tell = tell
            err = None
            try:
                s.search(max_evals=L)
            except Exception as e:
                err = f"{type(e).__name__}: {str(e)[:80]}"
        finally:
            spy.close()
            shutil.rmtree(tmp, ignore_errors=True)
        # environment input: scaled values of the non-failed entries at each fit
        cum, mb = [], []
        for b in batches:
            told = b["told"] or []
            cum += list(told)
            scaled = []
            if b["fit"] is not None:
                if nobj == 1:
                    scaled = [_safe_rat(v) for v in cum if v != "F"]
                else:
                    if len(b["fit"]) == len(cum):
                        scaled = [_safe_rat(f) for f, v in zip(b["fit"], cum) if v != "F"]
            mb.append({"objs": [T.enc(_plain(o)) for o in b["objs"]], "scaled": scaled})
        ck.case({k: case[k] for k in ("part", "policy", "nobj", "kind", "pattern", "n_init", "seed")},
                nontrivial=any(pattern) and not all(pattern))
        ck.count(f"surrogate:{pol}:nobj={nobj}:{kind}")
        ck.count("surrogate:fits=" + str(min(sum(1 for b in batches if b["fit"] is not None), 5)))
        reqs.append({"op": "run", "policy": POLICY_MAP[pol], "max_failures": 100, "n_init": case["n_init"], "batches": mb})
        post.append(("surrogate", case, {"batches": batches, "err": err}))
        # L3: nothing non-finite, no marker, reaches the surrogate
        for b in batches:
            for fit in ([b["fit"]] if b["fit"] is not None else []) + b.get("refits", []):
                flat = [x for v in fit for x in (v if isinstance(v, list) else [v])]
                if any(not math.isfinite(x) for x in flat):
                    ck.fail(f"{PROP}|nonfinite-reaches-surrogate|CBO.search|{'moo' if nobj > 1 else 'single'},kind={kind}",
                            "estimator.fit received a non-finite target", case, {"y": repr(fit)})


# --------------------------------------------------------------------------- part G: the ask cache


def part_cache(ck, reqs, post):
    """which ask returns a batch computed now and which a batch returned before (the `cache_` of the
    constant-liar ask): sequences of the public Optimizer calls, and of CBO.ask / CBO.tell"""
    from deephyper.skopt import Optimizer

    rng = ck.rng
    strategies = ["cl_max", "cl_min", "cl_mean"]
    # (1) Optimizer.ask(n, strategy) / tell / update_next on a fitted optimizer
    for _ in range(ck.pick(12, 120)):
        pol = rng.choice(["mean", "max", "ignore"])
        opt = Optimizer([(0.0, 1.0), (0.0, 1.0)], base_estimator="ET", n_initial_points=2, acq_func="LCB", acq_optimizer="sampling",
                        acq_optimizer_kwargs={"filter_failures": pol, "n_points": 30}, random_state=rng.randint(0, 999))
        try:
            opt.base_estimator_.set_params(n_estimators=5)
        except Exception:
            pass
        x0 = opt.ask(n_points=3, strategy="cl_max")
        opt.tell(x0, [float(i) for i in range(len(x0))])
        ops, asks, returned = [], [], []
        for i in range(rng.randint(3, 9)):
            r = rng.random()
            if r < 0.55:
                n, st = rng.choice([1, 2, 2, 3]), rng.choice(strategies[:2] if rng.random() < 0.7 else strategies)
                if ops and ops[-1]["k"] == "opt_ask" and rng.random() < 0.5:  # the same request again: served from the cache
                    n, st = (int(ops[-1]["key"].split("|")[0]), ops[-1]["key"].split("|")[1])
                X = opt.ask(n_points=n, strategy=st)
                returned.append((i, X))
                asks.append({"at": i, "n": n, "batch": [list(x) for x in X]})
                ops.append({"k": "opt_ask", "key": f"{n}|{st}", "single": n == 1})
            elif r < 0.8 and returned:
                X = returned[-1][1]
                ys = ["F" if (pol != "ignore" and rng.random() < 0.4) else rng.random() for _ in X]
                opt.tell([list(x) for x in X], ys)
                ops.append({"k": "opt_reset", "why": "tell"})
            else:
                opt.update_next()
                ops.append({"k": "opt_reset", "why": "update_next"})
        case = {"part": "cache", "level": "Optimizer", "policy": pol, "ops": ops}
        ck.case(case, nontrivial=len(asks) >= 2)
        reqs.append({"op": "cache", "ops": ops})
        post.append(("cache", case, {"asks": asks}))
    # (2) CBO.ask / CBO.tell: batches of results of every kind, among them batches of failures only
    tmp = tempfile.mkdtemp(prefix="c06g_")
    try:
        async def run(job):
            return float(job.parameters["x"])

        for t in range(ck.pick(9, 90)):
            pol = ["ignore", "min", "mean"][t % 3]
            workers = rng.choice([1, 2, 2, 3])
            case0 = {"cls": "CBO", "surrogate": "ET", "policy": pol, "workers": workers, "pattern": [1], "n_init": 2,
                     "strategy": rng.choice(strategies), "seed": rng.randint(0, 999)}
            s = make_search(case0, run, os.path.join(tmp, str(t)))
            s.search(max_evals=2 * workers)  # fitted
            ops, asks, returned = [], [], []
            for i in range(rng.randint(3, 8)):
                if rng.random() < 0.6 or not returned:
                    X = s.ask(workers)
                    key = [_cfg_key(c) for c in X]
                    returned.append((i, key, [dict(c) for c in X]))
                    asks.append({"at": i, "n": workers, "batch": key})
                    ops.append({"k": "cbo_ask", "key": f"{workers}|{case0['strategy']}", "single": workers == 1})
                else:
                    last = returned[-1][2]
                    mode = rng.choice(["all-failed", "all-failed", "mixed", "ok", "empty"])
                    objs = []
                    for _c in last:
                        if mode == "all-failed" or (mode == "mixed" and rng.random() < 0.5):
                            objs.append(gen_label(rng))
                        else:
                            objs.append(rng.random())
                    if mode == "empty":
                        objs = []
                    results = [(dict(c), o) for c, o in zip(last, objs)]
                    s.tell(results)
                    ops.append({"k": "cbo_tell", "policy": POLICY_MAP[pol], "objs": [T.enc(o) for o in objs], "mode": mode})
            case = {"part": "cache", "level": "CBO", "policy": pol, "workers": workers, "strategy": case0["strategy"], "ops": ops}
            ck.case(case, nontrivial=any(o.get("mode") == "all-failed" for o in ops))
            reqs.append({"op": "cache", "ops": ops})
            post.append(("cache", case, {"asks": asks}))
    finally:
        shutil.rmtree(tmp, ignore_errors=True)


# --------------------------------------------------------------------------- part E: regularized evolution


def part_regevo(ck, reqs, post):
    rng = ck.rng
    for t in range(ck.pick(40, 400)):
        L = rng.randint(5, 12)
        kind = rng.choice(KINDS[:4])
        pattern = [1 if rng.random() < rng.choice([0.4, 0.7]) else 0 for _ in range(L)]
        case = {"part": "regevo", "cls": "RegularizedEvolution", "nobj": 1, "kind": kind, "pattern": pattern, "workers": rng.choice([1, 1, 2]),
                "seed": rng.randint(0, 999), "policy": "min", "surrogate": "ET"}
        tmp = tempfile.mkdtemp(prefix="c06e_")
        events = []  # ("ask", [configs]) / ("tell", [(job id, objective)])
        configs = {}
        try:
            counter = itertools.count()

            async def run(job):
                k = next(counter)
                cfg = dict(job.parameters)
                configs[int(str(job.id).split(".")[-1])] = cfg
                return success_value(1, cfg) if pattern[k % len(pattern)] else failure_value(kind, 1, 0.5)

            s = make_search(case, run, tmp)
            oa, ot = s.ask, s.tell

            def ask(n=1):
                out = oa(n)
                events.append(("ask", [dict(c) for c in out]))
                return out

            def tell(results):
                events.append(("tell", [(int(str(j.id).split(".")[-1]), j.objective) for j in results]))
                return ot(results)

            s.ask, s.tell = ask, tell
            err = None
            try:
                s.search(max_evals=L)
            except Exception as e:
                err = f"{type(e).__name__}: {str(e)[:80]}"
        finally:
            shutil.rmtree(tmp, ignore_errors=True)
        ck.case({k: case[k] for k in ("part", "kind", "pattern", "workers", "seed")}, nontrivial=any(pattern) and not all(pattern))
        ck.count("regevo:" + kind)
        if err is not None:  # L3: the search itself must not raise (judged again, and shrunk, as a matrix case)
            mcase = {k: v for k, v in case.items() if k != "part"}
            ck.fail(fingerprint(mcase, "raises"), f"raises: RegularizedEvolution.search ({options_tag(mcase)})", mcase, err)
        # one model request per ask: population after the tells so far
        told = []
        for ev in events:
            if ev[0] == "tell":
                told += [[jid, T.enc(_plain(o))] for jid, o in ev[1]]
            else:
                reqs.append({"op": "regevo", "cap": 3, "items": list(told)})
                post.append(("regevo", case, {"asked": ev[1], "configs": dict(configs), "err": err, "ntold": len(told)}))


# --------------------------------------------------------------------------- part F: the property on full searches


def gen_matrix(ck):
    rng = ck.rng
    cases = []
    # (1) RandomSearch: every pattern up to length Lmax, both arities, string / nan-in-tuple failures
    Lmax = ck.pick(5, 8)
    for L in range(1, Lmax + 1):
        for pattern in itertools.product([0, 1], repeat=L):
            for nobj in (1, 2):
                kind = "str" if (sum(pattern) + L) % 2 == 0 else ("nan-in-tuple" if nobj > 1 else "nan")
                cases.append({"cls": "RandomSearch", "nobj": nobj, "kind": kind, "policy": "min", "surrogate": "ET",
                              "workers": 1 + (L % 2), "pattern": list(pattern), "seed": 1})
    # (2) CBO: every cell of kind x policy x surrogate x arity x workers with sampled patterns
    surrogates = ["ET", "RF", "GP", "DUMMY"]
    reps = ck.pick(1, 8)
    for _ in range(reps):
        for kind in KINDS:
            for pol in ("min", "mean", "ignore"):
                for sm in surrogates:
                    for nobj in (1, 2):
                        if kind == "nan-in-tuple" and nobj == 1:
                            continue
                        for workers in (1, 2):
                            if sm in ("GP", "RF", "DUMMY") and rng.random() < ck.pick(0.6, 0.0):
                                continue
                            if sm == "GP" and rng.random() < ck.pick(0.4, 0.0):
                                continue  # (a GP fit costs ~0.3-1 s: the quick tier samples fewer GP cells; thorough runs them all)
                            L = rng.randint(3, ck.pick(6, 10))
                            pf = rng.choice([0.2, 0.5, 0.8])
                            pattern = [0 if rng.random() < pf else 1 for _ in range(L)]
                            if rng.random() < 0.3:
                                pattern[0] = 0
                            cases.append({"cls": "CBO", "nobj": nobj, "kind": kind, "policy": pol, "surrogate": sm,
                                          "workers": workers, "pattern": pattern, "seed": rng.randint(0, 99), "n_init": rng.choice([1, 2, 3]),
                                          "strategy": rng.choice(STRATEGIES) if workers > 1 else "cl_max"})
    # (2a) the failure kinds carried by NumPy types (float32 / float16 / float64) in tuples, lists, dict outputs
    for _ in range(ck.pick(1, 6)):
        for kind in KINDS_NP:
            for nobj in (1, 2):
                for cls in ("CBO", "RandomSearch"):
                    L = rng.randint(3, 6)
                    pattern = [0 if rng.random() < 0.5 else 1 for _ in range(L)]
                    if all(pattern):
                        pattern[rng.randrange(L)] = 0
                    cases.append({"cls": cls, "nobj": nobj, "kind": kind, "policy": rng.choice(["min", "mean", "ignore"]),
                                  "surrogate": "ET", "workers": rng.choice([1, 2]), "pattern": pattern, "seed": rng.randint(0, 99),
                                  "n_init": rng.choice([1, 2]), "strategy": "cl_max"})
    # (2b) max_failures reached and exceeded: failures only, and a success followed by >= max_failures failures
    for _ in range(ck.pick(8, 60)):
        mf = rng.choice([1, 2, 3])
        L = mf + rng.randint(1, 4)
        pattern = [0] * L if rng.random() < 0.5 else [1] * rng.randint(1, 2) + [0] * L
        cases.append({"cls": "CBO", "nobj": rng.choice([1, 2]), "kind": rng.choice(KINDS[:4]), "policy": rng.choice(["min", "mean"]),
                      "surrogate": "ET", "workers": rng.choice([1, 2]), "pattern": pattern, "seed": rng.randint(0, 99),
                      "n_init": rng.choice([1, 2]), "strategy": "cl_max", "max_failures": mf})
    # (2c) a whole gathered batch fails while the surrogate is fitted (then successes / more failures): every
    # policy x workers x multi-point strategy x surrogate; the search must move on to other configurations
    for _ in range(ck.pick(1, 6)):
        for pol in ("ignore", "min", "mean"):
            for workers in (1, 2, 3):
                for strategy in (STRATEGIES if workers > 1 else ["cl_max"]):
                    if pol != "ignore" and rng.random() < ck.pick(0.5, 0.0):
                        continue
                    n_init = rng.choice([1, 2])
                    head = [1] * (workers * -(-n_init // workers) + rng.choice([0, workers]))
                    body = [0] * (workers * rng.choice([1, 1, 2]))
                    tail = [1 if rng.random() < 0.6 else 0 for _ in range(workers * rng.choice([1, 2]))]
                    nobj = rng.choice([1, 1, 2])
                    cases.append({"cls": "CBO", "nobj": nobj, "kind": rng.choice(KINDS if nobj > 1 else KINDS[:4]), "policy": pol,
                                  "surrogate": rng.choice(ck.pick(["ET", "ET", "RF"], ["ET", "ET", "RF", "GP"])), "workers": workers,
                                  "pattern": head + body + tail,
                                  "seed": rng.randint(0, 99), "n_init": n_init, "strategy": strategy})
    # (2d) two searches attached to one storage and search_id, taking turns: every failure kind reported by
    # either of them is read back from the storage by the other one
    classes2 = ["CBO", "CBO", "CBO", "RandomSearch", "RegularizedEvolution"]
    surr2 = ck.pick(["ET", "ET", "ET", "RF"], ["ET", "ET", "RF", "GP"])  # (a GP fit costs seconds: thorough tier only)
    for _ in range(ck.pick(1, 8)):
        for kind in KINDS:
            for nobj in (1, 2):
                if kind == "nan-in-tuple" and nobj == 1:
                    continue
                for rep in range(2):
                    cls1, cls2 = rng.choice(classes2), ("CBO" if rep == 0 else rng.choice(classes2))
                    if nobj > 1:
                        cls1, cls2 = (c if c != "RegularizedEvolution" else "RandomSearch" for c in (cls1, cls2))
                    L = rng.randint(6, 10)
                    pf = rng.choice([0.3, 0.5])
                    pattern = [0 if rng.random() < pf else 1 for _ in range(L)]
                    if all(pattern):
                        pattern[rng.randrange(L)] = 0
                    if rng.random() < 0.3:
                        pattern[0] = 0
                    turns = [rng.randint(2, 4), rng.randint(3, 5)] + [rng.randint(1, 3) for _ in range(rng.choice([0, 1, 2]))]
                    if nobj > 1 and not any(pattern[:turns[0]]):
                        pattern[rng.randrange(1, turns[0])] = 1  # (see `_case_ok`: C04's open finding is not C06's subject)
                    cases.append({"cls": cls1, "nobj": nobj, "kind": kind, "policy": rng.choice(["min", "mean", "ignore"]),
                                  "surrogate": rng.choice(surr2), "workers": rng.choice([1, 1, 2]), "pattern": pattern,
                                  "seed": rng.randint(0, 99), "n_init": rng.choice([1, 2]), "strategy": "cl_max", "turns": turns,
                                  "shared": {"cls": cls2, "policy": rng.choice(["min", "mean", "ignore"]),
                                             "surrogate": rng.choice(surr2), "workers": rng.choice([1, 1, 2]),
                                             "seed": rng.randint(0, 99), "n_init": rng.choice([1, 2, 3])}})
    # (2e) the text of the label: one-worker model-based searches whose surrogate is fitted on a history that
    # contains failures and which propose at least twice afterwards, every pair of label forms
    # ('F' alone / 'F_<reason>' / 'F<any other text>'), one text for all failures or one per failure
    cases += gen_label_cases(ck, rng, ck.pick(1, 6))
    # (3) other search classes
    for _ in range(ck.pick(30, 400)):
        L = rng.randint(2, ck.pick(6, 10))
        pattern = [0 if rng.random() < 0.5 else 1 for _ in range(L)]
        cls = rng.choice(["RegularizedEvolution", "ExperimentalDesignSearch"])
        nobj = 1 if cls == "RegularizedEvolution" else rng.choice([1, 2])
        kind = rng.choice(KINDS if nobj > 1 else KINDS[:4])
        cases.append({"cls": cls, "nobj": nobj, "kind": kind, "policy": "min", "surrogate": "ET", "workers": rng.choice([1, 2]),
                      "pattern": pattern, "seed": rng.randint(0, 99)})
    # (3a) RegularizedEvolution past its random phase (population 3): at least 4 successes, failures of every kind among them
    for kind in KINDS[:4]:
        for _ in range(ck.pick(1, 6)):
            L = rng.randint(7, 10)
            pattern = [1] * L
            for i in rng.sample(range(L), rng.randint(1, L - 4)):
                pattern[i] = 0
            cases.append({"cls": "RegularizedEvolution", "nobj": 1, "kind": kind, "policy": "min", "surrogate": "ET",
                          "workers": rng.choice([1, 1, 2]), "pattern": pattern, "seed": rng.randint(0, 99)})
    # the text of the labels of every string-failure case: two label sets (one text, or one text per failure),
    # the run uses the first, the relabelled run the second
    for c in cases:
        if c["kind"] == "str" and "labels" not in c:
            a, b = gen_labels(rng), gen_labels(rng)
            if a == b:
                b = "F_another_label_0123" if a != "F_another_label_0123" else "F_x"
            c["labels"] = [a, b]
    return cases


def gen_label_cases(ck, rng, reps):
    out = []
    forms = {"F": lambda: "F", "F_*": lambda: rng.choice([x for x in LABEL_POOL if x.startswith("F_")]),
             "F*": lambda: rng.choice([x for x in LABEL_POOL if label_form(x) == "F*"] + [gen_label(rng) + "!"])}
    pairs = [("F_*", "F*"), ("F", "F*"), ("F_*", "F"), ("F*", "F*"), ("F_*", "F_*")]
    for _ in range(reps):
        for fa, fb in pairs:
            for pol in ("min", "mean"):
                n_init = rng.choice([1, 2])
                nf = rng.choice([1, 1, 2])
                if rng.random() < 0.5:  # failures first
                    pattern = [0] * nf + [1] * n_init
                else:
                    pattern = [1] * n_init + [0] * nf
                pattern += [1 if rng.random() < 0.7 else 0 for _ in range(rng.randint(2, 4))]
                a, b = forms[fa](), forms[fb]()
                if a == b:
                    b = b + "2"
                if rng.random() < 0.3:  # one text per failure
                    a, b = [a, forms[fa]()], [forms[fb](), b]
                nobj = rng.choice([1, 1, 2])
                out.append({"cls": "CBO", "nobj": nobj, "kind": "str", "policy": pol,
                            "surrogate": rng.choice(ck.pick(["ET", "ET", "RF"], ["ET", "RF", "GP"])), "workers": 1, "pattern": pattern,
                            "seed": rng.randint(0, 99), "n_init": n_init, "strategy": "cl_max", "labels": [a, b]})
    return out


def eval_matrix_case(args):
    """(runs in a worker process in the thorough tier)"""
    case, do_label = args
    subs = [case] + ([_sub(case, 1)] if case.get("shared") else [])
    if not all(available(c["cls"], c["surrogate"]) for c in subs):
        return case, {"unavailable": True}, []
    obs = run_case(case)
    if "unavailable" in obs:
        return case, obs, []
    relabel = None
    # relabelling is compared on one-worker runs only: with several workers the order in which
    # asyncio.wait hands back finished tasks (a set) is not reproducible, whatever the labels are
    if (do_label and case["kind"] == "str" and all(c["workers"] == 1 for c in subs) and obs["err"] is None
            and not all(case["pattern"])):
        la, lb = (case.get("labels") or ["F_x", "F_another_label_0123"])[:2]
        a2 = run_case(case, la)
        b = run_case(case, lb)
        b2 = run_case(case, lb)
        if a2.get("err") is None and b.get("err") is None and b2.get("err") is None and proposals(b) == proposals(b2):
            relabel = (proposals(obs), proposals(a2), proposals(b))
    viol = oracle_case(case, obs, None if case.get("shared") else relabel)
    if case.get("shared") and relabel is not None and relabel[0] == relabel[1] and relabel[0] != relabel[2]:
        viol.append(("label-changes-proposals", {"labels": case.get("labels"), "with_first": _short(relabel[0]),
                                                  "with_second": _short(relabel[2])}, 0))
    return case, {"err": obs["err"], "n": len(obs["configs"]), "relabel": relabel is not None,
                  "events": [(e[0], [(0, 0, o) for _j, _c, o in e[1]]) for e in obs.get("events", []) if e[0] == "tell" and e[1]]}, viol


_TP = []


def _one_thread():
    """tiny problems: BLAS / OpenMP thread pools only cause contention"""
    try:
        import threadpoolctl

        _TP.append(threadpoolctl.threadpool_limits(1))
    except Exception:
        pass


def _pool_init(repo):
    os.environ["VERIF_REPO"] = repo
    _one_thread()
    from . import common

    common.use_repo_sources()
    import warnings

    warnings.filterwarnings("ignore")


def part_matrix(ck, extra_cases=()):
    from . import common

    cases = [c for _n, c in corpus_cases()] + list(extra_cases) + gen_matrix(ck)
    # proposals of RandomSearch do not depend on what is told: relabelled runs mostly for the others
    jobs = [(c, (c["cls"] != "RandomSearch" or i % 5 == 0)) for i, c in enumerate(cases)]
    if ck.thorough:
        import concurrent.futures as cf

        with cf.ProcessPoolExecutor(max_workers=14, initializer=_pool_init, initargs=(str(common.REPO),)) as ex:
            results = list(ex.map(eval_matrix_case, jobs, chunksize=8))
    else:
        results = [eval_matrix_case(j) for j in jobs]
    for case, info, viol in results:
        if info.get("unavailable"):
            ck.count(f"not-available:{case['cls']}:{case['surrogate'] if case['cls'] == 'CBO' else '-'}")
            continue
        ck.case(case, nontrivial=any(case["pattern"]) and not all(case["pattern"]))
        if case.get("shared"):
            ck.count("search:two-searches-on-one-storage")
            ck.count(f"search:shared:{case['cls']}+{case['shared']['cls']}")
        if case.get("labels"):
            for lab in case["labels"]:
                ck.count("search:label-form=" + label_form(lab) + ("" if isinstance(lab, str) else ",per-failure"))
        tells = [e for e in (info.get("events") or []) if e[0] == "tell" and e[1]]
        if any(all(isinstance(o, str) for _j, _c, o in e[1]) for e in tells):
            ck.count("search:all-failed-batch" + (f":workers={case['workers']}" if case["cls"] == "CBO" else ""))
        ck.count(f"search:{case['cls']}:{case['surrogate'] if case['cls'] == 'CBO' else '-'}")
        ck.count(f"search:kind={case['kind']}")
        ck.count(f"search:policy={case['policy']}" if case["cls"] == "CBO" else "search:policy=-")
        ck.count(f"search:nobj={case['nobj']}:workers={case['workers']}")
        ck.count("search:" + pattern_tag(case["pattern"]))
        if case.get("strategy", "cl_max") != "cl_max":
            ck.count("search:strategy=" + case["strategy"])
        if case.get("max_failures", 100) != 100:
            ck.count("search:max_failures<=3,consecutive-failures>=" + str(case["max_failures"]))
        ck.count(f"search:len={len(case['pattern'])}")
        if info.get("relabel"):
            ck.count("search:relabelled-run-compared")
        for clause, detail, who in viol:
            ck.fail(fingerprint(case, clause, who), f"{clause}: {fingerprint(case, clause, who).split('|')[2]} ({options_tag(case, who)})",
                    dict(case, _who=who), detail)


def corpus_cases():
    d = VERIF / "corpus" / PROP
    out = []
    if d.is_dir():
        for f in sorted(d.glob("*.json")):
            data = json.loads(f.read_text())
            c = data.get("case", data)
            if "pattern" in c and "cls" in c:
                out.append((f.name, c))
    return out


def _shrink_failures(ck):
    new = {}
    for f in ck.failures:
        case = f["case"]
        parts = f["fingerprint"].split("|")
        if isinstance(case, dict) and "pattern" in case and parts[2].endswith(".search") and case.get("part") is None:
            who = case.get("_who", 0)
            base = {k: v for k, v in case.items() if k != "_who"}
            try:
                if parts[1] == "label-changes-proposals":
                    small = shrink_label_case(base) if not base.get("shared") else base
                    rel = label_differs(small)
                    if rel:
                        f = dict(f, case=dict(small, _who=who), fingerprint=fingerprint(small, parts[1], who),
                                 detail={"labels": small["labels"][:2], "with_first": _short(rel[0]), "with_second": _short(rel[2])},
                                 what=f"{parts[1]}: {small['cls']}.search ({options_tag(small, who)})")
                else:
                    small = shrink_case(base, parts[1], who)
                    obs = run_case(small)
                    viol = {(cl, w): d for cl, d, w in oracle_case(small, obs)}
                    if (parts[1], who) in viol:
                        fp = fingerprint(small, parts[1], who)
                        f = dict(f, case=dict(small, _who=who), fingerprint=fp, detail=viol[(parts[1], who)],
                                 what=f"{parts[1]}: {fp.split('|')[2]} ({options_tag(small, who)})")
            except Exception:
                pass
        if f["fingerprint"] in new:
            new[f["fingerprint"]]["count"] += f["count"]
        else:
            new[f["fingerprint"]] = f
    ck.failures[:] = list(new.values())


# --------------------------------------------------------------------------- comparing with the model


def _close(a, b, tol=REL_TOL):
    a, b = Fraction(a), Fraction(b)
    return abs(a - b) <= tol * max(abs(a), abs(b), 1)


def compare(ck, kind, case, got, rep):
    if kind == "ondone":
        if (got["err"] is None) != (rep["err"] is None):
            return {"impl": got, "model": rep}
        if got["err"] is None and not T._val_eq(got["objective"], rep["objective"]):
            return {"impl": got, "model": rep}
        if got["err"] is None and "stored" in got:
            if "err" in got["stored"] or not T._val_eq(got["stored"], rep["stored"]):
                return {"what": "the 'out' entry of the storage", "impl": got["stored"], "model": rep["stored"]}
            go, mo = got.get("other"), rep.get("other")
            same = (go is None and mo is None) or (isinstance(go, dict) and isinstance(mo, dict) and (
                ("err" in go and "err" in mo) or ("seen" in go and "seen" in mo and T._val_eq(go["seen"], mo["seen"]))))
            if not same:
                return {"what": "objective read back by another evaluator on the same search", "impl": go, "model": mo}
        return None
    if kind == "cache":
        asks = [r for r in rep["asks"] if isinstance(r, dict) and "hit" in r]
        if len(asks) != len(got["asks"]):
            raise HarnessError(f"cache: {len(asks)} model asks for {len(got['asks'])} real ones")
        for g, m in zip(got["asks"], asks):
            ck.count(f"cache:{case['level']}:" + ("cached" if m["hit"] else ("single-point" if g["n"] == 1 else "computed")))
        # two asks of the same size return the same batch iff the model says it is the same computation
        for i in range(len(asks)):
            for j in range(i + 1, len(asks)):
                gi, gj = got["asks"][i], got["asks"][j]
                if gi["n"] != gj["n"]:
                    continue
                if (gi["batch"] == gj["batch"]) != (asks[i]["from"] == asks[j]["from"]):
                    return {"ask_ops": [gi["at"], gj["at"]], "impl_same_batch": gi["batch"] == gj["batch"],
                            "model_same_computation": asks[i]["from"] == asks[j]["from"], "model_cached": asks[j]["hit"],
                            "batch": repr(gj["batch"])[:300], "ops": case["ops"]}
        return None
    if kind == "tell":
        if (got["err"] is None) != (rep["err"] is None):
            return {"impl": got, "model": rep}
        if got["err"] is None and got["ys"] != rep["ys"]:
            return {"impl": got, "model": rep}
        if rep["err"]:
            ck.count("tell-error:" + rep["err"])
        return None
    if kind == "filter":
        if (got["err"] is None) != (rep["err"] is None):
            return {"impl": got, "model": rep}
        if rep["err"]:
            ck.count("filter-error:" + rep["err"])
            return None
        out, want = got["yi"], rep["yi"]
        if len(out) != len(want):
            return {"impl": repr(out), "model": want}
        for o, w, src in zip(out, want, case["yi"]):
            if w is None:
                if o != "F":
                    return {"impl": repr(out), "model": want}
                continue
            ov = list(o) if isinstance(o, (list, tuple)) else [o]
            if any(isinstance(x, str) for x in ov) or len(ov) != len(w):
                return {"impl": repr(out), "model": want}
            exact = src is not None or case["policy"] != "mean"
            for x, q in zip(ov, w):
                if (Fraction(x) != unrat(q)) if exact else not _close(x, unrat(q)):
                    return {"impl": repr(out), "model": want}
        return None
    if kind == "surrogate":
        bad = []
        for b, m in zip(got["batches"], rep["batches"]):
            if m.get("skipped"):
                break
            told = [y_to_wire(v) for v in b["told"]] if b["told"] is not None else []
            if m["told"] is not None and told != m["told"]:
                bad.append({"impl_told": told, "model_told": m["told"]})
                break
            if (b["err"] is None) != (m["err"] is None):
                bad.append({"impl_err": b["err"], "model_err": m["err"]})
                break
            if m["err"] is not None:
                ck.count("surrogate-error:" + m["err"])
                break
            if (b["fit"] is None) != (m["fit"] is None):
                bad.append({"impl_fit": b["fit"], "model_fit": m["fit"]})
                break
            if b["fit"] is not None:
                if len(b["fit"]) != len(m["fit"]) or not all(_close(x, unrat(q)) for x, q in zip(b["fit"], m["fit"])):
                    bad.append({"impl_fit": b["fit"], "model_fit": m["fit"]})
                    break
        return bad or None
    if kind == "opttell":
        want = {None: None, "exhausted": "ExhaustedFailures", "markerToSurrogate": "ValueError"}.get(rep["err"], "?")
        ck.count("opttell:" + (rep["err"] or "ok"))
        if got["err"] != want:
            return {"impl": got, "model": rep}
        if rep["err"] is None and rep["fit"] is not None:
            if got["fit"] is None or len(got["fit"]) != len(rep["fit"]) or not all(_close(x, unrat(q)) for x, q in zip(got["fit"], rep["fit"])):
                return {"impl": got, "model": rep}
        return None
    if kind == "regevo":
        pop = rep["pop"]
        known = got["configs"]
        full = len(pop) >= 3
        earlier = [c for j, c in known.items()]
        for cfg in got["asked"]:
            if full:
                members = [known[j] for j in pop if j in known]
                if not any(sum(1 for k in cfg if cfg[k] != mcfg.get(k)) <= 1 for mcfg in members):
                    return {"asked": repr(cfg), "model_population": pop, "why": "not a one-gene mutation of a member of the model's population"}
            ck.count("regevo:" + ("evolve" if full else "sample"))
        return None
    return None


def run(ck):
    ck.rule = ("A: 150+ outputs (six forms x str / nan / +-inf / nan-in-tuple, numpy scalars) through set_output+_on_done; "
               "B: random result batches through CBO._tell for the three policies; C: _filter_failures on scalar / "
               "2-3 objective histories; D: CBO.search with a recording surrogate (identity scaler) for random patterns; "
               "E: RegularizedEvolution.search with failures; F: RandomSearch on every pattern up to length 5 (8 thorough), "
               "CBO on kind x policy x surrogate {ET,RF,GP,DUMMY} x arity x workers {1,2} with sampled patterns, other "
               "classes sampled; non-trivial = pattern with both a failure and a success")
    ck.assumptions = [
        "scaling / scalarisation of non-failed objectives is numerical library code (observed, passed to the model)",
        "np.mean is compared with the exact rational mean within 1e-12 relative",
        "dict-valued objectives, ('ps' acquisition) (objective, time) pairs, moo_upper_bounds are not generated",
        "surrogate / class combinations that cannot be constructed in this environment (DUMMY under scikit-learn>=1.6) are counted as not-available, not as failures",
        "GP is run with acq_func='UCB' (default 'UCBd' + GP is a C02 defect)",
    ]
    ck.trusted_extra = ["scikit-learn estimators (ET/RF/GP) accept finite targets; ConfigSpace sampling"]
    reqs, post = [], []
    _one_thread()
    import time as _time

    t0 = _time.time()
    for part in (part_ondone, part_tell_filter, part_opttell, part_surrogate, part_regevo, part_cache):
        part(ck, reqs, post)
        ck.count(f"seconds:{part.__name__}", round(_time.time() - t0))
        t0 = _time.time()
    with ck.driver() as d:
        reps = d.ask_all(reqs)
    for (kind, case, got), rep in zip(post, reps):
        bad = compare(ck, kind, case, got, rep)
        if bad:
            ck.mismatch(case, bad)
    ck.count("seconds:model", round(_time.time() - t0))
    t0 = _time.time()
    part_matrix(ck)
    ck.count("seconds:part_matrix", round(_time.time() - t0))
    t0 = _time.time()
    _shrink_failures(ck)
    ck.count("seconds:shrink", round(_time.time() - t0))


def search(ck):
    """deeper failing-input search (called when L1/L2 broke and `run` found no failing input): more of the
    directed families — label texts of every form, whole batches failing under every policy / strategy,
    two searches on one storage"""
    import random

    class _Deep:
        thorough = False

        def __init__(self, rng):
            self.rng = rng

        def pick(self, quick, thorough):
            return thorough

    rng = random.Random(ck.rng.getrandbits(32))
    deep = _Deep(rng)
    cases = gen_label_cases(deep, rng, 4)
    cases += [c for c in gen_matrix(deep) if (c.get("shared") or c.get("strategy", "cl_max") != "cl_max" or c["kind"] == "str")
              and c["cls"] != "RandomSearch" and c["surrogate"] not in ("GP", "DUMMY")][:150]
    for case in cases:
        try:
            c, info, viol = eval_matrix_case((case, True))
        except Exception:
            continue
        if info.get("unavailable"):
            continue
        ck.case(case)
        ck.count("deep-search:case")
        for clause, detail, who in viol:
            ck.fail(fingerprint(case, clause, who), f"{clause}: {fingerprint(case, clause, who).split('|')[2]} ({options_tag(case, who)})",
                    dict(case, _who=who), detail)
        if len(ck.failures) >= 3:
            break
    _shrink_failures(ck)


def replay(ck, case):
    if "pattern" in case and "cls" in case and case.get("part") is None:
        base = {k: v for k, v in case.items() if k != "_who"}
        c, info, viol = eval_matrix_case((base, True))
        ck.case(base)
        print("replay:", options_tag(base, case.get("_who", 0)), {k: v for k, v in info.items() if k != "events"},
              "violations:", [v[0] for v in viol] or "none")
        for clause, detail, who in viol:
            ck.fail(fingerprint(base, clause, who), f"{clause}: {fingerprint(base, clause, who).split('|')[2]} ({options_tag(base, who)})",
                    dict(base, _who=who), detail)
    else:
        run(ck)
