"""C07 — seeded searches are reproducible (translator variant, DESIGN.md section 5 C07).

pre_lean : `rng_scan` regenerates lean/Generated/C07Sites.lean from $VERIF_REPO/src (every run), so the
           Lean gate re-checks `C07_sites_seeded` against the CURRENT sources.
L2       : (a) static tie — the hand model's site list (`modelSites`) against the generated table (driver op
           `table`); (b) dynamic tie — for every configuration of the matrix two FRESH interpreters
           (PYTHONHASHSEED 1 / 2, differently perturbed global NumPy / `random` state that keeps moving between
           the calls, different log_dir, different cwd) run the same ask/tell script; what the table predicts
           for the configuration (driver op `predict`: hidden-input sites reached, global generator consumed)
           and what the hand model predicts (`search`: outputs independent of the world) is compared with what
           the two processes did.
L3       : the property itself on the real code: identical proposal sequences (floats by float.hex) for the
           pair, a different sequence for a different seed.  Configurations that reach a site offending
           `C07_sites_seeded` run first.  A failing configuration is diagnosed (which hidden input), shrunk
           towards the default options and fingerprinted by the table site it reaches.
"""
from __future__ import annotations

import json
import os
import shutil
import subprocess
import sys
import tempfile
import time
from concurrent.futures import ThreadPoolExecutor
from pathlib import Path

from . import common, rng_scan
from .common import HarnessError

CHILD = str(Path(__file__).with_name("c07_child.py"))
GENERATED = common.LEAN_DIR / "Generated" / "C07Sites.lean"
_SCAN = None

DEFAULTS = dict(search="CBO", sm="ET", acq="UCBd", mps="cl_max", design="random", cond=False, nobj=1, moo="Chebyshev",
                acq_opt="auto", transfer="none", mode="asktell", fail=False, space="mixed", seed=1, seed_type="int",
                # ff = filter_failures policy; fail_at = indices of evaluations that fail ("late" failures, after the initial
                # design); again = rounds in which ask is called a second time before the tell; inproc = several searches
                # built from ONE problem object in one process before any of them runs (seq | interleaved), twins = how many
                ff="min", fail_at=[], again=[], inproc="none", twins=2,
                # update_prior = CBO(update_prior=True): candidates sampled from a KDE of the good region; objs = the SAME option
                # objects (surrogate_model_kwargs dict, scheduler dict, run_function_kwargs, the problem) are handed to every
                # search of the process; inproc="history": an earlier search with ANOTHER seed built from them runs first
                update_prior=False, objs=False,
                # warm = rows of a checkpoint handed to CBO.fit_surrogate before the first ask (a LONG history: library code
                # such as scikit-learn's QuantileTransformer starts to subsample - with a generator of its own - past a size
                # threshold); scaler = CBO(objective_scaler=...); pre = which searches ran EARLIER in the interpreter for
                # inproc="history" (same = the same options with another seed; all = + every class / initial design)
                warm=0, scaler="auto", pre="same",
                # n_jobs = CBO(n_jobs=...): -1 = "as many as the process sees", which differs between the two interpreters
                n_jobs=1)
N_INIT = 4
OPTION_KEYS = list(DEFAULTS)

SM = ["ET", "RF", "TB", "RS", "GP", "GBRT", "HGBRT", "DUMMY", "MF"]
ACQ = ["UCB", "EI", "PI", "MES", "gp_hedge", "UCBd", "EId", "PId", "MESd", "gp_hedged"]
MPS = ["cl_min", "cl_mean", "cl_max", "topk", "boltzmann", "qUCB", "qUCBd"]
DESIGN = ["random", "sobol", "halton", "hammersly", "lhs", "grid"]
MOO = ["Linear", "Chebyshev", "AugChebyshev", "PBI", "Quadratic"]
SCALER = ["auto", "identity", "minmax", "log", "quantile-uniform"]
WARM = 1200          # longer than every subsampling threshold a change could plausibly introduce below scikit-learn's own
WARM_LONG = 12000    # longer than scikit-learn's default QuantileTransformer(subsample=10_000)  (thorough tier)
SCRIPTS = [[2, 2, 2, 1, 2], [1, 1, 1, 1, 1, 1, 1], [3, 1, 3, 1], [4, 3, 2], [2, 2, 1, 1, 1, 3]]
# small all-discrete space (24 points): more evaluations than half the space, so that the candidate sets contain
# duplicates and already-sampled points at every step
SMALL_SCRIPTS = [[2, 2, 2, 2, 2, 2, 2], [3, 1, 3, 1, 3, 1, 2], [1, 1, 2, 2, 3, 3, 2]]
UNUSUAL_SEEDS = [0, 2 ** 31 - 1, 2 ** 32 - 1]
# NumPy integer seeds: on the current tree `type(random_state) is int` silently ignores them (np.int64(5) gives an
# OS-entropy generator; reported, repair = commit "fix: Search accepts NumPy integer seeds" on branch fix-g7).
# Set to ["int64", "uint32"] once that fix is merged: the thorough spine then runs them for every search class.
NUMPY_SEED_TYPES = ["int64", "uint32"]


def other_seed(seed):
    return seed + 1000 if seed + 1000 < 2 ** 32 else seed - 1000


def case_cfg(c):
    return {k: c[k] for k in sorted(c)}


# --------------------------------------------------------------------------- translator hook


def pre_lean(ck):
    """regenerate the Lean table from the repo's current sources (before the Lean gate builds)"""
    global _SCAN
    src = common.REPO / "src"
    if not (src / "deephyper").is_dir():
        raise HarnessError(f"no deephyper sources under {src}")
    sc = rng_scan.scan(src)
    if len(sc.sites) < 20 or len(sc.files) < 8:
        raise HarnessError(f"rng_scan found only {len(sc.sites)} sites in {len(sc.files)} files: scanner broken?")
    text = rng_scan.render_lean(sc)
    GENERATED.parent.mkdir(exist_ok=True)
    if not GENERATED.exists() or GENERATED.read_text() != text:
        tmp = GENERATED.with_suffix(".lean.tmp")
        tmp.write_text(text)
        os.replace(tmp, GENERATED)
    _SCAN = sc


# --------------------------------------------------------------------------- configurations


def full(cfg):
    c = dict(DEFAULTS)
    c.update(cfg)
    c.setdefault("batches", SMALL_SCRIPTS[0] if c["space"] == "small" else SCRIPTS[0])
    if c["inproc"] == "interleaved":
        # alternating ask/tell rounds only exist in the ask/tell mode (and the reference run alone in a fresh interpreter must make
        # the same calls): `search(max_evals)` of several objects cannot be interleaved
        c["mode"] = "asktell"
    return c


def history_class(cfg):
    return "none" if not cfg.get("warm") else "long" if cfg["warm"] <= 10000 else "very-long"


def lean_cfg(cfg):
    """the options as the table's conditions see them (+ derived: history = none | long | very-long (> 10 000 told observations))"""
    return dict({k: cfg[k] for k in OPTION_KEYS}, history=history_class(cfg))


def with_known_rows(pred, cfg):
    """rows of the table that a rule named `*-known-finding` keeps out of the obligation (an OPEN known finding of the unchanged tree,
    recorded in known_findings.d/C07.json) still describe the code: for the configurations that satisfy the rule's conditions they
    are hidden-input sites like any other, so that the prediction compared with the processes (and the fingerprint) names them"""
    sc = _SCAN
    if sc is None:
        return pred
    lc = {k: rng_scan._optval(v) for k, v in lean_cfg(cfg).items()}
    rows = [dict(id=i, file=s.file, line=s.line, func=s.func, kind=s.kind, text=s.text, stream=s.stream, why=s.why)
            for i, s in enumerate(sc.sites)
            if s.rule.endswith("known-finding") and not s.seeded and all(lc.get(k) in [rng_scan._optval(v) for v in vals] for k, vals in s.conds)]
    if not rows:
        return pred
    pred = dict(pred)
    pred["hidden"] = list(pred["hidden"]) + rows
    pred["streams"] = list(dict.fromkeys(list(pred["streams"]) + [r["stream"] for r in rows]))
    return pred


def nondefault(cfg):
    return {k: cfg[k] for k in OPTION_KEYS if cfg[k] != DEFAULTS[k]}


def spine(thorough=False):
    """hand-picked configurations: every value of every axis at least once, the known families first; unusual seeds
    (0 is falsy!), a small all-discrete space with string categories, the Optimizer.update_next routes and searches
    sharing one problem object.  Q = quick and thorough, T = thorough only (quick budget ~90 s)."""
    Q = [
        dict(acq="MES"),
        dict(search="REGEVO", batches=[2, 2, 2, 1, 2, 2]),
        # option objects reused by an earlier search with another seed (default CBO otherwise)
        dict(objs=True, inproc="history"),
        dict(seed=0, design="sobol", inproc="history", pre="all"),
        # categoricals whose choices have different types (strings included): fitted forest / GP + non-random design
        dict(space="hetero", n_jobs=-1),
        # a long history (restart from a checkpoint of WARM evaluations), then a few asks
        dict(warm=WARM, batches=[2, 2, 1]),
        # (n_jobs=-1 above: as many workers as the process sees - the second interpreter sees 3 CPUs); a transfer table that lacks
        # several hyperparameters; a sampling acquisition function under L-BFGS (GP's auto)
        dict(space="small", transfer="gmm-partial", batches=[2, 2, 2]),
        dict(sm="GP", acq="MES", mps="cl_min", n_points=48, batches=[2, 2, 1]),
        dict(space="small", seed=0, acq="gp_hedged", mps="qUCBd"),
        dict(search="RS", space="small", seed=0, mode="search"),
        dict(search="REGEVO", space="small", seed=0, cond=True),
        # Optimizer.update_next routes: a told batch that only holds ignored failures; ask again before any tell
        dict(ff="ignore", fail_at=[4, 6], batches=[2, 2, 1, 1, 1, 1, 2]),
        dict(again=[2, 3], batches=[2, 2, 1, 2, 1], mps="cl_min"),
        # several searches built from the SAME problem object before any of them runs
        dict(search="RS", inproc="seq", twins=3, mode="search", batches=[3, 3], seed=2 ** 32 - 1),
        dict(search="REGEVO", inproc="seq", batches=[2, 2, 2, 2, 2]),
        dict(cond=True, inproc="interleaved", batches=[2, 2, 2, 1]),
        # update_prior (KDE sampling, optimum on two bounds) and the transfer-learning route (columns of one kind)
        dict(space="floats", update_prior=True, batches=[2, 2, 2, 2, 2]),
        dict(space="floats", transfer="gmm"),
        dict(sm="RF", acq="MESd", mps="qUCB", design="lhs", batches=[3, 1, 3, 1], inproc="history", pre="all"),
        dict(sm="RF", acq="EI", mps="cl_mean", nobj=2, moo="Linear", seed=2 ** 31 - 1),
        dict(sm="GP", acq="UCB", mps="cl_min", design="halton", inproc="history"),
        dict(sm="GP", acq="gp_hedge", mps="cl_mean", cond=True, batches=[3, 1, 3, 1], space="hetero"),
        dict(sm="TB", acq="PId", mps="boltzmann", design="grid", mode="search", fail=True, batches=[4, 3, 2], inproc="history"),
        dict(acq="EId", mps="topk", design="hammersly", nobj=2, moo="PBI", cond=True, batches=[2, 2, 1, 1, 1, 3], inproc="history"),
        dict(search="EDS", design="halton", batches=[4, 3, 2]),
        dict(search="EDS", design="lhs", batches=[4, 3, 2], inproc="history", pre="all", space="hetero"),
    ]
    T = [
        dict(),
        dict(search="RS", cond=True, seed=2 ** 32 - 1),
        dict(acq="EId", mps="topk", design="hammersly", batches=[4, 3, 2]),
        dict(mode="search", fail=True, batches=[4, 3, 2]),
        dict(nobj=2, moo="PBI", cond=True, batches=[2, 2, 1, 1, 1, 3]),
        dict(sm="DUMMY", seed=0),
        dict(acq="MES", nobj=2, cond=True, mps="cl_mean", moo="AugChebyshev"),
        dict(seed=0),
        dict(space="small", seed=0),
        dict(search="REGEVO", space="small", seed=0),
        dict(search="REGEVO", cond=True, batches=[3, 3, 1, 1, 2]),
        dict(search="RS", mode="search", batches=[4, 3, 2]),
        dict(sm="RF", acq="EI", mps="qUCB", design="sobol", nobj=2, moo="Linear"),
        dict(acq="gp_hedged", mps="qUCBd", design="lhs", space="small"),
        dict(sm="RS", acq="PI", cond=True, nobj=2, moo="AugChebyshev"),
        dict(sm="RF", acq="UCB", mps="cl_min", nobj=2, moo="Quadratic", seed=2 ** 31 - 1),
        dict(sm="RF", acq="EI", mps="cl_mean", fail=True, cond=True),
        dict(search="EDS", design="sobol"),
        dict(search="EDS", design="hammersly", batches=[4, 3, 2]),
        dict(transfer="gmm"),
        dict(sm="GP", acq="EI", acq_opt="lbfgs", batches=[1, 1, 1, 1, 1, 1, 1]),
        dict(sm="GBRT", acq="UCB"),
        dict(sm="HGBRT", acq="EI"),
    ]
    S = list(Q)
    if thorough:
        S += T + stress_set() + long_history_set(very_long=True)[-1:]
        for search in ("CBO", "RS", "REGEVO", "EDS"):
            for sd in UNUSUAL_SEEDS:
                S.append(dict(search=search, seed=sd))
                S.append(dict(search=search, seed=sd, cond=True, mode="search"))
            for t in NUMPY_SEED_TYPES:
                S.append(dict(search=search, seed=5, seed_type=t))
    return [full(c) for c in S]


def stress_set():
    """configurations that drive the non-trivial paths of the optimizer / search stack: a small all-discrete space
    with string categories (duplicates and already-sampled candidates at every step, hash order of tuples of strings
    differs between processes) for every multi-point strategy and every search class, and the falsy seed 0"""
    S = []
    for i, mps in enumerate(MPS):
        S.append(dict(space="small", mps=mps, batches=SMALL_SCRIPTS[i % len(SMALL_SCRIPTS)]))
    S += [
        dict(space="small", cond=True, batches=SMALL_SCRIPTS[1]),
        dict(space="small", sm="RF", acq="EI", mode="search", fail=True),
        dict(space="small", sm="GP", acq="UCB", mps="cl_min", n_points=48),
        dict(space="small", nobj=2, acq="gp_hedged", mps="qUCBd"),
        dict(space="small", design="lhs", acq="MES"),
        dict(space="small", search="RS"), dict(space="small", search="RS", cond=True, mode="search"),
        dict(space="small", search="REGEVO"), dict(space="small", search="REGEVO", cond=True, batches=SMALL_SCRIPTS[1]),
        dict(space="small", search="EDS", design="grid", n_points=14),
        dict(seed=0), dict(seed=0, search="RS"), dict(seed=0, search="REGEVO"), dict(seed=0, space="small", search="REGEVO"),
    ]
    S += update_next_set() + same_problem_set() + reused_objects_set() + update_prior_set() + transfer_set()
    S += hetero_set() + history_set() + long_history_set() + cpu_set() + acq_optimizer_set()
    return S


def hetero_set():
    """categorical hyperparameters whose choices have DIFFERENT TYPES (strings, ints, floats in one list): every encoder
    route - label encoding for the forests / boosting, the normalised pipeline for GP and the non-random designs,
    ConfigSpace sampling with a condition on such a categorical, mutation in RegularizedEvolution"""
    return [
        dict(space="hetero"),
        dict(space="hetero", sm="RF", acq="EI", mps="qUCB", design="lhs"),
        dict(space="hetero", sm="GP", acq="UCB", mps="cl_min", design="grid", cond=True, n_points=48, batches=[2, 2, 2, 1]),
        dict(space="hetero", sm="GBRT", acq="UCB", design="sobol"),
        dict(space="hetero", cond=True, nobj=2, mps="boltzmann", mode="search", batches=[4, 3, 2]),
        dict(space="hetero", search="EDS", design="halton"),
        dict(space="hetero", search="EDS", design="grid", cond=True),
        dict(space="hetero", search="RS", cond=True, mode="search"),
        dict(space="hetero", search="REGEVO", cond=True, batches=[2, 2, 2, 1, 2, 2]),
        dict(space="hetero", update_prior=True, batches=[2, 2, 2, 2, 2]),
    ]


def history_set():
    """what a seeded search proposes must not depend on which searches (other seeds, the same seed, other classes, other
    initial designs) ran EARLIER in the same interpreter: every initial design / sampler-backed component, compared with
    the same search alone in a fresh interpreter"""
    S = []
    for i, dsg in enumerate(DESIGN):
        S.append(dict(design=dsg, inproc="history", pre="all", cond=bool(i % 2), batches=[2, 2, 2, 1]))
        S.append(dict(search="EDS", design=dsg, inproc="history", pre="all", batches=[4, 3, 2], space=["mixed", "hetero", "floats"][i % 3]))
    S += [
        dict(search="RS", inproc="history", pre="all", cond=True),
        dict(search="REGEVO", inproc="history", pre="all", batches=[2, 2, 2, 2, 2]),
        dict(sm="RF", acq="EI", mps="qUCB", design="lhs", inproc="history", pre="all", n_init=6, batches=[3, 3, 2]),
        dict(sm="GP", acq="gp_hedge", mps="cl_mean", design="sobol", inproc="history", pre="all", n_points=48, batches=[2, 2, 2, 1]),
        dict(design="lhs", inproc="history", pre="all", mode="search", nobj=2, batches=[4, 3, 2]),
        dict(space="small", design="grid", inproc="history", pre="all"),
        dict(update_prior=True, space="floats", inproc="history", pre="all", batches=[2, 2, 2, 2]),
        dict(transfer="gmm", inproc="history", pre="all"),
    ]
    return S


def long_history_set(very_long=False):
    """restart from the checkpoint of a long campaign (CBO.fit_surrogate): more told observations than any internal
    size threshold (subsampling in the objective scaler, binning, ...), then a few asks"""
    S = [
        dict(warm=WARM, batches=[2, 2, 1]),
        dict(warm=WARM, sm="RF", acq="EI", mps="qUCB", batches=[3, 1, 2]),
        dict(warm=WARM, mode="search", nobj=2, batches=[2, 2]),
        dict(warm=WARM, sm="GBRT", acq="UCB", scaler="quantile-uniform", batches=[2, 1, 1]),
        dict(warm=WARM, sm="TB", scaler="minmax", cond=True, fail=True, batches=[2, 2, 1]),
        dict(warm=WARM, space="hetero", sm="HGBRT", acq="EI", batches=[2, 1, 1]),
        dict(warm=WARM, space="floats", update_prior=True, scaler="log", batches=[2, 2]),
    ]
    if very_long:
        # (small forests keep the refits on 12 000 rows cheap; one family only, so that the shrunk fingerprint is stable)
        S += [dict(warm=WARM_LONG, sm_kwargs={"n_estimators": 20}, batches=[2])]
    return S


def reused_objects_set():
    """an earlier search with another seed was built from the same problem / option objects (dicts) in the process"""
    S = []
    for kw in (dict(), dict(sm="RF", acq="EI"), dict(sm="GBRT", acq="UCB"), dict(sm="GP", acq="UCB", n_points=48), dict(nobj=2, cond=True),
               dict(search="RS"), dict(search="REGEVO", batches=[2, 2, 2, 2, 2]), dict(search="EDS"), dict(space="small"), dict(mode="search")):
        S.append(dict(kw, objs=True, inproc="history"))
    S.append(dict(objs=True, inproc="seq", twins=3))
    S.append(dict(objs=True, inproc="interleaved", cond=True, sm="RF"))
    return S


def update_prior_set():
    """CBO(update_prior=True): candidates come from a KDE of the good region (optimum on a bound: samples fall outside)"""
    return [
        dict(space="floats", update_prior=True, batches=[2, 2, 2, 2, 2]),
        dict(space="floats", update_prior=True, upq=0.3, sm="RF", acq="EI", mps="qUCB", batches=[3, 1, 3, 1, 2]),
        dict(space="floats", update_prior=True, mode="search", nobj=2, batches=[4, 3, 3]),
        dict(update_prior=True, batches=[2, 2, 2, 2, 2]),
        dict(update_prior=True, upq=0.25, sm="GP", acq="UCB", mps="cl_min", n_points=48),
    ]


def cpu_set():
    """n_jobs=-1 ("as many workers as the process sees"): the second interpreter of every pair may only use 3 CPUs"""
    return [
        dict(n_jobs=-1),
        dict(n_jobs=-1, sm="RF", acq="EI", mps="qUCB", design="sobol"),
        dict(n_jobs=-1, cond=True, nobj=2, mode="search", batches=[4, 3, 2]),
        dict(n_jobs=-1, space="floats", update_prior=True, batches=[2, 2, 2, 2]),
        dict(n_jobs=-1, space="small", sm="GBRT", acq="UCB"),
        dict(n_jobs=-1, space="hetero", mps="boltzmann", design="lhs"),
        dict(n_jobs=2, sm="RF", acq="EI"),
    ]


def acq_optimizer_set(acqs=("MES", "MESd")):
    """the sampling acquisition functions under every acquisition optimizer (sampling, L-BFGS explicitly and as GP's `auto`)"""
    S = []
    for a in acqs:
        S.append(dict(acq=a, acq_opt="sampling", batches=[2, 2, 1]))
        S.append(dict(acq=a, acq_opt="lbfgs", batches=[2, 2, 1]))
        if not a.endswith("d"):
            S.append(dict(acq=a, sm="GP", mps="cl_min", n_points=48, batches=[2, 2, 1]))
            S.append(dict(acq=a, sm="GP", mps="qUCB", cond=True, nobj=2, n_points=48, batches=[2, 2, 1]))
    return S


def transfer_set():
    """CBO.fit_generative_model(df) before the search; df has several columns of one kind (gmm) / lacks two or more
    hyperparameters of the space (gmm-partial)"""
    return [
        dict(space="floats", transfer="gmm-partial"),
        dict(space="small", transfer="gmm-partial"),
        dict(transfer="gmm-partial", mps="qUCB"),
        dict(space="hetero", transfer="gmm-partial", sm="RF", acq="EI"),
        dict(space="floats", transfer="gmm"),
        dict(space="floats", transfer="gmm", mode="search", sm="RF", acq="EI", batches=[4, 3, 3]),
        dict(transfer="gmm"),
        dict(transfer="gmm", mps="qUCB", nobj=2),
        dict(space="small", transfer="gmm"),
    ]


def update_next_set():
    """the two routes into Optimizer.update_next on a fitted optimizer"""
    return [
        dict(ff="ignore", fail_at=[4, 6], batches=[2, 2, 1, 1, 1, 1, 2]),
        dict(ff="ignore", fail_at=[4, 5, 8], batches=[2, 2, 2, 2, 1, 2], mps="qUCB", sm="RF", acq="EI"),
        dict(ff="ignore", fail_at=[5, 7], batches=[1] * 10, mode="search", cond=True),
        dict(ff="ignore", fail_at=[4], batches=[2, 2, 1, 2, 2], space="small"),
        dict(again=[2, 3], batches=[2, 2, 1, 2, 1], mps="cl_min"),
        dict(again=[2], batches=[2, 2, 1, 1, 1], acq="gp_hedge", sm="GP", n_points=48),
        dict(again=[1, 3], batches=[2, 2, 2, 2], cond=True, mps="topk"),
        dict(again=[2, 4], batches=[2, 2, 2, 2, 2, 2], space="small", mps="qUCBd"),
        dict(again=[2], ff="ignore", fail_at=[6], batches=[2, 2, 1, 1, 2], nobj=2),
    ]


def same_problem_set():
    """two / three searches built from one HpProblem object before any of them runs, run in sequence and interleaved"""
    S = []
    for search in ("RS", "REGEVO", "CBO", "EDS"):
        bs = [2, 2, 2, 2, 2] if search == "REGEVO" else [2, 2, 2, 1]
        S.append(dict(search=search, inproc="seq", batches=bs))
        S.append(dict(search=search, inproc="interleaved", cond=True, batches=bs))
        S.append(dict(search=search, inproc="seq", twins=3, mode="search", cond=(search == "CBO"), batches=bs))
    S.append(dict(inproc="interleaved", space="small", cond=True))
    S.append(dict(inproc="interleaved", cond=True, nobj=2, mps="qUCB"))
    return S


def random_cfg(rng, allow_ga=False):
    r = rng.random()
    c = {}
    if r < 0.08:
        c["search"] = "RS"
    elif r < 0.20:
        c["search"] = "REGEVO"
    elif r < 0.24:
        c["search"] = "EDS"
        c["design"] = rng.choice(DESIGN)
    else:
        c["sm"] = rng.choice(["ET", "ET", "RF", "RF", "TB", "RS", "GP", "GP", "GBRT", "HGBRT", "DUMMY"])
        acqs = [a for a in ACQ if not (c["sm"] == "GP" and a.endswith("d"))]
        c["acq"] = rng.choice(acqs)
        mpss = [m for m in MPS if not (c["sm"] == "GP" and m == "qUCBd")]
        c["mps"] = rng.choice(mpss)
        c["design"] = rng.choice(DESIGN)
        c["nobj"] = rng.choice([1, 1, 2])
        if c["nobj"] == 2:
            c["moo"] = rng.choice(MOO)
        if rng.random() < 0.12:
            c["transfer"] = rng.choice(["gmm", "gmm-partial"])
        if rng.random() < 0.1:
            c["n_jobs"] = rng.choice([-1, -1, 2])
        if rng.random() < 0.1:
            c["update_prior"] = True
        if rng.random() < 0.1:
            c["ff"] = "ignore"
            c["fail_at"] = [5, 7]
        if rng.random() < 0.15:
            c["acq_opt"] = rng.choice(["sampling", "lbfgs"] + (["ga", "mixedga"] if allow_ga else []))
            if c["acq_opt"] in ("ga", "mixedga"):
                c["n_points"] = 32
        if c["sm"] == "GP":
            c["n_points"] = 48
        if c.get("n_jobs", 1) != 1 and (c["sm"] == "GP" or c.get("acq_opt", "auto") not in ("auto", "sampling")):
            # OBSERVED on the unchanged tree (recorded in notes/C07.md, not yet analysed): n_jobs=-1 together with the L-BFGS
            # acquisition optimizer is not even repeatable with IDENTICAL inputs (parallel restarts) - a parallelism option
            # outside the property's quantifier (num_workers=1); the axis is kept to the serial acquisition optimizer
            c["n_jobs"] = 1
    c["cond"] = rng.random() < 0.4
    if c.get("search") in ("RS", "REGEVO") or rng.random() < 0.2:
        c["mode"] = rng.choice(["asktell", "search"])
    if c.get("search") not in ("REGEVO",):
        c["fail"] = rng.random() < 0.2
    if c.get("nobj") == 2:
        c["fail"] = False  # failures before the first success in MOO are C04/C06's concern
    c["seed"] = rng.choice([1, 7, 42, 2024, 0, 0, 2 ** 31 - 1, 2 ** 32 - 1])
    c["space"] = rng.choice(["small", "small", "small", "floats", "floats", "hetero", "hetero", "hetero"] + ["mixed"] * 5)
    if c["space"] == "floats":
        c["cond"] = False
    if rng.random() < 0.15:
        c["objs"] = True
        c["inproc"] = rng.choice(["history", "history", "seq", "interleaved"])
    elif rng.random() < 0.15:
        c["inproc"] = "history"
        c["pre"] = "all"
    if c.get("search", "CBO") == "CBO":
        if rng.random() < 0.2:
            c["scaler"] = rng.choice(SCALER)
        if c["space"] != "small" and c["sm"] not in ("GP", "DUMMY") and c.get("transfer", "none") == "none" and rng.random() < 0.12:
            c["warm"] = WARM
    c["batches"] = list(rng.choice(SMALL_SCRIPTS if c["space"] == "small" else SCRIPTS))
    if c.get("warm"):
        c["batches"] = c["batches"][:3]
    if c["space"] == "small" and c.get("search") == "EDS":
        c["n_points"] = 14
    if c.get("search") == "REGEVO" and c["space"] != "small":
        c["batches"] = c["batches"] + [2, 1]
    return full(c)


def configs_for_site(site):
    """configurations that reach a site: the product of its conditions' values (first 6), flat and conditional"""
    if site.kind == "shared-state":
        return [full(c) for c in same_problem_set()]
    if site.kind == "cpu-count":
        return [full(c) for c in cpu_set()]
    if site.kind in rng_scan.CACHE_KINDS:
        # process-level mutable state: what matters is which searches ran earlier / run side by side in the interpreter
        hs = history_set()
        key = Path(site.file).stem.lower()
        hs.sort(key=lambda c: 0 if key and key in str(c.get("design", "")).lower() + str(c.get("search", "")).lower() else 1)
        return [full(c) for c in hs + same_problem_set()]
    if "update_next" in site.func:
        return [full(c) for c in update_next_set()]
    if site.file.endswith("gmm.py") or "model_sdv" in site.text:
        return [full(c) for c in transfer_set()]
    acq_vals = [v for k, vals in site.conds if k == "acq" for v in vals]
    if acq_vals:
        # a site that only matters for some acquisition functions: those functions under every acquisition optimizer
        return [full(c) for c in sorted(acq_optimizer_set(acq_vals), key=lambda c: 0 if c.get("sm") == "GP" else 1)] + [
            full(dict(acq=a, cond=True)) for a in acq_vals] + [full(dict(acq=a, space="small")) for a in acq_vals]
    if any(k == "update_prior" for k, _ in site.conds):
        return [full(c) for c in update_prior_set()]
    out = [{}]
    for k, vals in site.conds:
        out = [dict(c, **{k: v}) for c in out for v in vals]
    res = []
    for c in out[:6]:
        if c.get("search") == "REGEVO":
            c.setdefault("batches", [2, 2, 2, 1, 2, 2])
        res.append(full(c))
        if "cond" not in c:
            res.append(full(dict(c, cond=True)))
        if "space" not in c:
            c2 = {k: v for k, v in c.items() if k != "batches"}
            res.append(full(dict(c2, space="small")))
    return res


# --------------------------------------------------------------------------- running children


class Runner:
    def __init__(self, ck):
        self.ck = ck
        self.tmp = Path(tempfile.mkdtemp(prefix="c07_"))
        self.pool = ThreadPoolExecutor(max_workers=min(16, os.cpu_count() or 4))
        self.launched = 0
        self.times = []

    def close(self):
        self.pool.shutdown(wait=True, cancel_futures=True)
        shutil.rmtree(self.tmp, ignore_errors=True)

    def _child(self, cfg, hashseed, perturb, tag):
        d = Path(tempfile.mkdtemp(prefix=f"r_{tag}_", dir=self.tmp))
        env = dict(os.environ, PYTHONHASHSEED=str(hashseed), VERIF_REPO=str(common.REPO), OMP_NUM_THREADS="1",
                   OPENBLAS_NUM_THREADS="1", MKL_NUM_THREADS="1", PYTHONWARNINGS="ignore", PYTHONDONTWRITEBYTECODE="1")
        env.pop("PYTHONPATH", None)
        envarg = {"perturb": perturb % 1000, "log_dir": str(d / f"logs_{tag}"), "cwd": str(d / f"cwd_{tag}"),
                  "cpus": 3 if perturb >= 1000 else None}
        t0 = time.time()
        try:
            p = subprocess.run([sys.executable, "-W", "ignore", CHILD, json.dumps(cfg), json.dumps(envarg)],
                               capture_output=True, text=True, env=env, timeout=600, cwd=str(self.tmp))
        except subprocess.TimeoutExpired:
            raise HarnessError(f"C07 child timed out (600 s) on {common.canon(cfg)}")
        finally:
            shutil.rmtree(d, ignore_errors=True)
            self.times.append((round(time.time() - t0, 1), nondefault(full(cfg))))
        lines = [l for l in p.stdout.strip().splitlines() if l.startswith("{")]
        if not lines:
            raise HarnessError(f"C07 child printed no result for {common.canon(cfg)}: rc={p.returncode} {p.stderr[-600:]}")
        try:
            return json.loads(lines[-1])
        except Exception:
            raise HarnessError(f"C07 child printed an unparsable line: {lines[-1][:300]}")

    def submit(self, cfg, hashseed, perturb, tag):
        self.launched += 1
        return self.pool.submit(self._child, cfg, hashseed, perturb, tag)

    # the two members of a pair; `vary` = which hidden inputs differ between them (log_dir / cwd always differ)
    # (perturb >= 1000 additionally restricts the interpreter to 3 CPUs)
    def pair(self, cfg, vary=("hash", "globals", "cpus")):
        a = self.submit(cfg, 1, 3, "a")
        b = self.submit(cfg, 2 if "hash" in vary else 1, (17 if "globals" in vary else 3) + (1000 if "cpus" in vary else 0), "b")
        return a, b


def observable(res):
    """what the property compares: the proposal sequence (and how the run ended)"""
    err = res.get("error", "")
    return (res["status"], json.dumps(res["props"]), err.split(":")[0])


def first_diff(ra, rb):
    pa, pb = ra["props"], rb["props"]
    for i, (x, y) in enumerate(zip(pa, pb)):
        if x != y:
            return {"proposal_index": i, "a": x, "b": y}
    return {"len_a": len(pa), "len_b": len(pb), "status_a": ra["status"], "status_b": rb["status"],
            "error_a": ra.get("error"), "error_b": rb.get("error")}


def global_draws(*results):
    """draws from / writes to a process-global generator observed (with call site) while the search calls ran"""
    out, seen = [], set()
    for r in results:
        for d in (r or {}).get("global_draws", []) or []:
            k = (d["stream"], d["by"], d["via"])
            if k not in seen:
                seen.add(k)
                out.append(d)
    return out


def taint_sites(*results):
    """the observed global draws as pseudo rows (file, func) for the fingerprint: the deephyper function on whose behalf
    the draw was made > the function that made it (third-party code included)"""
    rows = []
    for d in global_draws(*results):
        via, by = d.get("via") or "", d["by"]
        if via:
            f, fn = via.split(":", 1)
            rows.append({"file": f, "func": fn if by == via else f"{fn}>{by}", "stream": d["stream"]})
        else:
            f, fn = by.split(":", 1)
            rows.append({"file": f, "func": fn, "stream": d["stream"]})
    return rows


# --------------------------------------------------------------------------- hand-model request


def model_request(cfg):
    """the configuration as `Opts` + `Op` script of Model/Streams.lean (environment flags from the script)"""
    strat = {"cl_min": "cl", "cl_mean": "cl", "cl_max": "cl", "topk": "topk", "boltzmann": "boltzmann", "qUCB": "qlcb", "qUCBd": "qlcb"}
    search = {"CBO": "CBO", "EDS": "CBO", "RS": "RS", "REGEVO": "REGEVO"}[cfg["search"]]
    ndims = {"floats": 4, "small": 3 + (1 if cfg["cond"] else 0), "hetero": 4 + (1 if cfg["cond"] else 0)}.get(cfg["space"], 5 + (2 if cfg["cond"] else 0))
    opts = dict(search=search, strategy=strat[cfg["mps"]], ndims=ndims,
                estimatorByName=cfg["sm"] in ("GP", "DUMMY"), cfgSpace=bool(cfg["cond"]) and cfg["space"] != "floats", design=cfg["design"] != "random",
                mes=cfg["acq"] in ("MES", "MESd"), hedge=cfg["acq"].startswith("gp_hedge"), moo=cfg["nobj"] == 2,
                pymoo=cfg["acq_opt"] in ("ga", "mixedga"))
    ops, told, evals = [], 0, 0
    n_init = cfg.get("n_init", N_INIT) if cfg["search"] != "EDS" else 10 ** 6
    if cfg["warm"] and cfg["search"] == "CBO":
        # CBO.fit_surrogate(df): the whole checkpoint is told at once (one fitting step when a surrogate exists)
        told = int(cfg["warm"])
        ops.append(["tell", cfg["sm"] != "DUMMY"])
    pop = 5
    fail_at, again = set(cfg["fail_at"]), set(cfg["again"]) if cfg["mode"] == "asktell" else set()
    for k, n in enumerate(cfg["batches"]):
        fitted = told >= n_init and cfg["sm"] != "DUMMY"
        asks = 2 if k in again else 1
        for j in range(asks):
            if j == 1 and search == "CBO":
                ops.append(["refresh", fitted])  # ask again before any tell -> Optimizer.update_next
            if search == "REGEVO":
                ops.append(["ask", n, told >= pop, False])
            else:
                ops.append(["ask", n, fitted, not fitted])
        idx = list(range(evals, evals + n * asks))
        evals += n * asks
        ok = [i for i in idx if not (i in fail_at and cfg["ff"] == "ignore")]
        told += len(ok)
        if search == "CBO" and not ok:
            ops.append(["refresh", fitted])  # nothing told (only ignored failures) -> Optimizer.update_next
        else:
            ops.append(["tell", search == "CBO" and told >= n_init and cfg["sm"] != "DUMMY"])
    return {"op": "search", "opts": opts, "ops": ops}


# --------------------------------------------------------------------------- failure analysis


def twins_bad(res):
    """searches built from one problem object in one process did not propose the same sequence"""
    return any(t != res["props"] for t in res.get("twins", []))


def inproc_bad(res, ref):
    """the in-process searches disagree with each other, or with the same search run alone in a fresh interpreter"""
    return twins_bad(res) or (ref is not res and res["status"] == "ok" and ref["status"] == "ok" and observable(res)[1] != observable(ref)[1])


def diagnose_and_shrink(ck, R, cfg, mode="pair"):
    """which hidden input, and the smallest configuration (towards DEFAULTS) that still differs.
    mode "pair": two fresh interpreters differ;  mode "twins": the in-process searches of ONE interpreter differ."""
    def differs(c, vary=("hash", "globals", "cpus")):
        if mode == "twins":
            f = R.submit(c, 1, 3, "a")
            return f, (R.submit(dict(c, inproc="none"), 1, 3, "r") if c["inproc"] != "none" else f)
        fa, fb = R.pair(c, vary)
        return fa, fb

    def settle(pairs):
        if mode == "twins":
            return [inproc_bad(a.result(), r.result()) for a, r in pairs]
        return [observable(a.result()) != observable(b.result()) for a, b in pairs]

    # 1. shrink options: single resets in parallel, then the combination
    cur = dict(cfg)
    cands = []
    for k in OPTION_KEYS:
        if cur[k] != DEFAULTS[k]:
            cands.append((k, DEFAULTS[k]))
    if cur["acq"].endswith("d") and cur["acq"] != DEFAULTS["acq"]:
        cands.append(("acq", cur["acq"][:-1]))
    trial = [dict(cur, **{k: v}) for k, v in cands]
    res = settle([differs(t) for t in trial])
    keep = [(k, v) for (k, v), bad in zip(cands, res) if bad]
    if keep:
        combo = dict(cur)
        for k, v in keep:
            if k == "acq" and combo["acq"] != cur["acq"]:
                continue  # already simplified by an earlier candidate
            combo[k] = v
        if settle([differs(combo)])[0]:
            cur = combo
        else:
            for k, v in keep:
                t = dict(cur, **{k: v})
                if settle([differs(t)])[0]:
                    cur = t
    # 2. shrink the script: shortest failing prefix
    bs = cur["batches"]
    prefixes = [bs[:k] for k in range(1, len(bs))]
    res = settle([differs(dict(cur, batches=p)) for p in prefixes])
    for p, bad in zip(prefixes, res):
        if bad:
            cur = dict(cur, batches=p)
            break
    if mode == "twins":
        fa, fr = differs(cur)
        ra, rr = fa.result(), fr.result()
        other = next((t for t in ra.get("twins", []) if t != ra["props"]), None)
        return cur, ["sharedState"], ra, (dict(ra, props=other) if other is not None else rr)
    # 3. which hidden input
    kinds = {"osEntropy": (), "hashSeed": ("hash",), "globalRng": ("globals",), "cpuCount": ("cpus",)}
    pairs = [differs(cur, v) for v in kinds.values()]
    # an unseeded generator can produce the same few values twice by chance: three more interpreters with identical inputs
    extra = [R.submit(cur, 1, 3, f"e{j}") for j in range(3)]
    res = settle(pairs)
    hidden = sorted(k for k, bad in zip(kinds, res) if bad)
    if len({observable(f.result()) for f in extra} | {observable(pairs[0][0].result())}) > 1 and "osEntropy" not in hidden:
        hidden.append("osEntropy")
    if "osEntropy" in hidden:
        # differs although hash seed and global generators are equal in both processes: nothing controllable explains it
        hidden = ["osEntropy"]
    fa, fb = differs(cur)
    ra, rb = fa.result(), fb.result()
    return cur, hidden, ra, rb


SEARCH_CLASS = {"CBO": "CBO", "EDS": "ExperimentalDesignSearch", "RS": "RandomSearch", "REGEVO": "RegularizedEvolution"}


def shrink_seeds_same(R, cfg):
    """smallest configuration (towards DEFAULTS, search class kept) for which two seeds still give one sequence"""
    def same(c):
        return R.submit(c, 1, 3, "a"), R.submit(dict(c, seed=other_seed(c["seed"])), 1, 3, "c")

    def settle(pairs):
        out = []
        for a, b in pairs:
            ra, rb = a.result(), b.result()
            out.append(ra["status"] == "ok" and bool(ra["props"]) and observable(ra)[1] == observable(rb)[1])
        return out

    cur = dict(cfg)
    cands = [(k, DEFAULTS[k]) for k in OPTION_KEYS if k != "search" and cur[k] != DEFAULTS[k]]
    res = settle([same(dict(cur, **{k: v})) for k, v in cands])
    keep = [(k, v) for (k, v), ok in zip(cands, res) if ok]
    if keep:
        combo = dict(cur, **dict(keep))
        if settle([same(combo)])[0]:
            cur = combo
        else:
            for k, v in keep:
                t = dict(cur, **{k: v})
                if settle([same(t)])[0]:
                    cur = t
    return cur


def fingerprint_seeds_same(cfg):
    nd = {k: v for k, v in nondefault(cfg).items() if k != "search"}
    opts = ",".join(f"{k}={'yes' if isinstance(nd[k], list) else nd[k]}" for k in sorted(nd)) or "defaults"
    return f"C07|seeds-same|{SEARCH_CLASS[cfg['search']]}.ask|{opts}"


def fingerprint(clause, hidden_sites, cfg):
    if hidden_sites:
        site = "+".join(sorted({f"{s['file']}:{s['func']}" for s in hidden_sites}))
    else:
        site = "unknown-site"
    nd = nondefault(cfg)
    opts = ",".join(f"{k}={'yes' if isinstance(nd[k], list) else nd[k]}" for k in sorted(nd)) or "defaults"
    return f"C07|{clause}|{site}|{opts}"


# --------------------------------------------------------------------------- the check


def _table_and_evidence(ck, drv):
    sc = _SCAN
    if sc is None:
        raise HarnessError("pre_lean did not run")
    tab = drv.ask({"op": "table"})
    if tab["n_sites"] != len(sc.sites):
        raise HarnessError(f"driver sees {tab['n_sites']} sites, scanner produced {len(sc.sites)}: Generated/C07Sites.lean is stale "
                           "(is another ./check C07 running with a different VERIF_REPO?)")
    for m in tab["missing"]:
        ck.mismatch({"kind": "model-site-missing-in-code", "site": m},
                    "a derivation of the hand model (Model/Streams.lean modelSites) has no counterpart in the scanned sources")
    for s in tab["unmodelled"]:
        ck.mismatch({"kind": "code-site-not-in-model", "site": s},
                    "a generator-related site in a core function is neither in modelSites nor in notModelled")
    ck.count("table:sites", len(sc.sites))
    ck.count("table:files", len(sc.files))
    for (kind, stream, reach), n in sorted(rng_scan.summary(sc).items()):
        ck.count(f"site:{kind}/{stream}/{reach}", n)
    offending = sc.live_unseeded()
    ck.extra_cov["translator"] = {
        "scanned_files": len(sc.files),
        "sites": len(sc.sites),
        "live_sites": tab["n_live"],
        "sites_seeded_obligation": tab["sites_seeded"],
        "offending_sites": [dict(file=s.file, line=s.line, func=s.func, kind=s.kind, stream=s.stream, text=s.text,
                                 conds=s.conds, why=s.why) for s in offending],
        # every syntactic hidden-input site that is NOT counted as reachable, with its justification
        "classified_not_live": [dict(file=s.file, line=s.line, func=s.func, kind=s.kind, stream=s.stream, text=s.text,
                                     reach=s.reach, rule=s.rule, why=s.why)
                                for s in sc.sites if s.reach != "live" and (not s.seeded or "->" in s.detail)],
        "guard_notes": sc.problems,
        "model_sites_checked": tab["model_sites"],
    }
    if bool(offending) == bool(tab["sites_seeded"]):
        raise HarnessError("scanner and Lean table disagree on the obligation (stale build?)")
    if offending and any(p["kind"] == "lean-build-failed" for p in ck.gate.problems):
        # name the obligation and the rows that break it in the replay / evidence
        ck.gate.problems.append({"kind": "obligation-failed", "detail": "theorem C07_sites_seeded (Props/C07.lean) is false for the generated "
                                 "table: reachable sites drawing from a hidden stream: " + "; ".join(
                                     f"{s.file}:{s.line} {s.func} `{s.text}` <- {s.stream}" for s in offending)})
    return tab, offending


def run(ck):
    ck.rule = ("configuration = search class x surrogate x acquisition x multi-point strategy x initial design x flat/conditional "
               "x 1/2 objectives x scalarisation x acq optimizer x transfer x ask-tell/search() x failures x seed x batch script; "
               "hand-picked spine covering every axis value + seeded random sample; each configuration = 2 fresh interpreters "
               "(PYTHONHASHSEED 1/2, different moving global NumPy/random state, log_dir, cwd) + 1 with another seed; "
               "non-trivial = at least 2 proposals were produced")
    ck.assumptions = [
        "num_workers=1, serial evaluator, deterministic run-function (the property's setting); BLAS/OpenMP pinned to one thread in both processes",
        "the same interpreter, NumPy/SciPy/scikit-learn/ConfigSpace builds in both processes (bitwise float comparison)",
        "the syntactic scan is a heuristic (aliases of np.random, C extensions are invisible): that is why the two-process run is part of every check",
        "reachability map and justifications in harness/rng_scan.py are hand-maintained; guards re-check the textual facts they rely on",
    ]
    ck.trusted_extra = [
        "harness/rng_scan.py (ast translator) and its REACH_RULES map from sites to configuration options",
        "CPython's PYTHONHASHSEED / subprocess isolation as the way to vary hidden inputs",
    ]
    R = Runner(ck)
    try:
        with ck.driver() as drv:
            tab, offending = _table_and_evidence(ck, drv)
            # ---- order of work: corpus, configurations reaching offending sites, spine, random
            todo, seen = [], set()

            def add(c, origin):
                c = full(c)
                key = common.canon(case_cfg(c))
                if key not in seen:
                    seen.add(key)
                    todo.append((c, origin))

            cdir = common.VERIF / "corpus" / "C07"
            for f in sorted(cdir.glob("*.json")) if cdir.is_dir() else []:
                entry = json.loads(f.read_text())
                if entry.get("tier") == "thorough" and not ck.thorough:
                    continue  # e.g. histories of more than 10 000 observations: minutes of CPU
                add(entry["case"]["cfg"], "corpus")
            for s in offending:
                # quick: the first configurations aimed at the site (the sets are ordered most specific first)
                for c in configs_for_site(s)[:ck.pick(10, 10 ** 6)]:
                    add(c, "reaches-offending-site")
            for c in spine(ck.thorough):
                add(c, "spine")
            for _ in range(ck.pick(2, 170)):
                add(random_cfg(ck.rng, allow_ga=ck.thorough), "random")
            if ck.thorough:
                for ao in ("ga", "mixedga"):
                    add(dict(acq_opt=ao, n_points=32, batches=[2, 2, 1, 1]), "spine")
                    add(dict(acq_opt=ao, acq="MES", n_points=32, batches=[2, 2, 1, 1], cond=(ao == "mixedga")), "spine")
            later = []
            if offending:
                # a flagged site somewhere in the stack: the stack's non-trivial paths, run only if the first phase finds nothing
                first, todo = todo, later
                for s in offending:
                    for c in configs_for_site(s):
                        add(c, "reaches-offending-site")
                for c in stress_set():
                    add(c, "reaches-offending-site")
                todo = first

            differing, seeds_same = {}, []
            open_fps = {e["fingerprint"] for e in ck.known.get("open", []) if e.get("property") == "C07"}
            pending_mm = {}  # L2 reports of differing cases, emitted once the group's fingerprint is known not to be an open finding
            provisional = {}  # group key -> fingerprints registered at once (unshrunk), replaced by the analysed one

            def register_now(key, clause, what, c, case, ra, rb, pred):
                """a failing input is never lost: it is registered (unshrunk, undiagnosed) the moment it is seen, so that a run that
                is cut short by the wall-clock watchdog on a slow machine still reports it with a replay; the diagnosed and shrunk
                failure replaces it"""
                fp = fingerprint(clause, pred["hidden"] or taint_sites(ra, rb), c) + "|unshrunk"
                provisional.setdefault(key, set()).add(fp)
                ck.fail(fp, what, {"cfg": case["cfg"], "provisional": "not yet diagnosed / shrunk"}, {"first_difference": first_diff(ra, rb)})

            def launch_and_judge(todo):
                futs = []
                for i, (c, origin) in enumerate(todo):
                    fa, fb = R.pair(c)
                    c2 = dict(c, seed=other_seed(c["seed"]))
                    with_other_seed = ck.thorough or i % 4 == 0 or c["search"] == "EDS" or origin == "corpus"
                    fr = R.submit(dict(c, inproc="none"), 1, 3, "r") if c["inproc"] != "none" else None
                    futs.append((c, origin, fa, fb, R.submit(c2, 1, 3, "c") if with_other_seed else None, fr))
                preds = drv.ask_all([{"op": "predict", "cfg": lean_cfg(c), "rounds": len(c["batches"])} for c, _ in todo])
                models = drv.ask_all([model_request(c) for c, _ in todo])

                for (c, origin, fa, fb, fc, fr), pred, mod in zip(futs, preds, models):
                    pred = with_known_rows(pred, c)
                    mm = []
                    ra, rb = fa.result(), fb.result()
                    rc = fc.result() if fc is not None else None
                    rr = fr.result() if fr is not None else None
                    case = {"cfg": case_cfg(c), "origin": origin}
                    ck.count("origin:" + origin)
                    for k in ("search", "sm", "acq", "mps", "design", "moo", "acq_opt", "transfer", "mode"):
                        if c["search"] in ("CBO", "EDS") or k in ("search", "mode"):
                            ck.count(f"{k}={c[k]}")
                    ck.count(f"space={c['space']}")
                    ck.count("history=" + ("none" if not c["warm"] else "long" if c["warm"] <= WARM else "very-long"))
                    if c["search"] in ("CBO", "EDS"):
                        ck.count(f"scaler={c['scaler']}")
                    if c["inproc"] == "history":
                        ck.count(f"earlier-searches={c['pre']}:{c['search']}:{c['design'] if c['search'] in ('CBO', 'EDS') else '-'}")
                    ck.count(f"inproc={c['inproc']}")
                    ck.count("route:" + ("ignored-failure" if c["fail_at"] and c["ff"] == "ignore" else "") + ("ask-again" if c["again"] else "")
                             if (c["again"] or (c["fail_at"] and c["ff"] == "ignore")) else "route:plain")
                    ck.count("seed=" + (str(c["seed"]) if c["seed"] in UNUSUAL_SEEDS else "other"))
                    ck.count(f"cond={c['cond']}")
                    ck.count(f"nobj={c['nobj']}")
                    ck.count(f"fail={c['fail']}")
                    if ra["status"] == "unavailable" and rb["status"] == "unavailable":
                        # the constructor refuses this configuration on this tree: not a statement about reproducibility
                        ck.count("status:unavailable")
                        ck.count("unavailable:" + ra["error"].split(":")[0])
                        ck.case(case, nontrivial=False, validated=False)
                        continue
                    ck.count("status:" + ra["status"])
                    if ra["status"] == "raised":
                        ck.count("raised:" + ra["error"][:48])
                        ex = ck.extra_cov.setdefault("raised_examples", {})
                        if len(ex.setdefault(ra["error"][:48], [])) < 3:
                            ex[ra["error"][:48]].append(nondefault(c))
                    ck.case(case, nontrivial=len(ra["props"]) >= 2)
                    ck.count("proposals", len(ra["props"]))
                    same = observable(ra) == observable(rb)
                    # ---- L2: table / model predictions vs. what the two processes did
                    if not mod["well_init"] or not mod["same_outputs"] or not mod.get("history_independent", True) or mod["proposals"] != mod["asks"]:
                        ck.mismatch(case, {"hand model is not self-consistent for this configuration": mod})
                    if not same and not pred["hidden"]:
                        mm.append((case, "the pair differs but the generated table has no hidden-input site reachable by this configuration "
                                         "(scanner or reachability map misses a site)"))
                    if not same and mod["same_outputs"]:
                        mm.append((case, "hand model (seed threading) says the proposals are a function of the seed; the implementation disagrees"))
                    np_pred = any(s in pred["streams"] for s in ("numpyGlobal", "scipyGlobal"))
                    gd = global_draws(ra, rb, rr)
                    brief = [{k: d[k] for k in ("stream", "method", "by", "via", "count")} for d in gd][:6]
                    for r in (ra, rb, rr):
                        if r is None:
                            continue
                        np_seen = r.get("np_global_touched") or any(d["stream"] == "numpyGlobal" for d in r.get("global_draws", []))
                        py_seen = r.get("py_global_touched") or any(d["stream"] == "pythonGlobal" for d in r.get("global_draws", []))
                        if np_seen and not np_pred and not pred["global_write"]:
                            mm.append((case, {"what": "the search consumed / reseeded the process-global NumPy generator but the table has no live "
                                                       "site drawing from it for this configuration (a seeded search draws from its own generators only; "
                                                       "third-party code called without a random_state is invisible to the scan)", "observed_draws": brief}))
                            break
                        if py_seen and "pythonGlobal" not in pred["streams"]:
                            mm.append((case, {"what": "the search consumed the process-global `random` generator but the table has no such live site",
                                              "observed_draws": brief}))
                            break
                    if ra.get("np_global_touched") or gd:
                        ck.count("observed:global-generator-touched")
                    for d in gd:
                        ck.count(f"observed-draw:{d['stream']}:{d['by']}")
                    # ---- L3: the property
                    twin_fail = twins_bad(ra) or twins_bad(rb) or (
                        rr is not None and ra["status"] == "ok" and rr["status"] == "ok" and observable(ra)[1] != observable(rr)[1])
                    if twin_fail and same:
                        # searches built from ONE problem object in one process disagree with each other / with the
                        # same search run alone in a fresh interpreter
                        ck.count("same-problem-searches-differ")
                        if mod["same_outputs"] and mod.get("history_independent", True):
                            mm.append((case, "hand model: every search owns its generators and nothing else (private copy of the problem, no process-level "
                                             "state); the implementation's searches of one interpreter influence each other"))
                        key = ("twins",) + tuple(sorted(h["id"] for h in pred["hidden"]))
                        differing.setdefault(key, []).append((c, case, ra, rb))
                        other = next((dict(ra, props=t) for r in (ra, rb) for t in r.get("twins", []) if t != r["props"]), rr or rb)
                        register_now(key, "earlier-search-changes-proposals" if c["inproc"] == "history" else "same-problem-searches-differ",
                                     "searches of one interpreter influence each other (in-process scenario vs. the same search alone)", c, case, ra, other, pred)
                        pending_mm.setdefault(key, []).extend(mm)
                        mm = []
                    elif not same:
                        ck.count("pair-differs")
                        key = tuple(sorted(h["id"] for h in pred["hidden"])) or (("taint",) + tuple(sorted(d["by"] for d in gd)) if gd else ("unknown",))
                        differing.setdefault(key, []).append((c, case, ra, rb))
                        register_now(key, "differs-across-processes", "same seed, same options, two interpreters: proposal sequences differ", c, case, ra, rb, pred)
                        pending_mm.setdefault(key, []).extend(mm)
                        mm = []
                    elif rc is not None and ra["status"] == "ok" and ra["props"] and observable(ra)[1] == observable(rc)[1]:
                        ck.count("seeds-same")
                        seeds_same.append((c, case, ra))
                    else:
                        ck.count("pair-identical")
                        if rc is not None:
                            ck.count("other-seed-differs")
                    for cs, detail in mm:  # cases whose pair is identical: reported at once
                        ck.mismatch(cs, detail)


            launch_and_judge(todo)
            if later and not differing and not ck.failures:
                # L1 is broken (a flagged site somewhere in the stack) and neither the spine nor the configurations aimed at the
                # site produced a failing input: drive the stack's non-trivial paths (second phase, so that the red path stays
                # short when the first phase already has the failing input)
                ck.count("second-phase:stress-set")
                launch_and_judge(later)

            # ---- failing configurations: one representative per set of table sites is diagnosed and shrunk
            def analyse(group):
                group = sorted(group, key=lambda g: (len(nondefault(g[0])), sum(g[0]["batches"])))
                return group[0][0]

            with ThreadPoolExecutor(max_workers=4) as gpool:
                jobs = {key: gpool.submit(diagnose_and_shrink, ck, R, analyse(group), "twins" if key[0] == "twins" else "pair")
                        for key, group in differing.items()}
                for key, group in differing.items():
                    cur, hidden, sa, sb = jobs[key].result()
                    for pfp in provisional.get(key, ()):  # replaced by the analysed failure below
                        ck.failures[:] = [f for f in ck.failures if f["fingerprint"] != pfp]
                        ck.hist.pop("L3_fail:" + pfp, None)
                    spred = with_known_rows(drv.ask({"op": "predict", "cfg": lean_cfg(cur), "rounds": len(cur["batches"])}), cur)
                    clause = "depends-on-" + "+".join(hidden) if hidden else "differs-across-processes"
                    if key[0] == "twins":
                        clause = "earlier-search-changes-proposals" if cur["inproc"] == "history" else "same-problem-searches-differ"
                    fp = fingerprint(clause, spred["hidden"] or taint_sites(sa, sb), cur)
                    if fp in open_fps:
                        # an OPEN known finding of this tree: model / table are known not to describe these configurations
                        ck.count("L2_reports_explained_by_known_finding", len(pending_mm.get(key, [])))
                    else:
                        for cs, detail in pending_mm.get(key, []):
                            ck.mismatch(cs, detail)
                    shr = {"cfg": case_cfg(cur),
                           "hidden_inputs": hidden, "table_sites": spred["hidden"], "observed_global_draws": global_draws(sa, sb)[:6],
                           "also_failing": [g[1]["cfg"] for g in group][:8],
                           "envs": {"a": {"PYTHONHASHSEED": 1, "perturb": 3, "cpus": "all"}, "b": {"PYTHONHASHSEED": 2, "perturb": 17, "cpus": 3}}}
                    for _ in group:
                        ck.fail(fp, ((f"seed {cur['seed']}: the search proposes another sequence when an earlier search with another seed was built "
                                      "from the same problem / option objects in the same process than when it runs alone")
                                     if cur["inproc"] == "history" else
                                     (f"same seed {cur['seed']}, same options, {cur['twins']} searches built from one problem object in one "
                                      f"process ({cur['inproc']}): proposal sequences differ")) if key[0] == "twins" else
                                    f"same seed {cur['seed']}, same options, two interpreters: proposal sequences differ "
                                    f"({', '.join(hidden) or 'process'})",
                                shr, {"first_difference": first_diff(sa, sb),
                                      "lean_predict": {k: spred[k] for k in ("streams", "same_outputs")}})
            # ---- configurations whose proposals do not depend on the seed: shrunk (memoised by class + design)
            memo = {}
            with ThreadPoolExecutor(max_workers=4) as gpool:
                for c, case, ra in seeds_same:
                    mk = (c["search"], c["design"], c["sm"])
                    if mk not in memo:
                        memo[mk] = gpool.submit(shrink_seeds_same, R, c)
            for c, case, ra in seeds_same:
                cur = memo[(c["search"], c["design"], c["sm"])].result()
                ck.fail(fingerprint_seeds_same(cur),
                        f"{SEARCH_CLASS[cur['search']]}: seeds {cur['seed']} and {other_seed(cur['seed'])} give the same proposal sequence",
                        {"cfg": case_cfg(cur), "other_seed": other_seed(cur["seed"]),
                         "original_cfg": case["cfg"]}, {"proposals": ra["props"][:3]})
            ck.count("children-launched", R.launched)
            ck.extra_cov["slowest_children_s"] = sorted(R.times, key=lambda t: -t[0])[:5]
    finally:
        R.close()


def search(ck):
    """L1/L2 broke and `run` found no failing input: more configurations, aimed at the offending sites"""
    sc = _SCAN
    offending = sc.live_unseeded() if sc else []
    R = Runner(ck)
    try:
        todo = []
        for _ in range(ck.pick(24, 96)):
            c = random_cfg(ck.rng, allow_ga=False)
            if offending:
                s = ck.rng.choice(offending)
                for k, vals in s.conds:
                    c[k] = ck.rng.choice(vals)
                if c["search"] == "REGEVO":
                    c["batches"] = [2, 2, 2, 1, 2, 2, 3]
            c["batches"] = c["batches"] + [2, 1, 2]
            todo.append(full(c))
        futs = [(c, *R.pair(c)) for c in todo]
        for c, fa, fb in futs:
            ra, rb = fa.result(), fb.result()
            case = {"cfg": case_cfg(c), "origin": "deeper-search"}
            if ra["status"] == "unavailable":
                continue
            ck.case(case, nontrivial=len(ra["props"]) >= 2)
            ck.count("origin:deeper-search")
            if observable(ra) != observable(rb):
                cur, hidden, sa, sb = diagnose_and_shrink(ck, R, c)
                with ck.driver() as drv:
                    spred = with_known_rows(drv.ask({"op": "predict", "cfg": lean_cfg(cur), "rounds": len(cur["batches"])}), cur)
                clause = "depends-on-" + "+".join(hidden) if hidden else "differs-across-processes"
                ck.fail(fingerprint(clause, spred["hidden"] or taint_sites(sa, sb), cur), "same seed, same options, two interpreters: proposal sequences differ",
                        {"cfg": case_cfg(cur), "hidden_inputs": hidden, "table_sites": spred["hidden"], "observed_global_draws": global_draws(sa, sb)[:6]},
                        {"first_difference": first_diff(sa, sb)})
                return
    finally:
        R.close()


def replay(ck, case):
    cfg = full(case["cfg"])
    R = Runner(ck)
    try:
        fa, fb = R.pair(cfg)
        fc = R.submit(dict(cfg, seed=case.get("other_seed", other_seed(cfg["seed"]))), 1, 3, "c")
        fr = R.submit(dict(cfg, inproc="none"), 1, 3, "r") if cfg["inproc"] != "none" else None
        ra, rb, rc = fa.result(), fb.result(), fc.result()
        rr = fr.result() if fr is not None else None
        with ck.driver() as drv:
            pred = with_known_rows(drv.ask({"op": "predict", "cfg": lean_cfg(cfg), "rounds": len(cfg["batches"])}), cfg)
    finally:
        R.close()
    ck.case({"cfg": case["cfg"]}, nontrivial=len(ra["props"]) >= 2)
    same = observable(ra) == observable(rb)
    print("replay:", json.dumps({"cfg": nondefault(cfg), "status": [ra["status"], rb["status"]], "proposals": [len(ra["props"]), len(rb["props"])],
                                 "identical": same, "differs_from_other_seed": observable(ra)[1] != observable(rc)[1],
                                 "first_difference": None if same else first_diff(ra, rb), "table_hidden_streams": pred["streams"]}))
    if ra["status"] == "unavailable":
        print("replay: configuration not available on this tree:", ra["error"])
        return
    sites = pred["hidden"] or taint_sites(ra, rb)
    if same and rr is not None and cfg["inproc"] == "history" and ra["status"] == "ok" and rr["status"] == "ok" and observable(ra)[1] != observable(rr)[1]:
        print("replay: the search proposes another sequence after earlier searches ran in the interpreter than alone in a fresh one:",
              json.dumps(first_diff(ra, rr)))
        ck.fail(fingerprint("earlier-search-changes-proposals", sites, cfg),
                "the search proposes another sequence when earlier searches ran in the same interpreter than when it runs alone", case, first_diff(ra, rr))
    elif same and (twins_bad(ra) or twins_bad(rb) or (rr is not None and inproc_bad(ra, rr))):
        bad = ra if twins_bad(ra) else rb if twins_bad(rb) else None
        if bad is not None:
            twin = next(t for t in bad["twins"] if t != bad["props"])
            print("replay: searches built from one problem object differ:", json.dumps(first_diff(bad, dict(bad, props=twin))))
        else:
            print("replay: the in-process searches differ from the same search alone in a fresh interpreter:", json.dumps(first_diff(ra, rr)))
        ck.fail(fingerprint("same-problem-searches-differ", sites, cfg),
                "same seed, same options, searches built from one problem object in one process: proposal sequences differ", case)
    elif not same:
        hid = case.get("hidden_inputs") or []
        clause = "depends-on-" + "+".join(hid) if hid else "differs-across-processes"
        gd = global_draws(ra, rb)
        if gd:
            print("replay: draws from a process-global generator during the search calls:",
                  json.dumps([{k: d[k] for k in ("stream", "method", "by", "via", "count")} for d in gd][:6]))
        ck.fail(fingerprint(clause, sites, cfg), "same seed, same options, two interpreters: proposal sequences differ", case, first_diff(ra, rb))
    elif ra["status"] == "ok" and ra["props"] and observable(ra)[1] == observable(rc)[1]:
        ck.fail(fingerprint_seeds_same(cfg), "two seeds give the same proposal sequence", case)
