"""C07 child: ONE search in ONE fresh interpreter.  Run as a script by harness/c07.py:

    PYTHONHASHSEED=<h> python c07_child.py '<json cfg>' '<json env>'

cfg  = the configuration (the same text for both members of a pair):
       search, seed, seed_type, space, sm, acq, mps, design, cond, nobj, moo, batches, mode, fail, ff, acq_opt, transfer,
       fail_at (evaluation indices that fail), again (rounds with a second ask before the tell),
       inproc = none | seq | interleaved (+ twins = 2|3): several searches built from ONE problem object before any of
       them runs, then run one after the other / with alternating ask-tell rounds; their sequences are in "twins"
       space = mixed | small | floats | hetero (categoricals whose choices have DIFFERENT TYPES, strings included);
       warm = number of checkpoint rows handed to CBO.fit_surrogate(df) before the first ask (a LONG history);
       scaler = CBO(objective_scaler=...);
       inproc = history: EARLIER searches ran in this interpreter (pre = same: the same options with another seed;
       pre = all: additionally searches of every class and every initial design on the same problem, one with the same seed)
env  = what MUST NOT matter: {"perturb": int, "log_dir": path, "cwd": path, "cpus": null | k (the process may only use k CPUs:
       scheduler affinity + LOKY_MAX_CPU_COUNT, i.e. what joblib / os report as the number of CPUs differs between the two processes)}
Prints exactly one JSON line:
    {"status": "ok" | "unavailable" | "raised", "props": [[[name, value], ...], ...], "error": "..."}
"global_draws" = every draw from / write to a PROCESS-GLOBAL generator (NumPy's legacy singleton, the `random` module's
hidden instance — whoever makes it: deephyper, scikit-learn, SciPy, ...) made while a search call was running, with
the call site (`by` = innermost frame outside numpy/random, `via` = innermost deephyper frame).
Floats are printed by float.hex (exact).  `unavailable` = the constructor refused the configuration
(not a reproducibility statement); `raised` = ask/tell raised after `props` had been proposed.
"""
import json
import os
import random
import sys
import warnings

warnings.filterwarnings("ignore")


def enc(v):
    import numpy as np

    if isinstance(v, np.generic):  # a numpy scalar leaking out is still compared by value + kind
        v = v.item()
    if isinstance(v, bool):
        return ["b", v]
    if isinstance(v, float):
        return ["f", v.hex()]
    if isinstance(v, int):
        return ["i", v]
    return ["s", str(v)]


class Taint:
    """dynamic taint of the two process-global generators.  `install()` runs BEFORE scikit-learn / SciPy / deephyper are
    imported: NumPy's legacy singleton (`numpy.random.mtrand._rand`, what `np.random.<f>`, `check_random_state(None)` of
    scikit-learn and SciPy, and SciPy's `rvs` without `random_state` all use) and the `random` module's hidden instance
    are replaced by subclasses whose methods note the call stack whenever `armed` is set (= a search call is running;
    the harness's own perturbation draws and import-time draws are not recorded)."""

    armed = False
    draws = {}
    src = ""

    @classmethod
    def note(cls, stream, method):
        if not cls.armed:
            return
        cls.armed = False
        try:
            frames = []
            f = sys._getframe(2)
            while f is not None and len(frames) < 60:
                frames.append((f.f_code.co_filename, getattr(f.f_code, "co_qualname", f.f_code.co_name), f.f_lineno))
                f = f.f_back
            me = os.path.abspath(__file__)
            by = via = None
            for fn, qn, ln in frames:
                rel = cls.rel(fn)
                if by is None and fn != me and not rel.startswith(("numpy/", "random.py")):
                    by = (rel, qn, ln)
                if via is None and fn.startswith(cls.src):
                    via = (rel, qn, ln)
            by = by or ("?", "?", 0)
            key = (stream, method, by[0], by[1], via[0] if via else "", via[1] if via else "")
            d = cls.draws.get(key)
            if d is None:
                if len(cls.draws) >= 24:
                    return
                cls.draws[key] = d = {"stream": stream, "method": method, "by": f"{by[0]}:{by[1]}", "by_line": by[2],
                                      "via": f"{via[0]}:{via[1]}" if via else "", "via_line": via[2] if via else 0, "count": 0,
                                      "stack": [f"{cls.rel(fn)}:{qn}:{ln}" for fn, qn, ln in frames[:10] if fn != me]}
            d["count"] += 1
        finally:
            cls.armed = True

    @classmethod
    def rel(cls, fn):
        if cls.src and fn.startswith(cls.src):
            return fn[len(cls.src):].lstrip("/").removeprefix("deephyper/")
        for mark in ("site-packages/", "dist-packages/"):
            if mark in fn:
                return fn.split(mark, 1)[1]
        return os.path.basename(fn)

    @classmethod
    def install(cls, src):
        import numpy as np

        cls.src = os.path.realpath(src)
        base = np.random.RandomState
        old = np.random.mtrand._rand

        def wrap_np(name):
            orig = getattr(base, name)

            def method(self, *a, **k):
                Taint.note("numpyGlobal", name)
                return orig(self, *a, **k)

            method.__name__ = name
            return method

        ns = {n: wrap_np(n) for n in dir(base) if not n.startswith("_") and n != "get_state" and callable(getattr(base, n))}
        traced = type("TracedGlobalRandomState", (base,), ns)()
        base.set_state(traced, old.get_state())
        for mod in (np.random.mtrand, np.random):
            for n, v in list(vars(mod).items()):
                if getattr(v, "__self__", None) is old:
                    setattr(mod, n, getattr(traced, n))
        np.random.mtrand._rand = traced

        class TracedGlobalRandom(random.Random):
            def random(self):
                Taint.note("pythonGlobal", "random")
                return super().random()

            def getrandbits(self, k):
                Taint.note("pythonGlobal", "getrandbits")
                return super().getrandbits(k)

            def seed(self, *a, **k):
                Taint.note("pythonGlobal", "seed")
                return super().seed(*a, **k)

            def setstate(self, st):
                Taint.note("pythonGlobal", "setstate")
                return super().setstate(st)

        oldp = random._inst
        tp = TracedGlobalRandom()
        random.Random.setstate(tp, oldp.getstate())
        for n, v in list(vars(random).items()):
            if getattr(v, "__self__", None) is oldp:
                setattr(random, n, getattr(tp, n))
        random._inst = tp


FLOAT_NAMES = ["alpha", "beta", "gamma", "delta"]
FLOAT_TARGET = {"alpha": 0.0, "beta": 10.0, "gamma": 4.0, "delta": 6.5}
# categoricals whose choices have DIFFERENT TYPES (strings, ints, floats in one list)
HETERO_OPT = ["adam", "sgd", 1, 2.5, "none"]
HETERO_REG = ["l2", 0, 0.5, "off"]
HETERO_BONUS = {"adam": 0.0, "sgd": 0.8, 1: -0.4, 2.5: 1.1, "none": 0.3, "l2": 0.2, 0: -0.1, 0.5: 0.6, "off": 0.0}
SMALL_ACT = ["relu", "tanh", "gelu"]
SMALL_OPT = ["adam", "sgd", "rmsprop", "lion"]


def build_problem(cfg):
    import ConfigSpace as cs
    from deephyper.hpo import HpProblem

    p = HpProblem()
    if cfg.get("space") == "floats":
        # four float hyperparameters of the same kind; the optimum sits on two bounds (alpha=0, beta=10)
        for name in FLOAT_NAMES:
            p.add_hyperparameter((0.0, 10.0), name)
        return p
    if cfg.get("space") == "hetero":
        p.add_hyperparameter((0.0, 4.0), "x")
        p.add_hyperparameter((1, 16), "n")
        c = p.add_hyperparameter(list(HETERO_OPT), "opt")
        p.add_hyperparameter(list(HETERO_REG), "reg")
        if cfg.get("cond"):
            d = p.add_hyperparameter((0.0, 1.0), "child")
            p.add_condition(cs.InCondition(d, c, ["adam", 1]))
        return p
    if cfg.get("space") == "small":
        # small ALL-DISCRETE space with string categories (3 x 4 x 2 = 24 points): candidate sets are full of
        # duplicates and already-sampled points, and tuples of strings hash differently in every process
        c = p.add_hyperparameter(SMALL_ACT, "cat")
        p.add_hyperparameter(SMALL_OPT, "opt")
        p.add_hyperparameter([1, 2], "ord")
        if cfg.get("cond"):
            d = p.add_hyperparameter(["x", "y"], "child")
            p.add_condition(cs.EqualsCondition(d, c, "relu"))
        return p
    p.add_hyperparameter((1, 64, "log-uniform"), "i_log")
    p.add_hyperparameter((-1.5, 2.5), "r")
    c = p.add_hyperparameter(["a", "b", "c"], "cat")
    p.add_hyperparameter([1, 2, 4, 8], "ord")
    p.add_hyperparameter((0, 9), "k")
    if cfg.get("cond"):
        d = p.add_hyperparameter((0, 5), "child")
        e = p.add_hyperparameter((0.0, 1.0), "child2")
        p.add_condition(cs.EqualsCondition(d, c, "a"))
        p.add_condition(cs.InCondition(e, c, ["a", "b"]))
    return p


def objective(cfg, x):
    import math

    if cfg.get("space") == "floats":
        v = -sum((x[n] - FLOAT_TARGET[n]) ** 2 for n in FLOAT_NAMES) / 10.0
        if cfg.get("fail") and x["gamma"] > 8.0:
            return "F_k"
        if cfg.get("nobj", 1) == 2:
            return (v, -abs(x["gamma"] - x["delta"]))
        return v
    if cfg.get("space") == "hetero":
        opt, reg = x["opt"], x["reg"]
        opt = opt.item() if hasattr(opt, "item") else opt
        reg = reg.item() if hasattr(reg, "item") else reg
        v = -((x["x"] - 2.5) ** 2) + 0.05 * x["n"] + HETERO_BONUS[opt] + HETERO_BONUS[reg]
        if cfg.get("cond"):
            c = x.get("child", 0.0)
            v += 0.3 * (0.0 if c != c else c)
        if cfg.get("fail") and x["n"] % 5 == 4:
            return "F_k"
        if cfg.get("nobj", 1) == 2:
            return (v, -0.5 * v + x["x"])
        return v
    if cfg.get("space") == "small":
        v = {"relu": 0.0, "tanh": 0.5, "gelu": 0.1}[x["cat"]] + {"adam": 0.3, "sgd": 0.0, "rmsprop": -0.2, "lion": 0.3}[x["opt"]]
        v += 0.25 * x["ord"] + (0.05 if x.get("child") == "y" else 0.0)
        if cfg.get("fail") and x["opt"] == "sgd" and x["ord"] == 2:
            return "F_k"
        if cfg.get("nobj", 1) == 2:
            return (v, 1.0 - v + 0.5 * x["ord"])
        return v
    v = math.log(x["i_log"]) - x["r"] ** 2 + (1.0 if x["cat"] == "b" else 0.0) + x["ord"] / 8 + 0.05 * x["k"]
    if cfg.get("cond"):
        v += 0.1 * x.get("child", 0) + 0.3 * x.get("child2", 0.0)
    if cfg.get("fail") and x["k"] % 4 == 3:
        return "F_k"
    if cfg.get("nobj", 1) == 2:
        return (v, -0.5 * v + x["r"])
    return v


def seed_value(cfg):
    """the integer seed, optionally as a NumPy integer type (cfg["seed_type"] = "int64", "int32", "uint32", ...)"""
    import numpy as np

    t = cfg.get("seed_type", "int")
    return int(cfg["seed"]) if t == "int" else getattr(np, t)(cfg["seed"])


class Job:
    """what Search.tell iterates: `config, objective = job`"""

    def __init__(self, c, o):
        self.c, self.o = c, o

    def __iter__(self):
        return iter((self.c, self.o))


def main():
    cfg = json.loads(sys.argv[1])
    env = json.loads(sys.argv[2])
    src = os.path.join(os.environ.get("VERIF_REPO", "/repo"), "src")
    sys.path.insert(0, src)
    os.makedirs(env["cwd"], exist_ok=True)
    os.chdir(env["cwd"])
    if env.get("cpus"):
        # the number of CPUs the process sees (joblib.cpu_count / effective_n_jobs(-1), os.sched_getaffinity) is a hidden input
        k = int(env["cpus"])
        os.environ["LOKY_MAX_CPU_COUNT"] = str(k)
        try:
            os.sched_setaffinity(0, sorted(os.sched_getaffinity(0))[:k])
        except (AttributeError, OSError):
            pass
    import numpy as np

    # before anything else imports numpy.random / random: SciPy's distributions keep the generator they find at import time
    Taint.install(src)

    # imports first: some third-party modules consume the global `random` generator at import time
    import deephyper
    from deephyper.evaluator import Evaluator
    from deephyper.hpo import CBO, RandomSearch, RegularizedEvolution

    assert os.path.realpath(deephyper.__file__).startswith(os.path.realpath(src)), deephyper.__file__

    pert = int(env["perturb"])
    np.random.seed(pert)
    random.seed(pert * 7 + 1)
    # shadows replay exactly what THIS script draws from the two process-global generators, so that at
    # the end "global state == shadow state" means: the code under test never consumed (or reseeded) them
    sh_np = np.random.RandomState(pert)
    sh_py = random.Random(pert * 7 + 1)
    for _ in range(pert % 13):
        np.random.rand()
        random.random()
        sh_np.rand()
        sh_py.random()

    def disturb(k):
        # the hidden state keeps moving, differently in the two processes (the harness's own draws are not taint)
        armed, Taint.armed = Taint.armed, False
        for _ in range((pert + k) % 5):
            np.random.standard_normal()
            random.random()
            sh_np.standard_normal()
            sh_py.random()
        Taint.armed = armed

    def globals_touched():
        a, b = np.random.get_state(), sh_np.get_state()
        np_same = a[0] == b[0] and (a[1] == b[1]).all() and a[2:] == b[2:]
        return {"np_global_touched": not bool(np_same), "py_global_touched": random.getstate() != sh_py.getstate()}

    out = {"status": "ok", "props": [], "error": ""}

    def emit():
        Taint.armed = False
        out.update(globals_touched())
        out["global_draws"] = list(Taint.draws.values())
        print(json.dumps(out))

    Taint.armed = True  # from here on every draw from a process-global generator is the code under test's
    problem = build_problem(cfg)  # ONE problem object: every search of this process is built from it
    names = problem.hyperparameter_names
    kind = cfg["search"]
    fail_at = set(cfg.get("fail_at", []))
    again = set(cfg.get("again", []))

    # objects handed to EVERY search built in this process when cfg["objs"] is set
    SHARED = {}
    RUN_KW = {"offset": 0.0}
    if cfg.get("objs") and kind == "CBO":
        SHARED = dict(surrogate_model_kwargs={"n_estimators": 25}, scheduler={"type": "periodic-exp-decay", "period": 4, "rate": 0.1})
        if cfg.get("sm", "ET") not in ("ET", "RF", "TB", "RS"):
            SHARED.pop("surrogate_model_kwargs")

    def sample_rows(c, n, rs):
        """n valid rows (dicts name -> value) of the problem's space, from a private generator"""
        rows = []
        for _ in range(n):
            if c.get("space") == "floats":
                x = {nm: float(rs.uniform(0, 10)) for nm in FLOAT_NAMES}
            elif c.get("space") == "small":
                x = {"cat": SMALL_ACT[rs.randint(3)], "opt": SMALL_OPT[rs.randint(4)], "ord": [1, 2][rs.randint(2)]}
                if c.get("cond"):
                    x["child"] = ["x", "y"][rs.randint(2)]
            elif c.get("space") == "hetero":
                x = {"x": float(rs.uniform(0, 4)), "n": int(rs.randint(1, 17)), "opt": HETERO_OPT[rs.randint(5)], "reg": HETERO_REG[rs.randint(4)]}
                if c.get("cond"):
                    x["child"] = float(rs.uniform(0, 1))
            else:
                x = {"i_log": int(rs.randint(1, 65)), "r": float(rs.uniform(-1.5, 2.5)), "cat": ["a", "b", "c"][rs.randint(3)],
                     "ord": [1, 2, 4, 8][rs.randint(4)], "k": int(rs.randint(0, 10))}
                if c.get("cond"):
                    x["child"] = int(rs.randint(0, 6))
                    x["child2"] = float(rs.uniform(0, 1))
            rows.append(x)
        return rows

    def checkpoint(c, n):
        """the results table of a previous campaign of n evaluations on this problem (deterministic, same text in both processes)"""
        import pandas as pd

        rs = np.random.RandomState(20240 + n)
        recs = []
        for j, x in enumerate(sample_rows(c, n, rs)):
            y = objective(c, x)
            rec = {"p:" + k: v for k, v in x.items()}
            rec["job_id"] = j
            if isinstance(y, tuple):
                for i, yi in enumerate(y):
                    rec[f"objective_{i}"] = yi
            elif c.get("nobj", 1) == 2:
                rec["objective_0"] = rec["objective_1"] = y  # a failure label
            else:
                rec["objective"] = y
            recs.append(rec)
        df = pd.DataFrame(recs)
        for col in [c_ for c_ in df.columns if c_.startswith("objective")]:
            if df[col].map(lambda v: isinstance(v, str)).any():
                # what pandas.read_csv gives for a results.csv with failures: a column of strings ("F_k", "1.25", ...)
                df[col] = df[col].map(lambda v: v if isinstance(v, str) else repr(float(v))).astype("string")
        return df

    class Drv:
        """one search object being driven; its evaluations are numbered so that `fail_at` can make the i-th one fail.
        `over` = options that differ from the configuration under test (predecessor searches of the history scenario)"""

        def __init__(self, idx, seed=None, over=None):
            self.idx, self.props, self.count, self.s = idx, [], 0, None
            self.cfg = dict(cfg, **(over or {}))
            self.kind = self.cfg["search"]
            self.seed = seed_value(cfg) if seed is None else seed

        def evaluate(self, x):
            i = self.count
            self.count += 1
            return "F_late" if i in fail_at else objective(cfg, x)

        def build(self):
            drv, c, kind = self, self.cfg, self.kind

            async def run(job, offset=0.0):
                v = drv.evaluate(job.parameters)
                return v  # `offset` (run_function_kwargs) is accepted and must not matter

            mk = {"num_workers": 1}
            if c.get("objs"):
                mk["run_function_kwargs"] = RUN_KW
            ev = Evaluator.create(run, method="serial", method_kwargs=mk)
            common = dict(random_state=self.seed, log_dir=env["log_dir"] + ("" if self.idx == 0 else f"_{self.idx}"))
            if kind == "CBO":
                kw = dict(
                    surrogate_model=c.get("sm", "ET"),
                    acq_func=c.get("acq", "UCBd"),
                    multi_point_strategy=c.get("mps", "cl_max"),
                    initial_point_generator=c.get("design", "random"),
                    n_initial_points=c.get("n_init", 4),
                    n_points=c.get("n_points", 64),
                    moo_scalarization_strategy=c.get("moo", "Chebyshev"),
                    acq_optimizer=c.get("acq_opt", "auto"),
                    filter_failures=c.get("ff", "min"),
                    update_prior=bool(c.get("update_prior", False)),
                    update_prior_quantile=c.get("upq", 0.1),
                )
                if int(c.get("n_jobs", 1)) != 1:
                    kw["n_jobs"] = int(c["n_jobs"])
                if c.get("scaler", "auto") != "auto":
                    kw["objective_scaler"] = c["scaler"]
                if c.get("sm_kwargs"):
                    kw["surrogate_model_kwargs"] = c["sm_kwargs"]
                if c.get("objs") and kind == cfg["search"]:
                    # option OBJECTS (the very same dict / list objects for every search of this process)
                    kw.update(SHARED)
                if c.get("acq_opt", "auto") in ("ga", "mixedga"):
                    kw["acq_optimizer_freq"] = 1
                s = CBO(problem, ev, **common, **kw)
                if c.get("transfer") in ("gmm", "gmm-partial"):
                    # transfer learning from a fixed table of a previous campaign on a SMALLER space: "gmm" lacks one or two
                    # hyperparameters, "gmm-partial" (columns dropped below) at least two of the flat space
                    import pandas as pd

                    rs = np.random.RandomState(12345)
                    rows = []
                    for j in range(24):
                        # several columns of the SAME kind (two integers / two categoricals / four floats): the order in
                        # which the sampler enumerates them must not depend on the process
                        if c.get("space") == "small":
                            rows.append({"job_id": j, "p:cat": SMALL_ACT[j % 3], "p:opt": SMALL_OPT[j % 4], "objective": float(rs.rand())})
                        elif c.get("space") == "floats":
                            rows.append(dict({"job_id": j, "objective": float(rs.rand())}, **{"p:" + n: float(rs.uniform(0, 10)) for n in FLOAT_NAMES}))
                        elif c.get("space") == "hetero":
                            rows.append({"job_id": j, "p:x": float(rs.uniform(0, 4)), "p:n": int(rs.randint(1, 17)),
                                         "p:opt": HETERO_OPT[j % 5], "objective": float(rs.rand())})
                        else:
                            rows.append({"job_id": j, "p:i_log": int(rs.randint(1, 65)), "p:r": float(rs.uniform(-1.5, 2.5)),
                                         "p:k": int(rs.randint(0, 10)), "p:cat": ["a", "b", "c"][j % 3], "objective": float(rs.rand())})
                    tdf = pd.DataFrame(rows)
                    if c.get("transfer") == "gmm-partial":
                        keep = {"small": ["p:cat"], "floats": ["p:alpha"], "hetero": ["p:x"]}.get(c.get("space"), ["p:r", "p:cat"])
                        tdf = tdf[["job_id", "objective"] + keep]
                    s.fit_generative_model(tdf)
                if c.get("mode", "asktell") == "asktell":
                    s._setup_optimizer()
                if int(c.get("warm", 0)) > 0:
                    # restart from the checkpoint of a LONG previous campaign: the whole history is told at once
                    Taint.armed = False
                    df = checkpoint(c, int(c["warm"]))
                    Taint.armed = True
                    s.fit_surrogate(df)
            elif kind == "RS":
                s = RandomSearch(problem, ev, **common)
            elif kind == "REGEVO":
                s = RegularizedEvolution(problem, ev, **common, population_size=c.get("pop", 5), sample_size=c.get("sample", 3))
            elif kind == "EDS":
                from deephyper.hpo import ExperimentalDesignSearch

                s = ExperimentalDesignSearch(problem, ev, **common, n_points=c.get("n_points", 12), design=c.get("design", "random"))
                if c.get("mode", "asktell") == "asktell":
                    s._setup_optimizer()
            else:
                raise SystemExit(f"unknown search {kind}")
            self.s = s

        def record(self, X):
            for x in X:
                self.props.append([[name, enc(x[name])] for name in names])

        def round(self, k, n, tell=True):
            disturb(k)
            X = self.s.ask(n)
            self.record(X)
            if not tell:
                return
            if k in again:
                # ask again before any tell: the search must move on to new configurations (and stay reproducible)
                disturb(k + 2)
                X2 = self.s.ask(n)
                self.record(X2)
                X = X + X2
            disturb(k + 1)
            self.s.tell([Job(x, self.evaluate(x)) for x in X])

        def whole_search(self):
            disturb(self.idx)
            df = self.s.search(max_evals=sum(cfg["batches"]))
            for _, row in df.sort_values("job_id").iterrows():
                self.props.append([[n, enc(row["p:" + n])] for n in names])

    inproc = cfg.get("inproc", "none")
    if inproc == "history":
        # EARLIER searches, built from the same problem / option objects, run first in this interpreter; then the
        # search under test is built from the very same objects.  Reported: the search under test only.
        #   pre = same : the same options with another seed, first four batches (the surrogate gets fitted)
        #   pre = all  : additionally the initial design of a CBO with every initial_point_generator (same problem, same
        #                number of initial points: any process-level memo of a sampler / space / encoder is warm), an
        #                ExperimentalDesignSearch with the design under test, a RandomSearch, a RegularizedEvolution, and a
        #                short search with the options AND the seed of the search under test itself
        pseed = int(cfg["seed"]) % 1000 + 17
        plan = [(pseed, {"inproc": "none", "warm": 0, "mode": "asktell"}, cfg["batches"][:4])]
        if cfg.get("pre", "same") == "all":
            base = {"inproc": "none", "warm": 0, "mode": "asktell", "transfer": "none", "objs": False}
            first = [int(cfg.get("n_init", 4))]
            for j, dsg in enumerate(["lhs", "sobol", "halton", "hammersly", "grid", "random"]):
                plan.append((pseed + 1 + j, dict(base, search="CBO", design=dsg), first))
            plan.append((pseed + 11, dict(base, search="EDS", design=cfg.get("design", "random")), first))
            plan.append((pseed + 21, dict(base, search="RS"), [2, 2]))
            plan.append((pseed + 22, dict(base, search="REGEVO"), [3, 3, 1]))
            plan.append((int(cfg["seed"]), dict(base, design=cfg.get("design", "random")), [2]))
        done = 0
        for i, (sd, over, bs) in enumerate(plan):
            pre = Drv(1 + i, seed=sd, over=over)
            try:
                pre.build()
                for k, n in enumerate(bs):
                    pre.round(k, n, tell=(i == 0 or len(bs) > 1))  # the design-only predecessors just ask their design
                done += 1
            except Exception as e:
                if i == 0:
                    out["status"] = "unavailable"
                    out["error"] = f"predecessor: {type(e).__name__}: {e}"[:300]
                    emit()
                    return
                # a predecessor of another class this tree cannot build / run (e.g. DUMMY): it simply did not happen
        out["predecessors"] = done
        drvs = [Drv(0)]
    else:
        drvs = [Drv(i) for i in range(1 if inproc == "none" else int(cfg.get("twins", 2)))]
    try:
        for d in drvs:  # every search object exists BEFORE any of them runs
            d.build()
    except Exception as e:  # configuration refused by the constructor: not available on this tree
        out["status"] = "unavailable"
        out["error"] = f"{type(e).__name__}: {e}"[:300]
        emit()
        return

    try:
        if inproc == "interleaved":
            for k, n in enumerate(cfg["batches"]):
                for d in drvs:
                    d.round(k, n)
        else:
            for d in drvs:
                if cfg.get("mode", "asktell") == "search":
                    d.whole_search()
                else:
                    for k, n in enumerate(cfg["batches"]):
                        d.round(k, n)
    except Exception as e:
        out["status"] = "raised"
        out["error"] = f"{type(e).__name__}: {e}"[:300]
    out["props"] = drvs[0].props
    if len(drvs) > 1:
        out["twins"] = [d.props for d in drvs[1:]]
    emit()


if __name__ == "__main__":
    main()
