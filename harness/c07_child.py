"""C07 child: ONE search in ONE fresh interpreter.  Run as a script by harness/c07.py:

    PYTHONHASHSEED=<h> python c07_child.py '<json cfg>' '<json env>'

cfg  = the configuration (the same text for both members of a pair):
       search, seed, seed_type, space, sm, acq, mps, design, cond, nobj, moo, batches, mode, fail, ff, acq_opt, transfer,
       fail_at (evaluation indices that fail), again (rounds with a second ask before the tell),
       inproc = none | seq | interleaved (+ twins = 2|3): several searches built from ONE problem object before any of
       them runs, then run one after the other / with alternating ask-tell rounds; their sequences are in "twins"
env  = what MUST NOT matter: {"perturb": int, "log_dir": path, "cwd": path}
Prints exactly one JSON line:
    {"status": "ok" | "unavailable" | "raised", "props": [[[name, value], ...], ...], "error": "..."}
Floats are printed by float.hex (exact).  `unavailable` = the constructor refused the configuration
(not a reproducibility statement); `raised` = ask/tell raised after `props` had been proposed.
"""
import json
import os
import random
import sys
import warnings

warnings.filterwarnings("ignore")


def enc(v):
    import numpy as np

    if isinstance(v, np.generic):  # a numpy scalar leaking out is still compared by value + kind
        v = v.item()
    if isinstance(v, bool):
        return ["b", v]
    if isinstance(v, float):
        return ["f", v.hex()]
    if isinstance(v, int):
        return ["i", v]
    return ["s", str(v)]


FLOAT_NAMES = ["alpha", "beta", "gamma", "delta"]
FLOAT_TARGET = {"alpha": 0.0, "beta": 10.0, "gamma": 4.0, "delta": 6.5}
SMALL_ACT = ["relu", "tanh", "gelu"]
SMALL_OPT = ["adam", "sgd", "rmsprop", "lion"]


def build_problem(cfg):
    import ConfigSpace as cs
    from deephyper.hpo import HpProblem

    p = HpProblem()
    if cfg.get("space") == "floats":
        # four float hyperparameters of the same kind; the optimum sits on two bounds (alpha=0, beta=10)
        for name in FLOAT_NAMES:
            p.add_hyperparameter((0.0, 10.0), name)
        return p
    if cfg.get("space") == "small":
        # small ALL-DISCRETE space with string categories (3 x 4 x 2 = 24 points): candidate sets are full of
        # duplicates and already-sampled points, and tuples of strings hash differently in every process
        c = p.add_hyperparameter(SMALL_ACT, "cat")
        p.add_hyperparameter(SMALL_OPT, "opt")
        p.add_hyperparameter([1, 2], "ord")
        if cfg.get("cond"):
            d = p.add_hyperparameter(["x", "y"], "child")
            p.add_condition(cs.EqualsCondition(d, c, "relu"))
        return p
    p.add_hyperparameter((1, 64, "log-uniform"), "i_log")
    p.add_hyperparameter((-1.5, 2.5), "r")
    c = p.add_hyperparameter(["a", "b", "c"], "cat")
    p.add_hyperparameter([1, 2, 4, 8], "ord")
    p.add_hyperparameter((0, 9), "k")
    if cfg.get("cond"):
        d = p.add_hyperparameter((0, 5), "child")
        e = p.add_hyperparameter((0.0, 1.0), "child2")
        p.add_condition(cs.EqualsCondition(d, c, "a"))
        p.add_condition(cs.InCondition(e, c, ["a", "b"]))
    return p


def objective(cfg, x):
    import math

    if cfg.get("space") == "floats":
        v = -sum((x[n] - FLOAT_TARGET[n]) ** 2 for n in FLOAT_NAMES) / 10.0
        if cfg.get("fail") and x["gamma"] > 8.0:
            return "F_k"
        if cfg.get("nobj", 1) == 2:
            return (v, -abs(x["gamma"] - x["delta"]))
        return v
    if cfg.get("space") == "small":
        v = {"relu": 0.0, "tanh": 0.5, "gelu": 0.1}[x["cat"]] + {"adam": 0.3, "sgd": 0.0, "rmsprop": -0.2, "lion": 0.3}[x["opt"]]
        v += 0.25 * x["ord"] + (0.05 if x.get("child") == "y" else 0.0)
        if cfg.get("fail") and x["opt"] == "sgd" and x["ord"] == 2:
            return "F_k"
        if cfg.get("nobj", 1) == 2:
            return (v, 1.0 - v + 0.5 * x["ord"])
        return v
    v = math.log(x["i_log"]) - x["r"] ** 2 + (1.0 if x["cat"] == "b" else 0.0) + x["ord"] / 8 + 0.05 * x["k"]
    if cfg.get("cond"):
        v += 0.1 * x.get("child", 0) + 0.3 * x.get("child2", 0.0)
    if cfg.get("fail") and x["k"] % 4 == 3:
        return "F_k"
    if cfg.get("nobj", 1) == 2:
        return (v, -0.5 * v + x["r"])
    return v


def seed_value(cfg):
    """the integer seed, optionally as a NumPy integer type (cfg["seed_type"] = "int64", "int32", "uint32", ...)"""
    import numpy as np

    t = cfg.get("seed_type", "int")
    return int(cfg["seed"]) if t == "int" else getattr(np, t)(cfg["seed"])


class Job:
    """what Search.tell iterates: `config, objective = job`"""

    def __init__(self, c, o):
        self.c, self.o = c, o

    def __iter__(self):
        return iter((self.c, self.o))


def main():
    cfg = json.loads(sys.argv[1])
    env = json.loads(sys.argv[2])
    src = os.path.join(os.environ.get("VERIF_REPO", "/repo"), "src")
    sys.path.insert(0, src)
    os.makedirs(env["cwd"], exist_ok=True)
    os.chdir(env["cwd"])
    import numpy as np

    # imports first: some third-party modules consume the global `random` generator at import time
    import deephyper
    from deephyper.evaluator import Evaluator
    from deephyper.hpo import CBO, RandomSearch, RegularizedEvolution

    assert os.path.realpath(deephyper.__file__).startswith(os.path.realpath(src)), deephyper.__file__

    pert = int(env["perturb"])
    np.random.seed(pert)
    random.seed(pert * 7 + 1)
    # shadows replay exactly what THIS script draws from the two process-global generators, so that at
    # the end "global state == shadow state" means: the code under test never consumed (or reseeded) them
    sh_np = np.random.RandomState(pert)
    sh_py = random.Random(pert * 7 + 1)
    for _ in range(pert % 13):
        np.random.rand()
        random.random()
        sh_np.rand()
        sh_py.random()

    def disturb(k):
        # the hidden state keeps moving, differently in the two processes
        for _ in range((pert + k) % 5):
            np.random.standard_normal()
            random.random()
            sh_np.standard_normal()
            sh_py.random()

    def globals_touched():
        a, b = np.random.get_state(), sh_np.get_state()
        np_same = a[0] == b[0] and (a[1] == b[1]).all() and a[2:] == b[2:]
        return {"np_global_touched": not bool(np_same), "py_global_touched": random.getstate() != sh_py.getstate()}

    out = {"status": "ok", "props": [], "error": ""}
    problem = build_problem(cfg)  # ONE problem object: every search of this process is built from it
    names = problem.hyperparameter_names
    kind = cfg["search"]
    fail_at = set(cfg.get("fail_at", []))
    again = set(cfg.get("again", []))

    # objects handed to EVERY search built in this process when cfg["objs"] is set
    SHARED = {}
    RUN_KW = {"offset": 0.0}
    if cfg.get("objs") and kind == "CBO":
        SHARED = dict(surrogate_model_kwargs={"n_estimators": 25}, scheduler={"type": "periodic-exp-decay", "period": 4, "rate": 0.1})
        if cfg.get("sm", "ET") not in ("ET", "RF", "TB", "RS"):
            SHARED.pop("surrogate_model_kwargs")

    class Drv:
        """one search object being driven; its evaluations are numbered so that `fail_at` can make the i-th one fail"""

        def __init__(self, idx, seed=None):
            self.idx, self.props, self.count, self.s = idx, [], 0, None
            self.seed = seed_value(cfg) if seed is None else seed

        def evaluate(self, x):
            i = self.count
            self.count += 1
            return "F_late" if i in fail_at else objective(cfg, x)

        def build(self):
            drv = self

            async def run(job, offset=0.0):
                v = drv.evaluate(job.parameters)
                return v  # `offset` (run_function_kwargs) is accepted and must not matter

            mk = {"num_workers": 1}
            if cfg.get("objs"):
                mk["run_function_kwargs"] = RUN_KW
            ev = Evaluator.create(run, method="serial", method_kwargs=mk)
            common = dict(random_state=self.seed, log_dir=env["log_dir"] + ("" if self.idx == 0 else f"_{self.idx}"))
            if kind == "CBO":
                kw = dict(
                    surrogate_model=cfg.get("sm", "ET"),
                    acq_func=cfg.get("acq", "UCBd"),
                    multi_point_strategy=cfg.get("mps", "cl_max"),
                    initial_point_generator=cfg.get("design", "random"),
                    n_initial_points=cfg.get("n_init", 4),
                    n_points=cfg.get("n_points", 64),
                    moo_scalarization_strategy=cfg.get("moo", "Chebyshev"),
                    acq_optimizer=cfg.get("acq_opt", "auto"),
                    filter_failures=cfg.get("ff", "min"),
                    update_prior=bool(cfg.get("update_prior", False)),
                    update_prior_quantile=cfg.get("upq", 0.1),
                )
                if cfg.get("sm_kwargs"):
                    kw["surrogate_model_kwargs"] = cfg["sm_kwargs"]
                if cfg.get("objs"):
                    # option OBJECTS (the very same dict / list objects for every search of this process)
                    kw.update(SHARED)
                if cfg.get("acq_opt", "auto") in ("ga", "mixedga"):
                    kw["acq_optimizer_freq"] = 1
                s = CBO(problem, ev, **common, **kw)
                if cfg.get("transfer") == "gmm":
                    # transfer learning from a fixed table that lacks two hyperparameters
                    import pandas as pd

                    rs = np.random.RandomState(12345)
                    rows = []
                    for j in range(24):
                        # several columns of the SAME kind (two integers / two categoricals / four floats): the order in
                        # which the sampler enumerates them must not depend on the process
                        if cfg.get("space") == "small":
                            rows.append({"job_id": j, "p:cat": SMALL_ACT[j % 3], "p:opt": SMALL_OPT[j % 4], "objective": float(rs.rand())})
                        elif cfg.get("space") == "floats":
                            rows.append(dict({"job_id": j, "objective": float(rs.rand())}, **{"p:" + n: float(rs.uniform(0, 10)) for n in FLOAT_NAMES}))
                        else:
                            rows.append({"job_id": j, "p:i_log": int(rs.randint(1, 65)), "p:r": float(rs.uniform(-1.5, 2.5)),
                                         "p:k": int(rs.randint(0, 10)), "p:cat": ["a", "b", "c"][j % 3], "objective": float(rs.rand())})
                    s.fit_generative_model(pd.DataFrame(rows))
                if cfg.get("mode", "asktell") == "asktell":
                    s._setup_optimizer()
            elif kind == "RS":
                s = RandomSearch(problem, ev, **common)
            elif kind == "REGEVO":
                s = RegularizedEvolution(problem, ev, **common, population_size=cfg.get("pop", 5), sample_size=cfg.get("sample", 3))
            elif kind == "EDS":
                from deephyper.hpo import ExperimentalDesignSearch

                s = ExperimentalDesignSearch(problem, ev, **common, n_points=cfg.get("n_points", 12), design=cfg.get("design", "random"))
                if cfg.get("mode", "asktell") == "asktell":
                    s._setup_optimizer()
            else:
                raise SystemExit(f"unknown search {kind}")
            self.s = s

        def record(self, X):
            for x in X:
                self.props.append([[name, enc(x[name])] for name in names])

        def round(self, k, n):
            disturb(k)
            X = self.s.ask(n)
            self.record(X)
            if k in again:
                # ask again before any tell: the search must move on to new configurations (and stay reproducible)
                disturb(k + 2)
                X2 = self.s.ask(n)
                self.record(X2)
                X = X + X2
            disturb(k + 1)
            self.s.tell([Job(x, self.evaluate(x)) for x in X])

        def whole_search(self):
            disturb(self.idx)
            df = self.s.search(max_evals=sum(cfg["batches"]))
            for _, row in df.sort_values("job_id").iterrows():
                self.props.append([[n, enc(row["p:" + n])] for n in names])

    inproc = cfg.get("inproc", "none")
    if inproc == "history":
        # an EARLIER search with another seed, built from the same problem / option objects, runs to its end first;
        # then the search under test is built from the very same objects.  Reported: the second one.
        pre = Drv(1, seed=int(cfg["seed"]) % 1000 + 17)
        try:
            pre.build()
            for k, n in enumerate(cfg["batches"][:4]):
                pre.round(k, n)
        except Exception as e:
            out["status"] = "unavailable"
            out["error"] = f"predecessor: {type(e).__name__}: {e}"[:300]
            print(json.dumps(out))
            return
        drvs = [Drv(0)]
    else:
        drvs = [Drv(i) for i in range(1 if inproc == "none" else int(cfg.get("twins", 2)))]
    try:
        for d in drvs:  # every search object exists BEFORE any of them runs
            d.build()
    except Exception as e:  # configuration refused by the constructor: not available on this tree
        out["status"] = "unavailable"
        out["error"] = f"{type(e).__name__}: {e}"[:300]
        print(json.dumps(out))
        return

    try:
        if inproc == "interleaved":
            for k, n in enumerate(cfg["batches"]):
                for d in drvs:
                    d.round(k, n)
        else:
            for d in drvs:
                if cfg.get("mode", "asktell") == "search":
                    d.whole_search()
                else:
                    for k, n in enumerate(cfg["batches"]):
                        d.round(k, n)
    except Exception as e:
        out["status"] = "raised"
        out["error"] = f"{type(e).__name__}: {e}"[:300]
    out["props"] = drvs[0].props
    if len(drvs) > 1:
        out["twins"] = [d.props for d in drvs[1:]]
    out.update(globals_touched())
    print(json.dumps(out))


if __name__ == "__main__":
    main()
