"""C16 — early discarding never cuts the best evaluation and respects the step budget.

Real code: the stoppers of deephyper.stopper driven through `RunningJob.record()` / `RunningJob.stopped()`
(created with `Job.create_running_job`, i.e. one deep copy of the stopper per job) on one shared MemoryStorage.

L2: every run is replayed on `Model/Stopper.lean` (Drivers/C16.lean): after every `record` / `stopped` the
    decision (or the exception class) and the acting job's metadata dict are compared, and all metadata at
    the end.  Two request forms: "proto" (the protocol-level scheduler `protoStep` the theorems are about:
    budgets 1,2,3,…, record then stopped, a job told to stop is not stepped again) and "script" (raw
    `record`/`stopped` sequences incl. off-protocol ones: stop before record, double stop, repeated budgets).
L3: the property's clauses evaluated on the real trace (no model involved):
    budget        stopped() is True at the max_steps-th observation (and later)
    failure       stopped() is True right after a non-Number objective
    best-survives SHA(min_competing=0) / Median: an evaluation whose objective at budget b is >= every objective
                  other evaluations recorded at budget b so far is not stopped at b (< max_steps)
    sha-topk      SHA stops at b only if at least max(1, n//rf) of the n competitors recorded at b are better
    same-budget   metadata `_completed_rung_r` of a job holds the objective that job observed at the r-th
                  decision budget (or, SHA, the failure it observed last)
    reference     the published ASHA / median rule evaluated on the trace history never continues where the
                  implementation stops
    Numeric objectives are compared in the extended order -inf < finite < +inf (a diverged run reports -inf; both
    infinities are `numbers.Number`s and competitors like any other); nan has no order and is not generated.
    "Competitors recorded at that budget" of an evaluation that failed LATER: the property text does not say whether
    they still count (SuccessiveHalving withdraws them, Median keeps them), so sha-topk / reference are evaluated under
    both readings and raised only when they fail under both; best-survives uses the reading with more competitors.
search(ck): called when the correspondence (or a proof) broke and `run` found no failing input: typed small worlds on
    the real code around the disagreeing scenarios, judged with the same oracle (see `search`).
"""
import copy
import itertools
import json
import math
import os
import time
from concurrent.futures import ProcessPoolExecutor
from fractions import Fraction
from numbers import Number

from . import common
from .common import rat

KINDS = {"idle": "IdleStopper", "const": "ConstantStopper", "sha": "SuccessiveHalvingStopper", "median": "MedianStopper"}
DEFAULTS = {
    "sha": {"min_steps": 1, "rf": 3, "mesr": 0, "min_competing": 0, "min_fully_completed": 0},
    "median": {"min_steps": 1, "min_competing": 10, "interval": 1},
    "const": {}, "idle": {},
}
EPS_DEFAULT = 1e-10


# --------------------------------------------------------------------------- real code


def build_stopper(P):
    import deephyper.stopper as S

    k = P["kind"]
    if k == "idle":
        return S.IdleStopper(max_steps=P["max_steps"])
    if k == "const":
        return S.ConstantStopper(max_steps=P["max_steps"], stop_step=P["stop_step"])
    if k == "sha":
        return S.SuccessiveHalvingStopper(
            max_steps=P["max_steps"], min_steps=P.get("min_steps", 1), reduction_factor=P.get("rf", 3),
            min_early_stopping_rate=P.get("mesr", 0), min_competing=P.get("min_competing", 0),
            min_fully_completed=P.get("min_fully_completed", 0), epsilon=P.get("eps", EPS_DEFAULT))
    if k == "median":
        return S.MedianStopper(
            max_steps=P["max_steps"], min_steps=P.get("min_steps", 1), min_competing=P.get("min_competing", 10),
            interval_steps=P.get("interval", 1), epsilon=P.get("eps", EPS_DEFAULT))
    raise common.HarnessError(f"unknown stopper kind {k}")


class Real:
    """one search: shared MemoryStorage, one RunningJob (+ private stopper copy) per job"""

    def __init__(self, P):
        from deephyper.evaluator.storage import MemoryStorage

        self.storage = MemoryStorage()
        self.sid = self.storage.create_new_search()
        self.stopper = build_stopper(P)
        self.rjobs, self.ids = [], []

    def add(self):
        from deephyper.evaluator import Job

        jid = self.storage.create_new_job(self.sid)
        job = Job(jid, {}, None, self.storage)
        self.rjobs.append(job.create_running_job(self.stopper))
        self.ids.append(jid)

    def md(self, j):
        if j >= len(self.ids):
            return None
        return enc_md(self.storage.load_job(self.ids[j])["metadata"])

    def view(self, j):
        """what RunningJob.objective, stopper.step and stopper.observations show (base-class machinery)"""
        if j >= len(self.rjobs):
            return {}
        rj = self.rjobs[j]
        try:
            obj = enc_obj(rj.objective)
        except IndexError:
            obj = None
        try:
            step = rj.stopper.step
        except IndexError:
            step = None
        obs = rj.stopper.observations
        return {"obj": obj, "step": step, "nobs": len(obs[1]), "_observations": obs}

    def rec(self, j, b, o):
        if j >= len(self.rjobs):
            return "KeyError"
        try:
            self.rjobs[j].record(b, o)
            return None
        except Exception as e:
            return type(e).__name__

    def stop(self, j):
        if j >= len(self.rjobs):
            return "KeyError"
        try:
            r = self.rjobs[j].stopped()
            return bool(r)
        except Exception as e:
            return type(e).__name__

    def final(self):
        return [self.md(j) for j in range(len(self.ids))]


NUMTYPES = ["int", "float", "bool", "float64", "float32", "float16", "int64", "int32"]


def materialize(o):
    """case value -> the object handed to job.record: plain floats / failure strings as they are, `{"num": type, "v": x}` as
    the numeric type a run-function may realistically pass (Python int/float/bool, NumPy scalars)"""
    if isinstance(o, dict) and "num" in o:
        import numpy as np

        t, v = o["num"], o["v"]
        if t == "int":
            return int(v)
        if t == "float":
            return float(v)
        if t == "bool":
            return bool(v)
        return getattr(np, t)(v)
    return o


def plain(o):
    """the value the model sees (it classifies objectives by value)"""
    if isinstance(o, dict) and "num" in o:
        return float(bool(o["v"])) if o["num"] == "bool" else float(o["v"])
    return o


def enc_obj(o):
    """wire form of an objective (also as stored in the rung metadata): a Number by its value, anything else a failure"""
    import numpy as np

    if isinstance(o, (bool, np.bool_)):
        return rat(int(o))
    if isinstance(o, Number):
        if isinstance(o, (int, np.integer)):
            return rat(int(o))
        f = float(o)
        if math.isinf(f):
            return "inf" if f > 0 else "-inf"      # the two ordered non-finite floats (ERat.posInf / ERat.negInf)
        if math.isnan(f):
            return "nan"                           # never generated; a changed tree may store one (compared as text)
        return rat(f)
    return {"F": str(o)}


def enc_md(md):
    return {k: (bool(v) if k == "_completed" else enc_obj(v)) for k, v in md.items()}


def norm_md(md):
    """model metadata -> same normal form (rationals reduced)"""
    if md is None:
        return None
    out = {}
    for k, v in md.items():
        if isinstance(v, str) and v in ("inf", "-inf", "nan"):
            out[k] = v
        elif isinstance(v, str):
            f = common.unrat(v)
            out[k] = f"{f.numerator}/{f.denominator}"
        else:
            out[k] = v
    return out


def wire_P(P):
    w = dict(P)
    w["eps"] = rat(P.get("eps", EPS_DEFAULT)) if P["kind"] in ("sha", "median") else "0/1"
    return w


class Steps(list):
    """the steps of a run + what the stopper's own accessors showed wrongly (see Runner.step)"""
    view_bad = ()


class Runner:
    """protocol-level run on the real code: budgets 1,2,3,…, record then stopped, halted jobs are skipped.
    steps = [(job, budget, objective, decision, metadata of the acting job after the step)]"""

    def __init__(self, P, curves, light=False):
        self.P, self.curves, self.light = P, curves, light    # light: decisions only (no accessor views, no per-step metadata)
        self.R = Real(P)
        self.nobs, self.halted = [], []
        self.trace, self.steps, self.wire_events, self.events = [], Steps(), [], []
        self.raw, self.view_bad = {}, []   # objectives recorded per job; violations of "the stopper shows the raw objective"

    def add(self):
        self.R.add()
        self.nobs.append(0)
        self.halted.append(False)
        self.trace.append({"r": None, "md": None if self.light else self.R.md(0)})
        self.wire_events.append(["add"])
        self.events.append(["add"])

    def live(self):
        return [j for j in range(len(self.nobs)) if not self.halted[j] and self.nobs[j] < len(self.curves[j])]

    def step(self, j):
        R, nobs = self.R, self.nobs
        if j >= len(nobs) or nobs[j] >= len(self.curves[j]):
            raise common.HarnessError(f"bad schedule: job {j} has no step left")
        real_o = materialize(self.curves[j][nobs[j]])     # what record() receives
        o = plain(self.curves[j][nobs[j]])                # its value (what the model and the oracle see)
        self.wire_events.append(["step", j, enc_obj(o)])
        self.events.append(["step", j])
        if self.halted[j]:
            self.trace.append({"r": "skip", "md": R.md(j)})
            return
        b = nobs[j] + 1
        nobs[j] += 1
        e = R.rec(j, b, real_o)
        if e is not None:
            self.halted[j] = True  # record() raised: the run-function is dead
            md = R.md(j)
            self.trace.append({"r": e, "md": md})
            self.steps.append((j, b, o, e, md))
            return
        if self.light:
            d = R.stop(j)
            if d is not False:
                self.halted[j] = True
            self.steps.append((j, b, o, d, None))
            return
        v = R.view(j)
        self.raw.setdefault(j, []).append(o)
        obs = v.pop("_observations")
        if v["obj"] != enc_obj(o) or v["step"] != b or [enc_obj(x) for x in obs[1]] != [enc_obj(x) for x in self.raw[j]] \
                or list(obs[0]) != list(range(1, len(self.raw[j]) + 1)):
            self.view_bad.append({"job": j, "budget": b, "recorded": enc_obj(o), "RunningJob.objective": v["obj"], "stopper.step": v["step"],
                                  "stopper.observations": [list(obs[0]), [enc_obj(x) for x in obs[1]]]})
        d = R.stop(j)
        if d is not False:
            self.halted[j] = True
        md = R.md(j)
        self.trace.append({"r": d, "md": md, **v})
        self.steps.append((j, b, o, d, md))

    def result(self):
        self.steps.view_bad = self.view_bad
        return self.trace, self.R.final(), self.steps, self.wire_events


def run_proto_real(P, curves, events, light=False):
    """events: ["add"] | ["step", j]; the n-th step of job j observes curves[j][n] at budget n+1."""
    rn = Runner(P, curves, light)
    for ev in events:
        if ev[0] == "add":
            rn.add()
        else:
            rn.step(ev[1])
    return rn.result()


def run_script_real(P, script):
    R = Real(P)
    trace = []
    for ev in script:
        if ev[0] == "add":
            R.add()
            trace.append({"r": None, "md": None})
        elif ev[0] == "rec":
            e = R.rec(ev[1], ev[2], materialize(ev[3]))
            trace.append({"r": e, "md": R.md(ev[1])})
        else:
            d = R.stop(ev[1])
            trace.append({"r": d, "md": R.md(ev[1])})
    return trace, R.final()


# --------------------------------------------------------------------------- L3 oracle (real trace only)


def is_num(o):
    return isinstance(o, Number)


def is_inf(o):
    return isinstance(o, Number) and not isinstance(o, bool) and math.isinf(float(o))


def xnum(o):
    """a numeric objective in the extended order -inf < finite < +inf: exact Fraction, or the float infinity
    (Python compares and adds Fractions and float infinities exactly: `Fraction(1, 2) < inf`, `inf + Fraction(...) == inf`)"""
    f = float(o)
    return f if math.isinf(f) else Fraction(o)


def median_ref(comp):
    """median of a sorted list in the extended order -> (value, upper middle); value None = undefined (the two middle
    values are -inf and +inf: any number is a median)"""
    n = len(comp)
    if n % 2:
        return comp[n // 2], comp[n // 2]
    a, b = comp[n // 2 - 1], comp[n // 2]
    if isinstance(a, float) and isinstance(b, float) and a != b:
        return None, b
    return (a + b) / 2, b


def decision_budget(P, r):
    if P["kind"] == "sha":
        return (P.get("min_steps", 1) - 1) + P.get("rf", 3) ** (P.get("mesr", 0) + r)
    return P.get("min_steps", 1) + r * P.get("interval", 1)


def rung_of_budget(P, b):
    for r in range(0, 64):
        d = decision_budget(P, r)
        if d == b:
            return r
        if d > b:
            return None
    return None


def _same_budget(P, idx, jj, md, h):
    out = []
    for key, val in (md or {}).items():
        if not key.startswith("_completed_rung_"):
            continue
        r = int(key[len("_completed_rung_"):])
        db = decision_budget(P, r)
        want = enc_obj(h[db - 1]) if 1 <= db <= len(h) else None
        last = enc_obj(h[-1]) if h else None
        ok = val == want or (P["kind"] == "sha" and isinstance(val, dict) and val == last)
        if not ok:
            out.append(("same-budget", {"step": idx, "job": jj, "rung": r, "decision_budget": db, "stored": val, "observed_there": want}))
    return out


def oracle(P, steps, final=None):
    """-> list of (clause, detail).  `steps` = [(job, budget, objective, decision, metadata of that job after the step)]"""
    bad = []
    for vb in list(getattr(steps, "view_bad", ()))[:1]:
        # RunningJob.objective / stopper.step / stopper.observations must show the raw (budget, objective) just recorded
        bad.append(("objective-is-raw", vb))
    kind, ms = P["kind"], P["max_steps"]
    eps = Fraction(P.get("eps", EPS_DEFAULT)) if kind in ("sha", "median") else Fraction(0)
    seen = {}        # budget -> list of (job, objective) recorded so far (in order)
    hist = {}        # job -> list of objectives
    failed = set()
    for idx, (j, b, o, d, md) in enumerate(steps):
        hist.setdefault(j, []).append(o)
        if not isinstance(d, bool):
            bad.append(("raises", {"step": idx, "job": j, "budget": b, "error": d}))
            continue
        if not is_num(o):
            failed.add(j)
            if d is not True:
                bad.append(("failure", {"step": idx, "job": j, "budget": b}))
        elif b >= ms and d is not True:
            bad.append(("budget", {"step": idx, "job": j, "budget": b}))
        if is_num(o):
            others = [v for (jj, v) in seen.get(b, []) if jj != j and is_num(v)]
            live_others = [v for (jj, v) in seen.get(b, []) if jj != j and is_num(v) and jj not in failed]
            q = xnum(o)
            early = d is True and b < ms
            if kind == "median" or (kind == "sha" and P.get("min_competing", 0) == 0):
                if early and all(xnum(v) <= q for v in others):
                    bad.append(("best-survives", {"step": idx, "job": j, "budget": b, "objective": o, "others_at_budget": others}))
            # competitors "recorded at that budget": the implementation forgets the rung entries of evaluations
            # that failed later (SHA rewrites them, Median keeps them); the clauses are only raised when they fail
            # under both readings, so neither convention can cause a false alarm
            variants = [live_others, others]
            if kind == "sha" and P.get("min_competing", 0) == 0 and early:
                res = []
                for comp_others in variants:
                    n = len(comp_others) + 1
                    k = max(1, n // P.get("rf", 3))
                    better = sum(1 for v in comp_others if xnum(v) > q)
                    res.append((better >= k, {"n": n, "k": k, "better": better}))
                if not any(ok for ok, _ in res):
                    bad.append(("sha-topk", {"step": idx, "job": j, "budget": b, "objective": o, **res[0][1]}))
            # reference rule (published ASHA / median) on the history: must not continue where the code stops
            if early and kind in ("sha", "median"):
                r = rung_of_budget(P, b)
                ref_stop = False
                if r is not None:
                    for comp_others in variants:
                        comp = sorted([xnum(v) for v in comp_others] + [q])
                        if kind == "sha":
                            if P.get("min_fully_completed", 0) == 0 or _fully_completed(steps[: idx + 1], ms) >= P.get("min_fully_completed", 0):
                                if len(comp) < P.get("min_competing", 0):
                                    ref_stop = True  # bootstrap rule of the implementation (documented, excluded from best-survives)
                                else:
                                    k = max(1, len(comp) // P.get("rf", 3))
                                    ref_stop = ref_stop or not (q + eps >= comp[-k])
                        else:
                            if len(comp) >= P.get("min_competing", 10):
                                med, upper = median_ref(comp)
                                # an undefined median (middle values -inf, +inf) prunes nothing that reaches the upper one
                                ref_stop = ref_stop or not (q + eps >= (upper if med is None else med))
                if not ref_stop:
                    bad.append(("reference", {"step": idx, "job": j, "budget": b, "objective": o, "rung": r}))
        seen.setdefault(b, []).append((j, o))
        # same-budget: every stored rung value is what that job observed at the rung's decision budget
        if kind in ("sha", "median"):
            bad += _same_budget(P, idx, j, md, hist.get(j, []))
    if final is not None and kind in ("sha", "median"):
        for jj, md in enumerate(final):
            bad += _same_budget(P, len(steps), jj, md, hist.get(jj, []))
    return bad


def _fully_completed(steps, ms):
    return sum(1 for (_, b, o, d, _) in steps if d is True and is_num(o) and b >= ms)


def has_inf(case):
    """input-class predicate of a (shrunk) case: some recorded objective is -inf / +inf (the shrinker first tries
    to replace them by finite values beyond the range of the others, so the tag survives only where it matters)"""
    if not case:
        return False
    vals = [plain(v) for cur in case.get("curves", []) for v in cur] + [plain(e[3]) for e in case.get("script", []) if e[0] == "rec"]
    return any(is_inf(v) for v in vals)


def fingerprint(P, clause, case=None):
    opts = []
    for k, dflt in DEFAULTS[P["kind"]].items():
        v = P.get(k, dflt)
        if v != dflt:
            opts.append(f"{k}={v}")
    if P["kind"] == "const":
        opts.append("stop_step<max_steps" if P["stop_step"] < P["max_steps"] else "stop_step>=max_steps")
    if has_inf(case):
        opts.append("objectives=inf")
    return f"C16|{clause}|{KINDS[P['kind']]}.stop|{','.join(opts) or 'defaults'}"


# --------------------------------------------------------------------------- shrinking


def case_fails(case, clause):
    try:
        _, final, steps, _ = run_proto_real(case["P"], case["curves"], case["events"])
    except common.HarnessError:
        return False
    return any(c == clause for c, _ in oracle(case["P"], steps, final))


def shrink(case, clause, budget=400):
    """greedy: fewer events, fewer jobs, default / smaller options, small-integer objectives"""
    best = copy.deepcopy(case)
    tries = 0

    def attempt(c):
        nonlocal best, tries
        tries += 1
        if tries > budget:
            return False
        c = normalise(c)
        if c is not None and case_fails(c, clause):
            best = c
            return True
        return False

    changed = True
    while changed and tries <= budget:
        changed = False
        # drop one event
        for i in range(len(best["events"]) - 1, -1, -1):
            c = copy.deepcopy(best)
            del c["events"][i]
            if attempt(c):
                changed = True
                break
        if changed:
            continue
        # options towards the default / smaller
        P = best["P"]
        for k, dflt in DEFAULTS[P["kind"]].items():
            v = P.get(k, dflt)
            if v == dflt:
                continue  # an option at its default is minimal
            cands = [dflt]
            if isinstance(v, int) and v > 0 and v - 1 != dflt:
                cands.append(v - 1)
            for nv in cands:
                if nv == v or (k in ("rf",) and nv < 2) or (k in ("min_steps", "interval") and nv < 1):
                    continue
                c = copy.deepcopy(best)
                c["P"][k] = nv
                if attempt(c):
                    changed = True
                    break
            if changed:
                break
        if changed:
            continue
        for nm in (4, 9):
            if nm < P["max_steps"]:
                c = copy.deepcopy(best)
                c["P"]["max_steps"] = nm
                if attempt(c):
                    changed = True
                    break
        if changed:
            continue
        # infinite objectives -> finite values beyond the range of the others (is the failure about infinities at all?)
        vals = sorted({v for cur in best["curves"] for v in cur if is_num(v) and not is_inf(v)})
        if any(is_inf(v) for cur in best["curves"] for v in cur):
            lo, hi = (vals[0] - 1.0, vals[-1] + 1.0) if vals else (-1.0, 1.0)
            c = copy.deepcopy(best)
            c["curves"] = [[(lo if v < 0 else hi) if is_inf(v) else v for v in cur] for cur in c["curves"]]
            if attempt(c):
                changed = True
                continue
        # objectives -> small integers keeping the order (the infinities stay where they are)
        ranks = {v: float(i) for i, v in enumerate(vals)}
        if any(ranks[v] != v for v in vals):
            c = copy.deepcopy(best)
            c["curves"] = [[ranks[v] if (is_num(v) and not is_inf(v)) else v for v in cur] for cur in c["curves"]]
            if attempt(c):
                changed = True
    return best


def normalise(case):
    """drop jobs that never step, renumber, cut curves to the steps used; None if the schedule is malformed"""
    evs = case["events"]
    nadd = sum(1 for e in evs if e[0] == "add")
    used = {}
    added = 0
    for e in evs:
        if e[0] == "add":
            added += 1
        else:
            if e[1] >= added:
                return None
            used[e[1]] = used.get(e[1], 0) + 1
    keep = [j for j in range(nadd) if used.get(j, 0) > 0]
    if not keep:
        return None
    ren = {j: i for i, j in enumerate(keep)}
    out, seen_add = [], 0
    for e in evs:
        if e[0] == "add":
            if seen_add in ren:
                out.append(["add"])
            seen_add += 1
        else:
            out.append(["step", ren[e[1]]])
    curves = [case["curves"][j][: used[j]] for j in keep]
    return {"P": case["P"], "curves": curves, "events": out}


# --------------------------------------------------------------------------- generators


def grid(x):
    return round(x * 8) / 8.0


def curve_families(rng, njobs, length, family):
    """-> list of curves (one list of objectives per job)"""
    cs = []
    if family == "monotone":
        for j in range(njobs):
            a, c = rng.choice([0.125, 0.25, 0.5, 1.0]), rng.choice([0.0, 0.125, 0.5, 1.0, 2.0])
            cs.append([grid(c + a * s) for s in range(1, length + 1)])
    elif family == "dominating":  # job j+1 better than job j at every budget (the defect's shape)
        for j in range(njobs):
            cs.append([grid(0.125 * s + 0.125 * j * (1 if rng.random() < 0.8 else 0)) for s in range(1, length + 1)])
        if rng.random() < 0.5:
            rng.shuffle(cs)
    elif family == "crossing":
        for j in range(njobs):
            if j % 2 == 0:
                cs.append([grid(2.0 + 0.125 * s) for s in range(1, length + 1)])
            else:
                cs.append([grid(0.5 * s * rng.choice([1, 2])) for s in range(1, length + 1)])
    elif family == "constant":
        for j in range(njobs):
            v = rng.choice([0.0, 1.0, 1.0, 2.0, -1.0])
            cs.append([v] * length)
    elif family == "noisy":
        for j in range(njobs):
            cs.append([grid(rng.uniform(-2, 2)) for _ in range(length)])
    elif family == "numtypes":   # the numeric types a run-function passes to job.record (the model classifies by value)
        for j in range(njobs):
            cur = []
            for s in range(1, length + 1):
                ty = rng.choice(NUMTYPES)
                if ty in ("int", "int64", "int32"):
                    v = float(rng.randint(-2, 6))
                elif ty == "bool":
                    v = float(rng.random() < 0.5)
                else:
                    v = grid(rng.uniform(-2, 4))
                cur.append({"num": ty, "v": v})
            cs.append(cur)
    elif family == "failures":
        for j in range(njobs):
            base = [grid(rng.uniform(0, 3)) for _ in range(length)]
            if rng.random() < 0.6:
                k = rng.randrange(length)
                base[k] = rng.choice(["F", "F_oom", "F"])
                if rng.random() < 0.3 and k + 1 < length:
                    base[k + 1] = "F"
            cs.append(base)
    elif family == "infinite":
        # runs that diverge: objective = -loss = -inf from some step on (a legal float and a competitor like any other),
        # occasionally +inf; next to finite curves, so that infinite values sit below / above / among the finite ones
        for j in range(njobs):
            base = [grid(rng.uniform(0, 3)) for _ in range(length)]
            x = rng.random()
            if x < 0.45:
                k = rng.randrange(length) if rng.random() < 0.6 else 0
                base[k:] = [-INF] * (length - k)
            elif x < 0.6:
                k = rng.randrange(length) if rng.random() < 0.5 else 0
                base[k:] = [INF] * (length - k)
            elif x < 0.7:
                base[rng.randrange(length)] = rng.choice([-INF, INF])
            if rng.random() < 0.1:
                base[rng.randrange(length)] = "F"
            if rng.random() < 0.15:     # the same values as NumPy scalars (a loss computed in float32 overflows to inf earlier)
                ty = rng.choice(["float64", "float32", "float16"])
                base = [{"num": ty, "v": v} if is_num(v) else v for v in base]
            cs.append(base)
    elif family == "typed":
        # few distinct levels (ties, exact top-k boundaries) x where the run fails, if it does: at a decision budget, between
        # two decision budgets, never -- several evaluations of one search failing at different points of their curves
        for j in range(njobs):
            cs.append(typed_curve((rng.choice([0.0, 1.0, 1.0, 2.0, 3.0, -INF] if rng.random() < 0.3 else [0.0, 1.0, 2.0, 3.0]),
                                   rng.choice([None, None, None] + list(range(2, length + 1)))), length))
    else:
        raise ValueError(family)
    return cs


INF = float("inf")


def typed_curve(t, length):
    """(level, failure budget or None) -> a constant curve at that level that fails at that budget"""
    lv, fp = t
    if fp is None or fp > length:
        return [lv] * length
    return [lv] * (fp - 1) + ["F"]


FAMILIES = ["monotone", "dominating", "crossing", "constant", "noisy", "failures", "numtypes", "infinite", "typed"]


def gen_params(rng, kind=None, max_steps=None):
    kind = kind or rng.choice(["sha", "sha", "median", "median", "const", "idle"])
    P = {"kind": kind, "max_steps": max_steps or rng.choice([4, 9, 27])}
    if kind == "const":
        P["stop_step"] = rng.choice([1, 2, 3, 5, 9, 30])
    elif kind == "sha":
        P["min_steps"] = rng.choice([1, 1, 2, 3])
        P["rf"] = rng.choice([2, 3, 4])
        P["mesr"] = rng.choice([0, 0, 0, 1])
        P["min_competing"] = rng.choice([0, 0, 0, 0, 1, 2])
        P["min_fully_completed"] = rng.choice([0, 0, 0, 1, 2])
        P["eps"] = rng.choice([EPS_DEFAULT, EPS_DEFAULT, 0.0, 0.25])
    elif kind == "median":
        P["min_steps"] = rng.choice([1, 1, 2, 3])
        P["interval"] = rng.choice([1, 1, 2, 3])
        P["min_competing"] = rng.choice([0, 1, 2, 2, 3])
        P["eps"] = rng.choice([EPS_DEFAULT, EPS_DEFAULT, 0.0, 0.25])
    return P


def sequential_events(njobs, lengths, lazy=True):
    evs = []
    if not lazy:
        evs += [["add"]] * njobs
    for j in range(njobs):
        if lazy:
            evs.append(["add"])
        evs += [["step", j]] * lengths[j]
    return evs


def random_interleaving(rng, njobs, lengths, stagger):
    """jobs join over time (stagger) and step in random order"""
    evs, added, left = [], 0, list(lengths)
    while True:
        live = [j for j in range(added) if left[j] > 0]
        can_add = added < njobs
        if not live and not can_add:
            break
        if can_add and (not live or rng.random() < stagger):
            evs.append(["add"])
            added += 1
            continue
        j = rng.choice(live)
        evs.append(["step", j])
        left[j] -= 1
    return evs


def exhaustive_runs(P, curves, limit=None, rng=None):
    """every step-interleaving of the jobs (all created up front), pruned by the real code's own decisions
    (a job that was told to stop, or whose curve is exhausted, is no longer schedulable).  Lexicographic
    enumeration with one fresh real run per maximal schedule.  Yields Runner objects.  With `limit`, stops
    after that many schedules (the caller then samples the rest)."""
    n = len(curves)
    prefix = []
    count = 0
    while True:
        rn = Runner(P, curves)
        for _ in range(n):
            rn.add()
        lives = []
        for j in prefix:
            lives.append(rn.live())
            rn.step(j)
        while True:
            lv = rn.live()
            if not lv:
                break
            lives.append(lv)
            rn.step(lv[0])
        yield rn
        count += 1
        if limit is not None and count >= limit:
            return
        picks = [e[1] for e in rn.events if e[0] == "step"]
        # next schedule in lexicographic order
        i = len(picks) - 1
        while i >= 0:
            nxt = [j for j in lives[i] if j > picks[i]]
            if nxt:
                prefix = picks[:i] + [nxt[0]]
                break
            i -= 1
        if i < 0:
            return


# --------------------------------------------------------------------------- small typed worlds


def world_length(P):
    """budgets 1..L: two decision budgets and the budget after each (capped by max_steps and 9)"""
    if P["kind"] not in ("sha", "median"):
        return min(P["max_steps"], 4)
    return max(1, min(P["max_steps"], decision_budget(P, 1) + 1, 9))


def job_types(P, levels):
    """(level, failure budget | None): constant curves at a few levels (ties, exact top-k / median boundaries) that never fail,
    fail between two decision budgets, or fail exactly at the next decision budget -- after having passed the first one"""
    L = world_length(P)
    if P["kind"] in ("sha", "median"):
        d0, d1 = decision_budget(P, 0), decision_budget(P, 1)
        fps = sorted({b for b in (d0 + 1, d1, d1 + 1) if d0 < b <= L})
    else:
        fps = list(range(1, L + 1))
    return [(lv, fp) for lv in levels for fp in [None] + fps]


def typed_worlds(P, levels, nmax, interleave_upto=0):
    """every ordered tuple of <= nmax typed jobs, run one after the other (and, for small tuples, also round-robin):
    -> (curves, events, tag)"""
    L = world_length(P)
    types = job_types(P, levels)
    for n in range(1, nmax + 1):
        for tup in itertools.product(types, repeat=n):
            curves = [typed_curve(t, L) for t in tup]
            lengths = [len(c) for c in curves]
            yield curves, sequential_events(n, lengths, lazy=False), "typed-sequential"
            if 2 <= n <= interleave_upto:
                evs = [["add"]] * n
                for b in range(max(lengths)):
                    evs += [["step", j] for j in range(n) if b < lengths[j]]
                yield curves, evs, "typed-round-robin"


def gen_scripts(rng, count):
    """raw record/stopped sequences, including off-protocol ones (L2 only)"""
    for _ in range(count):
        P = gen_params(rng, max_steps=rng.choice([4, 9]))
        if rng.random() < 0.08 and P["kind"] == "median":
            P["interval"] = 0
        if rng.random() < 0.05 and P["kind"] == "sha":
            P["rf"] = rng.choice([0, 1])
        njobs = rng.randint(1, 3)
        script = [["add"]] * njobs
        b = [0] * njobs
        for _ in range(rng.randint(1, 14)):
            j = rng.randrange(njobs + (1 if rng.random() < 0.03 else 0))
            x = rng.random()
            if x < 0.5:
                bj = (b[j] + 1) if j < njobs else 1
                if rng.random() < 0.15:
                    bj = rng.choice([0, bj, bj + 1, bj + 2, 30])
                if j < njobs:
                    b[j] = bj
                o = grid(rng.uniform(-1, 3)) if rng.random() < 0.88 else "F"
                if o != "F" and rng.random() < 0.12:
                    o = rng.choice([-INF, -INF, INF])
                elif o != "F" and rng.random() < 0.3:
                    ty = rng.choice(NUMTYPES)
                    o = {"num": ty, "v": float(int(o)) if ty.startswith("int") else (float(o > 1) if ty == "bool" else o)}
                script.append(["rec", j, bj, o])
                if rng.random() < 0.85:
                    script.append(["stop", j])
            else:
                script.append(["stop", j])
        yield P, script


# --------------------------------------------------------------------------- the check


def _cmp_trace(case, real_trace, real_final, rep):
    """-> None (model and implementation agree on every event and on the final metadata) or the first difference"""
    mt = rep["trace"]
    if len(mt) != len(real_trace):
        return {"what": "trace length", "impl": len(real_trace), "model": len(mt)}
    for i, (a, m) in enumerate(zip(real_trace, mt)):
        if a["r"] != m["r"] or (a["md"] is not None and norm_md(m["md"]) != a["md"]):
            return {"event": i, "impl": a, "model": {"r": m["r"], "md": norm_md(m["md"])}}
        if "obj" in a and (norm_md({"o": m.get("obj")})["o"] != a["obj"] or m.get("step") != a["step"] or m.get("nobs") != a["nobs"]):
            return {"event": i, "what": "RunningJob.objective / stopper.step / len(observations)",
                    "impl": {k: a[k] for k in ("obj", "step", "nobs")}, "model": {k: m.get(k) for k in ("obj", "step", "nobs")}}
    mf = [norm_md(x) for x in rep["final"]]
    if mf != real_final:
        return {"what": "final metadata", "impl": real_final, "model": mf}
    return None


# The model describes MedianStopper AFTER the repair "an undefined median (middle values -inf, +inf) falls back to the lower
# middle value" (branch fix-c16).  While that defect is an OPEN known finding of the tree under test, a disagreement on a
# median run is attributed to it exactly when the model of the code BEFORE that repair (driver `"variant": "preNan"`, the
# witness of Props/C16.lean) agrees with the implementation on the whole run; it is then counted, not reported.
MEDIAN_NAN_FPS = ("C16|best-survives|MedianStopper.stop|min_competing=0,objectives=inf",
                  "C16|reference|MedianStopper.stop|min_competing=0,objectives=inf")
_OPEN = None
_SEARCHED = False
_MISMATCHED = []     # cases on which model and implementation disagreed (the scenarios `search` enumerates around)


def _median_nan_open():
    global _OPEN
    if _OPEN is None:
        fps = set()
        files = [common.VERIF / "KNOWN_FINDINGS.json"] + sorted((common.VERIF / "known_findings.d").glob("*.json"))
        for f in files:
            try:
                for e in json.loads(f.read_text()).get("open", []):
                    if e.get("property") == "C16":
                        fps.add(e.get("fingerprint"))
            except (OSError, ValueError):
                pass
        _OPEN = any(fp in fps for fp in MEDIAN_NAN_FPS)
    return _OPEN


def _settle(sink, ask_all, items):
    """items: [(case, real trace, real final | "check", request, reply)] -> cross-checks and correspondence reports"""
    doubtful = []
    for case, trace, final, req, rep in items:
        if final == "check":
            cross_check(sink, case, case["P"], trace, rep)
            continue
        diff = _cmp_trace(case, trace, final, rep)
        if diff is None:
            continue
        if case["P"]["kind"] == "median" and has_inf(case) and _median_nan_open():
            doubtful.append((case, trace, final, req, diff))
        else:
            sink.mismatch(case, diff)
    if doubtful:
        reps = ask_all([dict(d[3], variant="preNan") for d in doubtful])
        for (case, trace, final, req, diff), rep in zip(doubtful, reps):
            if _cmp_trace(case, trace, final, rep) is None:
                sink.count("L2_explained_by_known_finding:median-undefined")
            else:
                sink.mismatch(case, diff)


class _CkSink:
    """correspondence reports of the main process: also remembered for `search`"""

    def __init__(self, ck):
        self.ck = ck

    def mismatch(self, case, detail):
        if len(_MISMATCHED) < 200:
            _MISMATCHED.append(case)
        self.ck.mismatch(case, detail)

    def count(self, k, n=1):
        self.ck.count(k, n)


def _judge(ck_count, ck_hist, P, case, steps, final, report):
    """L3 on one real run; `report(clause, small_case, detail)`"""
    seen_clause = set()
    for clause, detail in oracle(P, steps, final):
        if clause in seen_clause:
            continue
        seen_clause.add(clause)
        key = f"shrunk:{P['kind']}:{clause}"
        if ck_hist.get(key, 0) >= 3:
            ck_count(f"L3_more:{P['kind']}:{clause}")  # already reported (shrunk) several times in this run
            continue
        ck_count(key)
        if clause == "raises":
            report(clause, case, detail)
        else:
            small = shrink(case, clause)
            report(clause, small, oracle_detail(small, clause))


def _explore(ck, P, curves, events, tag, pending):
    """run the real code, L3 oracle now, queue the model request"""
    trace, final, steps, wire_events = run_proto_real(P, curves, events)
    case = {"P": P, "curves": curves, "events": events}
    njobs = len(curves)
    nstop = sum(1 for s in steps if s[3] is True)
    early = sum(1 for s in steps if s[3] is True and s[1] < P["max_steps"] and is_num(s[2]))
    ck.case(case, nontrivial=njobs >= 2 and len(steps) >= 3)
    ck.count("kind:" + P["kind"])
    ck.count("schedule:" + tag)
    ck.count(f"jobs={njobs}")
    ck.count("stopped-early" if early else ("stopped" if nstop else "no-stop"))
    for s in steps:
        ck.count("decision:" + str(s[3]))
    _judge(ck.count, ck.hist, P, case, steps, final,
           lambda clause, small, detail: ck.fail(fingerprint(small["P"], clause, small), f"{KINDS[P['kind']]}: clause '{clause}' fails", small, detail))
    pending.append((case, trace, final, {"op": "proto", "P": wire_P(P), "events": wire_events}))
    q = check_request(P, steps)
    if q is not None:
        pending.append((case, steps, "check", q))


def check_request(P, steps):
    """the trace of the real run for the verified checker (only complete Boolean decisions)"""
    if any(not isinstance(d, bool) for (_, _, _, d, _) in steps) or not steps:
        return None
    return {"op": "check", "P": wire_P(P), "trace": [[j, b, enc_obj(o), d] for (j, b, o, d, _) in steps]}


CHECKER_CLAUSES = {"budget", "failure", "best-survives", "sha-topk"}


def cross_check(sink, case, P, steps, rep):
    """Lean's verified verdict on the real trace vs. the Python statement of the same four clauses"""
    py_bad = sorted({c for c, _ in oracle(P, steps) if c in CHECKER_CLAUSES})
    if bool(rep["spec"]) != (not py_bad):
        sink.mismatch(case, {"what": "verified checker (C16_checker) and the Python oracle disagree on the real trace",
                             "lean_spec": rep["spec"], "lean_first_bad_event": rep.get("bad"), "python_clauses": py_bad})
        return
    sink.count("checker:spec-true" if rep["spec"] else "checker:spec-false")


def oracle_detail(case, clause):
    _, final, steps, _ = run_proto_real(case["P"], case["curves"], case["events"])
    for c, d in oracle(case["P"], steps, final):
        if c == clause:
            d = dict(d)
            d["decisions"] = [[j, b, o, dd] for (j, b, o, dd, _) in steps]
            d["final_metadata"] = final
            return d
    return None


def _flush(ck, drv, pending):
    if not pending:
        return
    reps = drv.ask_all([p[3] for p in pending])
    _settle(_CkSink(ck), drv.ask_all, [(case, trace, final, req, rep) for (case, trace, final, req), rep in zip(pending, reps)])
    pending.clear()


def _corpus(ck, drv):
    d = common.VERIF / "corpus" / "C16"
    pending = []
    for f in sorted(d.glob("*.json")) if d.is_dir() else []:
        data = json.loads(f.read_text())
        case = data.get("case", data)
        ck.count("corpus")
        if "script" in case:
            _script_case(ck, case["P"], case["script"], pending)
        else:
            _explore(ck, case["P"], case["curves"], case["events"], "corpus", pending)
    _flush(ck, drv, pending)


def _script_case(ck, P, script, pending):
    trace, final = run_script_real(P, script)
    case = {"P": P, "script": script}
    ck.case(case, nontrivial=len(script) >= 4)
    ck.count("kind:" + P["kind"])
    ck.count("schedule:raw-script")
    for t in trace:
        if isinstance(t["r"], str):
            ck.count("error:" + t["r"])
    wire = [[e[0]] if e[0] == "add" else ([e[0], e[1], e[2], enc_obj(plain(e[3]))] if e[0] == "rec" else [e[0], e[1]]) for e in script]
    pending.append((case, trace, final, {"op": "script", "P": wire_P(P), "events": wire}))


def _quiet():
    import warnings

    import numpy as np

    warnings.simplefilter("ignore")
    np.seterr(all="ignore")


def base_machinery(ck):
    """RunningJob without a stopper, the default RunningJob, Stopper.to_json (base-class / forwarding code)"""
    from deephyper.evaluator import RunningJob
    from deephyper.evaluator.storage import MemoryStorage

    st = MemoryStorage()
    sid = st.create_new_search()
    jid = st.create_new_job(sid)
    rj = RunningJob(jid, {"x": 1}, st, None)
    seen = []
    for b, o in [(1, 0.5), (2, 0.25), (3, "F")]:
        rj.record(b, o)
        seen.append((rj.stopped(), rj.objective))
    case = {"kind": "no-stopper"}
    ck.case(case, nontrivial=False)
    ck.count("schedule:no-stopper")
    if seen != [(False, 0.5), (False, 0.25), (False, "F")]:
        ck.fail("C16|no-stopper|RunningJob.stopped|stopper=None", "a RunningJob without stopper must never stop and must show the last recorded objective", case, repr(seen))
    rj0 = RunningJob()
    rj0.record(1, 1.0)
    if rj0.stopped() is not False or rj0.objective != 1.0 or rj0.id != "0.0":
        ck.fail("C16|no-stopper|RunningJob.stopped|default", "default RunningJob()", case, repr((rj0.id, rj0.objective)))
    for P in ({"kind": "idle", "max_steps": 3}, {"kind": "const", "max_steps": 3, "stop_step": 2},
              {"kind": "sha", "max_steps": 3}, {"kind": "median", "max_steps": 3}):
        s = build_stopper(P)
        if s.to_json() != type(s).__name__:
            ck.count("to_json-differs")


def run(ck):
    _quiet()
    base_machinery(ck)
    ck.rule = ("stoppers {Idle, Constant, SuccessiveHalving, Median} x parameters of the property's quantifier "
               "(max_steps {4,9,27}, min_steps {1,2,3}, reduction_factor {2,3,4}, min_early_stopping_rate {0,1}, interval_steps {1,2,3}, "
               "min_competing {0..3}, min_fully_completed {0,1,2}, epsilon {1e-10, 0, 0.25}) x curve families "
               "(monotone, dominating, crossing, constant, noisy, failures, numeric types, infinite = runs diverging to -inf / reporting +inf, "
               "typed = few levels x failure points; finite values on a 1/8 grid so that float and exact arithmetic agree) "
               "x 1..6 jobs x {sequential lazy/up-front, every step-interleaving (<=3 jobs x <=4 steps), random staggered interleavings}; "
               "plus every ordered tuple of <=3 (thorough: <=4) typed evaluations (levels that tie or differ by one, -inf / +inf; never failing, "
               "failing between two decision budgets, failing exactly at a decision budget after having passed one), sequential and round-robin; "
               "plus raw record/stopped scripts incl. off-protocol ones; distinct by canonical (params, curves, events); "
               "non-trivial = at least 2 jobs and 3 steps")
    ck.assumptions = [
        "objectives are finite floats on a 1/8 grid, -inf / +inf, or non-Number failure markers; epsilon in {1e-10, 0, 0.25}: float `x + eps >= t` then equals the comparison in the extended order",
        "nan objectives are outside the property ('at least as good as' presupposes an order; nan has none) and are not generated",
        "an evaluation that failed after recording at a budget: counted as a competitor there or not, whichever reading lets the implementation pass (the property text leaves it open)",
        "budgets are the integers 1,2,3,... (protocol runs); parameters are integers with reduction_factor >= 2, min_steps >= 1, interval_steps >= 1 in the theorems",
        "np.sort / np.median are modelled (merge sort, middle element / mean of the two middle elements), validated by the correspondence run",
        "metadata keys are structured in the model; the injectivity of their textual rendering is C13's theorem",
        "a job that was told to stop makes no further observation (the documented run-function loop); raw scripts without this are compared with the model (L2) but not judged by the oracle",
    ]
    ck.trusted_extra = ["reference statement of the ASHA / median rules and the five oracle clauses in harness/c16.py"]
    rng = ck.rng
    t_sec = time.time()

    def lap(name):
        nonlocal t_sec
        ck.extra_cov.setdefault("section_seconds", {})[name] = round(time.time() - t_sec, 1)
        t_sec = time.time()

    with ck.driver() as drv:
        _corpus(ck, drv)
        pending = []
        # (a) exhaustive interleavings, small systems
        def med(mc, ms=1, iv=1):
            return {"kind": "median", "max_steps": 4, "min_steps": ms, "interval": iv, "min_competing": mc, "eps": EPS_DEFAULT}

        def sha(rf, ms=1, mc=0, mfc=0):
            return {"kind": "sha", "max_steps": 4, "min_steps": ms, "rf": rf, "mesr": 0, "min_competing": mc, "min_fully_completed": mfc, "eps": EPS_DEFAULT}

        key_params = [med(2), med(0), sha(2), sha(3)]
        more_params = [med(1), med(3), med(2, 2, 2), sha(2, 2, 0, 1), sha(2, 1, 2, 0), sha(4),
                       {"kind": "const", "max_steps": 4, "stop_step": 2}, {"kind": "idle", "max_steps": 4}]
        ex_plan = []
        if ck.thorough:
            for P in key_params + more_params:
                for (nj, ln) in [(2, 4), (3, 3), (3, 4)]:
                    for fam in FAMILIES:
                        if P["kind"] in ("const", "idle") and (fam not in ("failures", "numtypes") or nj > 2):
                            continue
                        if (nj, ln) == (3, 4) and (P not in key_params or fam not in ("dominating", "crossing", "failures", "infinite", "typed")):
                            continue
                        ex_plan.append((P, nj, ln, fam, rng.randrange(1 << 30), 12000))
        else:
            for P in key_params + more_params:
                for fam in ("dominating", "crossing", "failures", "numtypes", "infinite"):
                    if P["kind"] in ("const", "idle") and fam not in ("failures", "numtypes"):
                        continue
                    if fam == "infinite" and P not in key_params + more_params[:2]:
                        continue
                    ex_plan.append((P, 2, 4, fam, rng.randrange(1 << 30), 200 if fam == "infinite" else 800))
            for P in key_params + more_params[:4]:
                for fam in ("dominating", "crossing", "failures", "infinite"):
                    if fam == "infinite" and P not in key_params:
                        continue
                    ex_plan.append((P, 3, 3, fam, rng.randrange(1 << 30), 200 if fam == "infinite" else 800))
        if ck.thorough:
            with ProcessPoolExecutor(max_workers=min(14, os.cpu_count() or 2)) as pool:
                for res in pool.map(_ex_worker, ex_plan, chunksize=1):
                    _fold(ck, res)
        else:
            for item in ex_plan:
                _fold(ck, _ex_worker(item, drv))
        lap("exhaustive-interleavings")
        # (a') small typed worlds: every ordered tuple of evaluations that are tied / apart by one level, and that never fail,
        # fail between two decision budgets or fail exactly at a decision budget after having passed one
        m2, m0, s2, s3 = key_params
        typed_plan = [(m2, [0.0, 1.0, 2.0], 3, 2), (m0, [0.0, 1.0, 2.0], ck.pick(3, 4), 2), (s2, [0.0, 1.0, 2.0], ck.pick(3, 4), 2),
                      (s3, [0.0, 1.0, 2.0], ck.pick(2, 3), 2)]
        typed_plan += [(P, ck.pick([0.0, -INF, INF], [0.0, 1.0, -INF, INF]), ck.pick(2, 3), 2) for P in key_params]
        for P, levels, nmax, il in typed_plan:
            for curves, evs, tag in typed_worlds(P, levels, nmax, il):
                _explore(ck, P, curves, evs, tag, pending)
                if len(pending) >= 400:
                    _flush(ck, drv, pending)
        _flush(ck, drv, pending)
        lap("typed-worlds")
        # (b) sequential + random interleavings, larger systems
        nrand = ck.pick(700, 5000)
        for t in range(nrand):
            P = gen_params(rng)
            njobs = rng.randint(1, 6)
            fam = rng.choice(FAMILIES)
            length = min(P["max_steps"], rng.choice([4, 9, 27])) if rng.random() < 0.8 else rng.randint(1, P["max_steps"])
            curves = curve_families(rng, njobs, length, fam)
            lengths = [len(c) for c in curves]
            x = rng.random()
            if x < 0.3:
                evs, tag = sequential_events(njobs, lengths, lazy=True), "sequential-lazy"
            elif x < 0.4:
                evs, tag = sequential_events(njobs, lengths, lazy=False), "sequential-upfront"
            else:
                evs, tag = random_interleaving(rng, njobs, lengths, rng.choice([0.0, 0.1, 0.5])), "random-interleaving"
            _explore(ck, P, curves, evs, tag, pending)
            if len(pending) >= 200:
                _flush(ck, drv, pending)
        lap("random-systems")
        # (c) raw scripts (off-protocol included): correspondence only
        for P, script in gen_scripts(rng, ck.pick(800, 4000)):
            _script_case(ck, P, script, pending)
            if len(pending) >= 200:
                _flush(ck, drv, pending)
        _flush(ck, drv, pending)
        lap("raw-scripts")
    # main.py starts the deeper search only when `run` reported no failure at all; failures that are OPEN known findings of
    # the tree must not keep a broken correspondence from being searched
    open_fps = {e.get("fingerprint") for e in ck.known.get("open", []) if e.get("property") == "C16"}
    if ck.mismatches and ck.failures and all(f["fingerprint"] in open_fps for f in ck.failures):
        search(ck)


def _ex_worker(item, drv=None):
    """exhaustive interleavings for one (params, system); runs in a worker process in the thorough tier"""
    import random

    P, nj, ln, fam, seed, cap = item
    common.use_repo_sources()
    _quiet()
    rng = random.Random(seed)
    curves = curve_families(rng, nj, ln, fam)
    res = {"cases": [], "fails": [], "mismatch": [], "counts": {}}

    def cnt(k, n=1):
        res["counts"][k] = res["counts"].get(k, 0) + n

    def handle(rn, tag):
        trace, final, steps, wire_events = rn.result()
        case = {"P": P, "curves": curves, "events": rn.events}
        res["cases"].append((common.canon(case), nj >= 2 and len(steps) >= 3))
        cnt("kind:" + P["kind"])
        cnt("schedule:" + tag)
        cnt(f"jobs={nj}")
        early = any(s[3] is True and s[1] < P["max_steps"] and is_num(s[2]) for s in steps)
        cnt("stopped-early" if early else "no-early-stop")
        for s in steps:
            cnt("decision:" + str(s[3]))
        _judge(cnt, res["counts"], P, case, steps, final, lambda clause, small, detail: res["fails"].append((clause, small, detail)))
        reqs.append({"op": "proto", "P": wire_P(P), "events": wire_events})
        metas.append((case, trace, final))
        q = check_request(P, steps)
        if q is not None:
            reqs.append(q)
            metas.append((case, steps, "check"))

    reqs, metas = [], []
    n = 0
    for rn in exhaustive_runs(P, curves, limit=cap):
        handle(rn, "exhaustive-interleaving")
        n += 1
    if n >= cap:
        # too many interleavings for this system: the enumeration was cut (lexicographic prefix); sample the rest
        cnt("exhaustive-truncated-systems")
        for _ in range(cap // 4):
            rn = Runner(P, curves)
            for _ in range(nj):
                rn.add()
            while True:
                lv = rn.live()
                if not lv:
                    break
                rn.step(rng.choice(lv))
            handle(rn, "sampled-interleaving")
    else:
        cnt("exhaustive-complete-systems")
    if reqs:
        class _Sink:
            def mismatch(self, case, detail):
                if len(res["mismatch"]) < 3:
                    res["mismatch"].append((case, detail))
                cnt("L2_mismatch_raw")

            def count(self, k, n=1):
                cnt(k, n)

        def settle(ask_all):
            reps = ask_all(reqs)
            _settle(_Sink(), ask_all, [(case, trace, final, req, rep) for (case, trace, final), req, rep in zip(metas, reqs, reps)])

        if drv is not None:
            settle(drv.ask_all)
        else:
            with common.LeanDriver("C16") as own:
                settle(own.ask_all)
    return res


def _fold(ck, res):
    for canon_case, nontrivial in res["cases"]:
        ck.case(json.loads(canon_case), nontrivial=nontrivial)
    for k, n in res["counts"].items():
        if k != "L2_mismatch_raw" and not k.startswith("shrunk:"):
            ck.count(k, n)
    for case, detail in res["mismatch"]:
        _CkSink(ck).mismatch(case, detail)
    for clause, small, detail in res["fails"]:
        ck.fail(fingerprint(small["P"], clause, small), f"{KINDS[small['P']['kind']]}: clause '{clause}' fails", small, detail)


# --------------------------------------------------------------------------- deeper failing-input search


def _canonical_params(kind):
    """the smallest legal parameters of a kind: with reduction_factor 2 / min_competing 0 the top-k and median boundaries move
    with every single competitor, so few evaluations suffice for a witness"""
    if kind == "sha":
        return [{"kind": "sha", "max_steps": 4, "min_steps": 1, "rf": 2, "mesr": 0, "min_competing": 0, "min_fully_completed": 0, "eps": EPS_DEFAULT}]
    if kind == "median":
        return [{"kind": "median", "max_steps": 4, "min_steps": 1, "interval": 1, "min_competing": mc, "eps": EPS_DEFAULT} for mc in (0, 2)]
    if kind == "const":
        return [{"kind": "const", "max_steps": 4, "stop_step": 2}, {"kind": "const", "max_steps": 4, "stop_step": 9}]
    return [{"kind": "idle", "max_steps": 4}]


def search(ck):
    """Called by main.py when L1 / L2 broke and `run` found no failing input of the PROPERTY.  The scenarios on which model and
    implementation disagreed (`_MISMATCHED`) say where the implementation changed: which stopper, with which parameters, and
    which stopper, with which parameters.  Around them the search enumerates, on the REAL code only (decisions only, no model),
    every ordered tuple of typed evaluations (`job_types`: levels that tie or differ by one, evaluations that never fail / fail
    between two decision budgets / fail exactly at a decision budget after having passed one; then the levels -inf / +inf; then
    both), up to 4-5 evaluations, run one after the other and round-robin, then random larger tuples and interleavings -- first
    for the smallest legal parameters of that stopper (reduction_factor 2, min_competing 0: the top-k / median boundary moves
    with every single competitor), then for the parameters of the disagreeing scenarios themselves -- and judges every run with
    the property oracle.  Bounded by VERIF_C16_SEARCH_S seconds (default 150), split evenly over the parameter sets."""
    global _SEARCHED
    if _SEARCHED:
        return
    _SEARCHED = True
    _quiet()
    t0 = time.time()
    budget = float(os.environ.get("VERIF_C16_SEARCH_S", "150"))
    cases = list(_MISMATCHED)
    kinds = []
    for c in cases:
        if c["P"]["kind"] not in kinds:
            kinds.append(c["P"]["kind"])
    if not kinds:
        kinds = ["sha", "median", "const", "idle"]      # nothing to go by (L1 broke, or the harness could not drive the code)
    worlds = []
    for kind in kinds:
        own = []
        for c in cases:
            P = dict(c["P"])
            if P["kind"] != kind or P.get("rf", 2) < 2 or P.get("interval", 1) < 1 or P.get("min_steps", 1) < 1:
                continue
            P["max_steps"] = min(P["max_steps"], max(4, world_length(P)))
            if P not in own and len(own) < 3:
                own.append(P)
        for P in _canonical_params(kind) + own:
            if P not in worlds:
                worlds.append(P)
    ck.count("search:worlds", len(worlds))
    found = set()
    rng = ck.rng
    n_runs = 0

    def try_world(P, curves, evs):
        """one run on the real code (decisions only); on an oracle failure: full run, shrink, report"""
        nonlocal n_runs
        n_runs += 1
        _, final, steps, _ = run_proto_real(P, curves, evs, light=True)
        if not oracle(P, steps, final):
            return False
        case = {"P": P, "curves": curves, "events": evs}
        _, final, steps, _ = run_proto_real(P, curves, evs)     # full run: stored metadata for the alignment clause
        ck.case(case, nontrivial=len(curves) >= 2)
        ck.count("schedule:search-typed-world")
        _judge(ck.count, ck.hist, P, case, steps, final,
               lambda clause, small, detail: ck.fail(fingerprint(small["P"], clause, small),
                                                     f"{KINDS[P['kind']]}: clause '{clause}' fails", small, detail))
        return True

    def schedules(curves):
        n, lengths = len(curves), [len(c) for c in curves]
        yield sequential_events(n, lengths, lazy=False)
        if 2 <= n <= 3:
            evs = [["add"]] * n
            for b in range(max(lengths)):
                evs += [["step", j] for j in range(n) if b < lengths[j]]
            yield evs

    for wi, P in enumerate(worlds):
        left = budget - (time.time() - t0)
        if left <= 1:
            break
        if P["kind"] in found:
            continue
        t_end = time.time() + left / (len(worlds) - wi)
        L = world_length(P)
        fin, full = [0.0, 1.0, 2.0], [0.0, 1.0, 2.0, -INF, INF]
        all_types = job_types(P, full)
        small = P["kind"] in ("const", "idle")
        # alphabets from plain to rich: finite levels x failure points; all levels, no failures; everything
        stages = [(job_types(P, fin), 2 if small else 4), ([t for t in all_types if t[1] is None], 2 if small else 5),
                  (all_types, 2 if small else 3)]
        hit = False
        seen_alpha = []
        for types, nmax in stages:
            for n in range(1, nmax + 1):
                for tup in itertools.product(types, repeat=n):
                    if time.time() > t_end or hit:
                        break
                    if any(all(t in a for t in tup) and n <= m for a, m in seen_alpha):
                        continue        # already enumerated with a smaller alphabet
                    curves = [typed_curve(t, L) for t in tup]
                    for evs in schedules(curves):
                        if try_world(P, curves, evs):
                            hit = True
                            break
                if time.time() > t_end or hit:
                    break
            seen_alpha.append((set(types), nmax))
            if time.time() > t_end or hit:
                break
        # beyond the enumerated sizes: random larger tuples, random interleavings
        while not hit and not small and time.time() < t_end:
            n = rng.randint(4, 6)
            curves = [typed_curve(rng.choice(all_types), L) for _ in range(n)]
            lengths = [len(c) for c in curves]
            evs = sequential_events(n, lengths, lazy=False) if rng.random() < 0.5 else random_interleaving(rng, n, lengths, rng.choice([0.0, 0.3]))
            hit = try_world(P, curves, evs)
        if hit:
            found.add(P["kind"])
    ck.count("search:runs", n_runs)
    ck.extra_cov["search"] = {"seconds": round(time.time() - t0, 1), "worlds": len(worlds), "kinds": kinds, "runs": n_runs,
                              "mismatching_scenarios": len(cases), "found_for": sorted(found)}


def replay(ck, case):
    _quiet()
    with ck.driver() as drv:
        pending = []
        if "script" in case:
            _script_case(ck, case["P"], case["script"], pending)
            trace, final = run_script_real(case["P"], case["script"])
            print("replay (raw script):", json.dumps(trace))
        else:
            trace, final, steps, _ = run_proto_real(case["P"], case["curves"], case["events"])
            print("replay: params", json.dumps(case["P"]), "curves", json.dumps(case["curves"]))
            for (j, b, o, d, _) in steps:
                print(f"  job {j} budget {b} objective {o!r} -> stopped() = {d}")
            print("  final metadata:", json.dumps(final))
            for clause, detail in oracle(case["P"], steps, final):
                print("  ORACLE FAILS:", clause, json.dumps(detail, default=str))
            _explore(ck, case["P"], case["curves"], case["events"], "replay", pending)
        _flush(ck, drv, pending)
