"""Shared machinery of the C02 and C08 checks (property group g5).

* problem generator: declared spaces drawn from the repo's own hyperparameter kinds
  (int/float x uniform/log-uniform, categorical str/bool, ordinal int/float, constant; optional
  conditions and forbidden clauses), kept as a JSON-able *spec* from which both the real
  `HpProblem` and the Lean `Decl` are built;
* wire encoding of configurations with the exact Python kind of every value;
* `RvsSpy`: wraps `Space.rvs` from outside to observe the candidate lists the optimizer draws;
* `run_session`: drives the REAL search classes through ask/tell (or through `search()`),
  recording proposals, candidate draws, told results and exceptions;
* `session_request`: the line sent to the Lean driver to replay a session through
  `Model/Ask.lean` with the observed environment;
* shrinking + fingerprints of failing cells.

Nothing here reads private attributes of the implementation for *comparison*; the only private
call is `CBO._setup_optimizer()`, which is what `CBO.search()` itself does first.
"""
from __future__ import annotations

import asyncio
import copy
import json
import math
import shutil
import tempfile
import traceback
from fractions import Fraction

import numpy as np

from .common import HarnessError, rat

# --------------------------------------------------------------------------- encoding


def enc(v):
    """One configuration value with its Python kind (numpy scalars are normalised)."""
    if isinstance(v, (bool, np.bool_)):
        return ["b", bool(v)]
    if isinstance(v, (int, np.integer)):
        return ["i", int(v)]
    if isinstance(v, (float, np.floating)):
        f = float(v)
        if math.isnan(f) or math.isinf(f):
            return ["s", f"<non-finite float {f!r}>"]
        return ["f", rat(f)]
    if isinstance(v, (str, np.str_)):
        return ["s", str(v)]
    return ["s", f"<{type(v).__name__}:{v!r}>"]


def enc_cfg(values):
    return [enc(v) for v in values]


def plain(v):
    """numpy scalar -> python scalar (for JSON-able replay files)."""
    if isinstance(v, np.generic):
        return v.item()
    return v


# --------------------------------------------------------------------------- problems

SURROGATES = ["RF", "ET", "TB", "RS", "GP", "GBRT", "HGBRT", "DUMMY"]
ACQS = ["UCB", "EI", "PI", "MES", "gp_hedge", "UCBd", "EId", "PId", "MESd", "gp_hedged"]
STRATEGIES = ["cl_min", "cl_mean", "cl_max", "topk", "boltzmann", "qUCB", "qUCBd"]
DESIGNS = ["random", "sobol", "halton", "hammersly", "lhs", "grid"]
TREE_OR_DUMMY = ["RF", "ET", "TB", "RS", "GBRT", "HGBRT", "DUMMY"]
# CBO -> Optimizer option names (the model speaks the Optimizer's language)
MAP_STRATEGY = {"cl_min": "cl_max", "cl_max": "cl_min", "qUCB": "qLCB", "qUCBd": "qLCBd"}


def gen_hp(rng, name, kinds):
    kind = rng.choice(kinds)
    if kind == "int":
        lo = rng.choice([-5, -1, 0, 1, 3])
        hi = lo + rng.choice([1, 2, 3, 7, 20, 1000])
        return {"name": name, "kind": "int", "lo": lo, "hi": hi, "log": False}
    if kind == "int_log":
        lo = rng.choice([1, 2, 8])
        hi = lo * rng.choice([2, 8, 64, 1000])
        return {"name": name, "kind": "int", "lo": lo, "hi": hi, "log": True}
    if kind == "float":
        lo = rng.choice([-2.5, -1.0, 0.0, 0.1, 1e-3])
        hi = lo + rng.choice([0.5, 1.0, 3.0, 10.0, 1e3])
        return {"name": name, "kind": "float", "lo": lo, "hi": hi, "log": False}
    if kind == "float_log":
        # several lower bounds do not survive 10 ** log10(x) (3e-5, 3e-4, 2e-3, 7e-3 come back larger)
        lo, hi = rng.choice([(3e-5, 7e3), (1e-4, 1.0), (1e-3, 1e3), (0.5, 2.0), (1e-6, 1e-1), (2.0, 7e3),
                             (3e-4, 1.0), (2e-3, 5.0), (7e-3, 70.0)])
        return {"name": name, "kind": "float", "lo": lo, "hi": hi, "log": True}
    if kind == "cat_str":
        k = rng.randint(2, 5)
        return {"name": name, "kind": "cat", "choices": rng.sample(["a", "b", "c", "d", "e", "relu", "tanh"], k)}
    if kind == "cat_bool":
        return {"name": name, "kind": "cat", "choices": rng.choice([[True, False], [False, True]])}
    if kind == "cat_mixed":
        # choices of different Python types (any list holding a str or a bool is a categorical):
        # the declared objects themselves must come back, not their common NumPy type
        # (a str with numbers, a str with a bool; bool and numbers are not mixed: NumPy / ConfigSpace
        # identify True with 1.0)
        pool = rng.choice([["sqrt", "log2", 1, 0.5], ["balanced", False], ["auto", 3, 0.25, "x"],
                           ["none", True], ["a", 7], ["adam", 0.5, "sgd", 2]])
        choices = rng.sample(pool, rng.randint(2, len(pool)))
        if len({type(c) for c in choices}) < 2 or not any(isinstance(c, str) for c in choices):
            choices = list(pool)
        return {"name": name, "kind": "cat", "choices": choices}
    if kind == "ord_int":
        seq = sorted(rng.sample([1, 2, 4, 8, 16, 32, 3, 5], rng.randint(2, 5)))
        return {"name": name, "kind": "ord", "choices": seq}
    if kind == "ord_float":
        seq = sorted(rng.sample([0.1, 0.25, 0.5, 0.9, 1.5, 2.5], rng.randint(2, 4)))
        return {"name": name, "kind": "ord", "choices": seq}
    if kind == "ord_mixed":
        # a numeric sequence mixing ints and floats (legal short-hand, e.g. [1, 2.5, 4.5, 8]); it
        # starts with an int or with a float
        for _ in range(50):
            seq = sorted(rng.sample([1, 2, 4, 8, 16, 3, 0.5, 1.5, 2.5, 4.5, 0.25, 6.75], rng.randint(2, 5)))
            if any(isinstance(v, int) for v in seq) and any(isinstance(v, float) for v in seq):
                return {"name": name, "kind": "ord", "choices": seq}
        return {"name": name, "kind": "ord", "choices": [1, 2.5, 4.5, 8]}
    if kind == "const":
        return {"name": name, "kind": "const", "choices": [rng.choice([7, 0.5, "adam"])]}
    raise HarnessError(f"unknown kind {kind}")


def with_default(rng, hp, force=False):
    """declare an explicit default value that is NOT the canonical inactive value (lower bound /
    first choice), or weights whose most probable choice is not the first one: the canonical
    value of an inactive hyperparameter must not depend on either"""
    hp = dict(hp)
    if hp["kind"] in ("cat", "ord") and len(hp["choices"]) >= 2:
        if force or rng.random() < 0.35:
            hp["default"] = rng.choice(hp["choices"][1:])
        if hp["kind"] == "cat" and rng.random() < (0.5 if force else 0.2):
            w = [rng.choice([1, 2]) for _ in hp["choices"]]
            w[rng.randrange(1, len(w))] = 5
            hp["weights"] = [x / sum(w) for x in w]
    elif hp["kind"] in ("int", "float") and (force or rng.random() < 0.25):
        hp["default"] = hp["hi"] if rng.random() < 0.5 or hp["kind"] == "float" else min(hp["hi"], hp["lo"] + 1)
    return hp


ALL_KINDS = ["int", "int_log", "float", "float_log", "cat_str", "cat_bool", "cat_mixed", "ord_int", "ord_float", "ord_mixed",
             "const"]
FINITE_KINDS = ["cat_str", "cat_bool", "ord_int", "ord_float"]


def _values_of(hp):
    """a few legal values of a hyperparameter (for conditions / forbidden clauses)."""
    if hp["kind"] in ("cat", "ord", "const"):
        return list(hp["choices"])
    if hp["kind"] == "int":
        lo, hi = hp["lo"], hp["hi"]
        return sorted({lo, hi, (lo + hi) // 2, min(hi, lo + 1)})
    lo, hi = hp["lo"], hp["hi"]
    return [lo, hi, (lo + hi) / 2]


def gen_spec(rng, n_hps=None, kinds=None, constrained=False):
    kinds = kinds or ALL_KINDS
    n = n_hps or rng.randint(1, 6)
    hps = [with_default(rng, gen_hp(rng, f"h{i}", kinds)) for i in range(n)]
    spec = {"hps": hps, "conds": [], "forbs": []}
    if rng.random() < 0.3:
        spec["api"] = "bulk"  # HpProblem.add_hyperparameters / add_conditions
    # construction history: which public accessors are read after each construction call
    spec["reads"] = [rng.sample(["len", "names", "default", "str", "space"], rng.randint(1, 2)) if rng.random() < 0.4 else []
                     for _ in range(n + 4)]
    if constrained and n >= 2:
        # conditions: child i depends on earlier-named hyperparameters (acyclic by construction)
        n_conds = rng.randint(0, 2)
        idx = list(range(n))
        rng.shuffle(idx)
        children = []
        for _ in range(n_conds):
            cand = [i for i in idx if i not in children]
            if len(cand) < 2:
                break
            child = cand[0]
            parents = [i for i in range(n) if i != child and i not in children and hps[i]["kind"] != "const"
                       and not _depends(spec, hps[i]["name"], hps[child]["name"])]
            if not parents:
                continue
            cond = _gen_cond(rng, hps, parents, depth=0)
            if cond is None:
                continue
            children.append(child)
            if rng.random() < 0.6:
                # a conditional child whose default is not its canonical inactive value
                hps[child] = with_default(rng, {k: v for k, v in hps[child].items() if k not in ("default", "weights")}, force=True)
            spec["conds"].append({"child": hps[child]["name"], "cond": cond})
        n_forb = rng.randint(0 if spec["conds"] else 1, 1)
        for _ in range(n_forb):
            # ConfigSpace rejects a clause that excludes the default configuration
            for _try in range(6):
                f = _gen_forb(rng, hps)
                if f is None:
                    break
                trial = dict(spec, forbs=spec["forbs"] + [f])
                try:
                    build_problem(trial)
                except Exception:
                    continue
                spec["forbs"].append(f)
                break
        try:
            build_problem(spec)
        except Exception:  # e.g. a condition ConfigSpace refuses: fall back to the flat space
            spec["conds"], spec["forbs"] = [], []
    return spec


def _depends(spec, a, b):
    """does hyperparameter `a` (transitively) depend on `b` through the conditions so far?"""
    todo, seen = [a], set()
    while todo:
        x = todo.pop()
        if x == b:
            return True
        if x in seen:
            continue
        seen.add(x)
        for c in spec["conds"]:
            if c["child"] == x:
                todo.extend(_cond_parents(c["cond"]))
    return False


def _cond_parents(c):
    if c["op"] in ("and", "or"):
        return _cond_parents(c["a"]) + _cond_parents(c["b"])
    return [c["parent"]]


def _gen_cond(rng, hps, parents, depth):
    if depth == 0 and len(parents) >= 2 and rng.random() < 0.25:
        a = _gen_cond(rng, hps, parents, 1)
        b = _gen_cond(rng, hps, parents, 1)
        if a and b and a["parent"] != b["parent"]:
            return {"op": rng.choice(["and", "or"]), "a": a, "b": b}
    p = hps[rng.choice(parents)]
    vals = _values_of(p)
    if p["kind"] == "cat":
        op = rng.choice(["eq", "ne", "in"])
    elif p["kind"] == "ord":
        op = rng.choice(["eq", "ne", "in", "lt", "gt"])
    else:
        op = rng.choice(["lt", "gt", "eq", "lt", "gt"]) if p["kind"] == "int" else rng.choice(["lt", "gt"])
    if op == "in":
        k = rng.randint(1, max(1, len(vals) - 1))
        return {"op": "in", "parent": p["name"], "values": rng.sample(vals, k)}
    v = rng.choice(vals)
    if op in ("lt", "gt") and p["kind"] in ("int", "float", "ord"):
        # avoid conditions that can never hold
        if op == "lt" and v == vals[0]:
            v = vals[-1]
        if op == "gt" and v == vals[-1]:
            v = vals[0]
    if p["kind"] == "float":
        # thresholds strictly inside the range: ConfigSpace decides activity on its own vector
        # representation of a float (normalised, through log/exp for log-uniform ranges), which
        # can differ from the value by an ulp — exactly on a bound that flips `>` / `<`
        # (assumption listed in the check: parents within 1e-13 of a threshold)
        v = vals[-1]
    return {"op": op, "parent": p["name"], "value": v}


def _gen_forb(rng, hps):
    cands = [h for h in hps if h["kind"] in ("cat", "ord", "int")]
    if not cands:
        return None
    k = 2 if len(cands) >= 2 and rng.random() < 0.7 else 1
    chosen = rng.sample(cands, k)
    atoms = []
    for h in chosen:
        vals = _values_of(h)
        if rng.random() < 0.3 and len(vals) > 2:
            atoms.append({"op": "in", "hp": h["name"], "values": rng.sample(vals, 2)})
        else:
            # the lower bound / first choice is the placeholder of inactive hyperparameters
            v = vals[0] if rng.random() < 0.5 else rng.choice(vals)
            atoms.append({"op": "eq", "hp": h["name"], "value": v})
    if len(atoms) == 1:
        # a single-atom clause must leave the hyperparameter some legal value
        return atoms[0]
    return {"op": "and", "a": atoms[0], "b": atoms[1]}


TIGHT_SIZES = [10, 30, 64, 100, 100, 250, 1000]


def gen_tight_spec(rng, max_size=1000, children=None):
    """A *tightly forbidden* space: the forbidden clauses relate pairs of hyperparameters and
    exclude 90 % - 99.9 % of the box, so that from most members no single-hyperparameter change
    leads to another member (the allowed set is a thin "diagonal").

    One or two groups of two hyperparameters forced to agree:
      * two integers of N values with `ForbiddenLessThanRelation` + `ForbiddenGreaterThanRelation`
        (either written with the arguments in the other order): only a == b is allowed,
        forbidden fraction 1 - 1/N, N in 10 .. 1000;
      * two finite hyperparameters of K values (categorical str, ordinal int, small integer
        range — the two of a group need not be of the same kind) with one conjunction
        `x == u_i  and  y in (all but v_i)` per value: forbidden fraction 1 - 1/K, K in 12 .. 60;
    plus conditional children (any kind, default away from the canonical inactive value) hanging
    on members of the groups — active for one value, a few values, a tail of the range or half of
    it — and no free hyperparameter (a free one always has an allowed mutation).  Defaults are
    left to ConfigSpace (mid-range / first choice on both sides: the default configuration is on
    the diagonal, as ConfigSpace demands)."""
    hps, conds, forbs = [], [], []
    n_groups = 1 if rng.random() < 0.7 else 2
    prefixes = rng.sample(["g", "k", "p", "t"], n_groups)
    members = []
    for pre in prefixes:
        family = rng.choice(["rel", "rel", "rel", "conj"])
        if family == "rel":
            # two groups multiply: keep the allowed fraction >= ~1e-3 (ConfigSpace samples by rejection)
            n = rng.choice([x for x in TIGHT_SIZES if x <= (max_size if n_groups == 1 else min(max_size, 30))])
            log = rng.random() < 0.15
            lo = rng.choice([1, 2]) if log else rng.choice([0, 0, -5, 1, 3])
            a = {"name": pre + "_a", "kind": "int", "lo": lo, "hi": lo + n - 1, "log": log}
            b = {"name": pre + "_b", "kind": "int", "lo": lo, "hi": lo + n - 1, "log": log}
            hps += [a, b]
            first = {"op": "rel", "cmp": "lt", "a": a["name"], "b": b["name"]}
            second = rng.choice([{"op": "rel", "cmp": "gt", "a": a["name"], "b": b["name"]},
                                 {"op": "rel", "cmp": "lt", "a": b["name"], "b": a["name"]}])
            forbs += rng.sample([first, second], 2)
        else:
            k = rng.choice([12, 24, 40, 60] if n_groups == 1 else [12, 24])

            def finite(name):
                kind = rng.choice(["cat", "cat", "ord", "int"])
                if kind == "cat":
                    return {"name": name, "kind": "cat", "choices": [f"v{i:02d}" for i in range(k)]}
                if kind == "ord":
                    step = rng.choice([1, 2, 5])
                    return {"name": name, "kind": "ord", "choices": [1 + step * i for i in range(k)]}
                lo = rng.choice([0, 1, -3])
                # default on the first value, as for choice lists: the default configuration must
                # be allowed
                return {"name": name, "kind": "int", "lo": lo, "hi": lo + k - 1, "log": False, "default": lo}

            a, b = finite(pre + "_x"), finite(pre + "_y")
            hps += [a, b]
            va = a["choices"] if a["kind"] != "int" else list(range(a["lo"], a["hi"] + 1))
            vb = b["choices"] if b["kind"] != "int" else list(range(b["lo"], b["hi"] + 1))
            for i in range(k):
                forbs.append({"op": "and", "a": {"op": "eq", "hp": a["name"], "value": va[i]},
                              "b": {"op": "in", "hp": b["name"], "values": [v for j, v in enumerate(vb) if j != i]}})
        members += [a, b]
    n_children = children if children is not None else rng.choice([0, 1, 1, 1, 2])
    for c in range(n_children):
        par = rng.choice(members)
        vals = par["choices"] if par["kind"] != "int" else list(range(par["lo"], par["hi"] + 1))
        name = rng.choice(["a_", "c_", "z_"]) + f"child{c}"
        child = with_default(rng, gen_hp(rng, name, ["float", "float_log", "int", "int_log", "cat_str", "ord_int", "ord_mixed"]),
                             force=rng.random() < 0.6)
        how = rng.choice(["one", "one", "few", "tail", "half"])
        if how == "one" or par["kind"] == "cat" and how in ("tail", "half"):
            cond = {"op": "eq", "parent": par["name"], "value": rng.choice([vals[0], vals[0], vals[-1], rng.choice(vals)])}
        elif how == "few":
            cond = {"op": "in", "parent": par["name"], "values": rng.sample(vals, rng.randint(1, 3))}
        elif how == "tail":
            cond = {"op": "gt", "parent": par["name"], "value": vals[-max(2, len(vals) // 20)]}
        else:
            cond = {"op": rng.choice(["gt", "lt"]), "parent": par["name"], "value": vals[len(vals) // 2]}
        hps.append(child)
        conds.append({"child": name, "cond": cond})
    rng.shuffle(hps)
    spec = {"hps": hps, "conds": conds, "forbs": forbs,
            "reads": [rng.sample(["len", "names", "default", "str", "space"], 1) if rng.random() < 0.3 else []
                      for _ in range(len(hps) + len(conds) + 3)]}
    build_problem(spec)  # ConfigSpace must accept it (a harness error otherwise)
    return spec


def spec_is_tight(spec):
    """does the spec relate two hyperparameters by forbidden clauses (relations / conjunctions
    over whole value lists)?"""
    return any(f["op"] == "rel" or (f["op"] == "and" and "in" in (f["a"]["op"], f["b"]["op"])
                                    and max(len(f["a"].get("values", [])), len(f["b"].get("values", []))) >= 8)
               for f in spec["forbs"])


def spec_is_constrained(spec):
    return bool(spec["conds"] or spec["forbs"])


def build_problem(spec):
    import ConfigSpace as CS
    import ConfigSpace.hyperparameters as csh

    from deephyper.hpo import HpProblem

    p = HpProblem()
    objs = {}
    bulk = spec.get("api") == "bulk"
    pending = []
    reads = spec.get("reads") or []
    step = [0]

    def after_call():
        """the public accessors read between two construction calls of this history"""
        for acc in (reads[step[0]] if step[0] < len(reads) else []):
            try:
                if acc == "len":
                    len(p)
                elif acc == "names":
                    p.hyperparameter_names
                elif acc == "default":
                    p.default_configuration
                elif acc == "str":
                    str(p)
                elif acc == "space":
                    list(p.space.keys())
            except Exception:
                pass  # an accessor that raises on a half-built problem is not this property's subject
        step[0] += 1

    for h in spec["hps"]:
        if h["kind"] == "int":
            v = (h["lo"], h["hi"], "log-uniform") if h["log"] else (h["lo"], h["hi"])
        elif h["kind"] == "float":
            v = (float(h["lo"]), float(h["hi"]), "log-uniform") if h["log"] else (float(h["lo"]), float(h["hi"]))
        elif h["kind"] == "const":
            v = h["choices"][0]
        else:
            v = list(h["choices"])
        if h["kind"] == "cat" and ("weights" in h or "default" in h):
            v = csh.CategoricalHyperparameter(h["name"], choices=list(h["choices"]), weights=h.get("weights"),
                                              **({"default_value": h["default"]} if "default" in h else {}))
        elif h["kind"] == "ord" and "default" in h:
            v = csh.OrdinalHyperparameter(h["name"], sequence=list(h["choices"]), default_value=h["default"])
        dflt = h.get("default") if h["kind"] in ("int", "float") else None
        if dflt is not None and h["kind"] == "float":
            dflt = float(dflt)
        if bulk:
            # the same hyperparameter as a ConfigSpace object, added through add_hyperparameters
            from deephyper.hpo._problem import check_hyperparameter

            objs[h["name"]] = check_hyperparameter(v, h["name"], default_value=dflt)
            pending.append(objs[h["name"]])
        else:
            objs[h["name"]] = p.add_hyperparameter(v, h["name"], default_value=dflt)
            after_call()
    if pending:
        p.add_hyperparameters(pending)
        after_call()

    def cond(child, c):
        if c["op"] == "and":
            return CS.AndConjunction(cond(child, c["a"]), cond(child, c["b"]))
        if c["op"] == "or":
            return CS.OrConjunction(cond(child, c["a"]), cond(child, c["b"]))
        par = objs[c["parent"]]
        if c["op"] == "in":
            return CS.InCondition(child, par, list(c["values"]))
        cls = {"eq": CS.EqualsCondition, "ne": CS.NotEqualsCondition, "lt": CS.LessThanCondition,
               "gt": CS.GreaterThanCondition}[c["op"]]
        return cls(child, par, c["value"])

    def forb(f):
        if f["op"] == "and":
            return CS.ForbiddenAndConjunction(forb(f["a"]), forb(f["b"]))
        if f["op"] == "rel":
            # a relation between two hyperparameters: forbidden when `a <cmp> b`
            cls = {"lt": CS.ForbiddenLessThanRelation, "gt": CS.ForbiddenGreaterThanRelation,
                   "eq": CS.ForbiddenEqualsRelation}[f["cmp"]]
            return cls(objs[f["a"]], objs[f["b"]])
        if f["op"] == "in":
            return CS.ForbiddenInClause(objs[f["hp"]], list(f["values"]))
        return CS.ForbiddenEqualsClause(objs[f["hp"]], f["value"])

    if bulk and spec["conds"]:
        p.add_conditions([cond(objs[c["child"]], c["cond"]) for c in spec["conds"]])
        after_call()
    else:
        for c in spec["conds"]:
            p.add_condition(cond(objs[c["child"]], c["cond"]))
            after_call()
    for f in spec["forbs"]:
        p.add_forbidden_clause(forb(f))
        after_call()
    return p


def decl_of(spec, problem, surrogate=None, normalize=None):
    """The Lean `Decl` (JSON): hyperparameters in the REAL problem's order, transformers read
    from the skopt space the repo builds for this surrogate."""
    from deephyper.hpo._problem import convert_to_skopt_space

    names = list(problem.space.keys())
    by_name = {h["name"]: h for h in spec["hps"]}
    if sorted(names) != sorted(by_name):
        raise HarnessError(f"problem names {names} != spec names {sorted(by_name)}")
    pos = {n: i for i, n in enumerate(names)}
    trs, encs = {}, {}
    if surrogate is not None:
        from deephyper.skopt.utils import normalize_dimensions

        sp = convert_to_skopt_space(problem.space, surrogate_model=surrogate)
        if normalize if normalize is not None else surrogate == "GP":
            sp.dimensions = normalize_dimensions(sp.dimensions)
        trs = {d.name: d.transform_ for d in sp.dimensions}
        # the order in which the label encoder numbers the categories, observed through the
        # public `Dimension.transform`
        for d in sp.dimensions:
            if type(d).__name__ == "Categorical" and d.transform_ in ("label", "normalize"):
                cats = list(d.categories)
                keys = [float(np.asarray(d.transform([c])).reshape(-1)[0]) for c in cats]
                encs[d.name] = [c for _, c in sorted(zip(keys, range(len(cats))))]
                encs[d.name] = [cats[i] for i in encs[d.name]]
    conds = {c["child"]: c["cond"] for c in spec["conds"]}

    def jcond(c):
        if c["op"] in ("and", "or"):
            return {"op": c["op"], "a": jcond(c["a"]), "b": jcond(c["b"])}
        if c["op"] == "in":
            return {"op": "in", "p": pos[c["parent"]], "vs": [enc(v) for v in c["values"]]}
        return {"op": c["op"], "p": pos[c["parent"]], "v": enc(c["value"])}

    def jforb(f):
        if f["op"] == "and":
            return {"op": "and", "a": jforb(f["a"]), "b": jforb(f["b"])}
        if f["op"] == "rel":
            return {"op": "rel", "a": pos[f["a"]], "b": pos[f["b"]], "cmp": f["cmp"]}
        if f["op"] == "in":
            return {"op": "in", "p": pos[f["hp"]], "vs": [enc(v) for v in f["values"]]}
        return {"op": "eq", "p": pos[f["hp"]], "v": enc(f["value"])}

    hps = []
    for n in names:
        h = by_name[n]
        if h["kind"] == "int":
            dim = {"t": "int", "lo": h["lo"], "hi": h["hi"], "log": bool(h["log"])}
        elif h["kind"] == "float":
            dim = {"t": "real", "lo": rat(float(h["lo"])), "hi": rat(float(h["hi"])), "log": bool(h["log"])}
        else:
            dim = {"t": "cat", "choices": [enc(v) for v in h["choices"]]}
        default_tr = "identity" if h["kind"] in ("int", "float") else "label"
        hp = {"name": n, "dim": dim, "tr": trs.get(n, default_tr),
              "cond": jcond(conds[n]) if n in conds else None}
        if n in encs:
            hp["enc"] = [enc(plain(v)) for v in encs[n]]
        hps.append(hp)
    return {"hps": hps, "forbs": [jforb(f) for f in spec["forbs"]]}


def space_size(spec):
    """number of configurations of a finite unconstrained spec (None if infinite)."""
    n = 1
    for h in spec["hps"]:
        if h["kind"] in ("cat", "ord", "const"):
            n *= len(h["choices"])
        elif h["kind"] == "int":
            n *= h["hi"] - h["lo"] + 1
        else:
            return None
    return n


# --------------------------------------------------------------------------- observation


class RvsSpy:
    """Stands in for `Space.rvs` (class attribute) while a session runs: records every candidate
    list the optimizer draws, in order.  Observation only: the real method does the work."""

    def __init__(self):
        self.draws = []
        self._orig = None

    def __enter__(self):
        from deephyper.skopt.space import space as space_mod

        spy = self
        self._cls = space_mod.Space
        self._orig = self._cls.rvs

        def rvs(self_, *a, **kw):
            out = spy._orig(self_, *a, **kw)
            spy.draws.append([list(r) for r in out])
            return out

        self._cls.rvs = rvs
        return self

    def __exit__(self, *a):
        self._cls.rvs = self._orig

    def take(self):
        d, self.draws = self.draws, []
        return d


def quiet():
    """the optimizer warns on purpose (e.g. 'The objective has been evaluated at this point
    before'); keep the check's output readable"""
    import warnings

    warnings.filterwarnings("ignore")
    warnings.showwarning = lambda *a, **k: None


class Job:
    """what `Search.tell` iterates over: `(config, objective)`"""

    def __init__(self, cfg, obj):
        self.cfg, self.obj = cfg, obj

    def __iter__(self):
        return iter((self.cfg, self.obj))


async def _run_dummy(job):
    return 0.0


def exc_site(e):
    """innermost frame inside the deephyper sources: 'file.py:function'."""
    site = "?"
    for fr in traceback.extract_tb(e.__traceback__):
        if "/deephyper/" in fr.filename:
            site = f"{fr.filename.split('/deephyper/')[-1]}:{fr.name}"
    return site


def make_search(cell, problem, log_dir, run=None):
    """Construct the search of a cell.  Raises whatever the constructor raises."""
    from deephyper.evaluator import Evaluator
    from deephyper.hpo import CBO, ExperimentalDesignSearch, RandomSearch, RegularizedEvolution

    ev = Evaluator.create(run or _run_dummy, method="serial")
    cls = cell["search"]
    seed = cell["seed"]
    if cls == "CBO":
        kw = dict(surrogate_model=cell["surrogate"], acq_func=cell["acq"], multi_point_strategy=cell["strategy"],
                  initial_point_generator=cell["design"], n_initial_points=cell["n_initial"],
                  n_points=cell["n_points"], filter_failures=cell.get("filter_failures", "min"),
                  filter_duplicated=cell.get("filter_duplicated", True))
        if "acq_optimizer_freq" in cell:
            kw["acq_optimizer_freq"] = cell["acq_optimizer_freq"]
        if cell.get("initial_points"):
            # initial points given by the user (list of dicts), handed out before the random ones
            kw["initial_points"] = [dict(p) for p in cell["initial_points"]]
        if cell["surrogate"] in ("RF", "ET", "TB", "RS"):
            kw["surrogate_model_kwargs"] = {"n_estimators": cell.get("n_estimators", 4)}
        elif cell["surrogate"] == "GBRT":
            kw["surrogate_model_kwargs"] = {"n_estimators": cell.get("n_estimators", 4)}
        return CBO(problem, ev, random_state=seed, log_dir=log_dir, **kw)
    if cls == "EDS":
        return ExperimentalDesignSearch(problem, ev, random_state=seed, log_dir=log_dir,
                                        n_points=cell["n_initial"], design=cell["design"])
    if cls == "Random":
        return RandomSearch(problem, ev, random_state=seed, log_dir=log_dir)
    if cls == "RegEvo":
        return RegularizedEvolution(problem, ev, random_state=seed, log_dir=log_dir,
                                    population_size=cell.get("population_size", 4),
                                    sample_size=cell.get("sample_size", 2))
    raise HarnessError(f"unknown search class {cls}")


def run_session(cell, spec, script):
    """Drive the real search of `cell` on the problem `spec` through `script`
    (= list of `{"n": batch size, "objs": [objective per proposal], "tell": [which to tell now]}`).

    Returns a record: names, rounds (proposals, draws, told results), `error` (stage, type,
    message, site) if something raised, `not_accepted` if the constructor rejected the options.
    """
    quiet()
    rec = {"names": None, "rounds": [], "error": None, "not_accepted": None}
    tmp = tempfile.mkdtemp(prefix="g5_")
    try:
        problem = build_problem(spec)
        # the declaration's order is ConfigSpace's own; proposals are read BY NAME
        rec["names"] = list(problem.space.keys())
        rec["problem"] = problem
        np.random.seed(cell["seed"] % (2**31))  # gaussian_mes draws from the global state (C07)
        try:
            search = make_search(cell, problem, tmp)
        except Exception as e:  # constructor rejection: "not accepted", never a failure
            rec["not_accepted"] = {"type": type(e).__name__, "msg": str(e)[:200], "site": exc_site(e)}
            return rec
        with RvsSpy() as spy:
            stage = "setup"
            try:
                if hasattr(search, "_setup_optimizer"):
                    search._setup_optimizer()
                spy.take()
                backlog = []
                for k, step in enumerate(script):
                    stage = f"ask({step['n']})#{k}"
                    X = search.ask(step["n"])
                    ask_draws = spy.take()
                    props = [[x.get(nm, f"<missing {nm}>") for nm in rec["names"]] for x in X]
                    extra = [sorted(set(x) - set(rec["names"])) for x in X]
                    rnd = {"n": step["n"], "askDraws": ask_draws, "X": props, "X_dicts_ok": not any(extra),
                           "hasTell": False, "results": [], "tellDraws": []}
                    rec["rounds"].append(rnd)
                    for j, x in enumerate(X):
                        obj = step["objs"][j % len(step["objs"])] if step["objs"] else 0.0
                        backlog.append((x, obj))
                    if step.get("no_tell"):
                        # ask again before any tell (public API; the search loop never does)
                        continue
                    # tell a subset now, the rest later (results of a search loop arrive out of step)
                    now, later = [], []
                    for j, item in enumerate(backlog):
                        (now if step["tell"][j % len(step["tell"])] else later).append(item)
                    if not now and backlog:
                        now, later = [backlog[0]], backlog[1:]
                    backlog = later
                    # results of configurations this search never asked for (evaluated elsewhere:
                    # the `other_results` of a shared storage, a warm start through tell)
                    now = now + [(dict(c), o) for c, o in step.get("foreign", [])]
                    stage = f"tell#{k}"
                    rnd["hasTell"] = True
                    rnd["results"] = [([x.get(nm, f"<missing {nm}>") for nm in rec["names"]], obj) for x, obj in now]
                    search.tell([Job(x, obj) for x, obj in now])
                    rnd["tellDraws"] = spy.take()
                    rnd["tellDone"] = True
            except Exception as e:
                rec["error"] = {"stage": stage.split("#")[0], "at": stage, "type": type(e).__name__,
                                "msg": str(e)[:300], "site": exc_site(e)}
                # draws of the failing op are dropped; the round (if any) stays without its tell
                if rec["rounds"] and not rec["rounds"][-1].get("tellDone"):
                    if stage.startswith("tell"):
                        rec["rounds"][-1]["hasTell"] = False
                        rec["rounds"][-1]["tellRaised"] = True
        return rec
    finally:
        shutil.rmtree(tmp, ignore_errors=True)


def run_search_loop(cell, spec, max_evals, objs):
    """Drive the real `search.search(max_evals)` with a serial evaluator; returns the parameters
    every job was run with (what the run-function sees) or the exception."""
    quiet()
    seen = []
    counter = {"k": 0}

    async def run(job):
        seen.append(dict(job.parameters))
        k = counter["k"]
        counter["k"] += 1
        return objs[k % len(objs)]

    tmp = tempfile.mkdtemp(prefix="g5_")
    out = {"seen": seen, "error": None, "not_accepted": None, "names": None}
    try:
        problem = build_problem(spec)
        out["names"] = list(problem.space.keys())
        np.random.seed(cell["seed"] % (2**31))
        try:
            search = make_search(cell, problem, tmp, run=run)
        except Exception as e:
            out["not_accepted"] = {"type": type(e).__name__, "msg": str(e)[:200], "site": exc_site(e)}
            return out
        try:
            search.search(max_evals=max_evals)
        except Exception as e:
            out["error"] = {"stage": "search", "at": f"search(max_evals={max_evals}) after {len(seen)} jobs",
                            "type": type(e).__name__, "msg": str(e)[:300], "site": exc_site(e)}
        return out
    finally:
        shutil.rmtree(tmp, ignore_errors=True)
        try:
            asyncio.set_event_loop(asyncio.new_event_loop())
        except Exception:
            pass


def run_cell(args):
    """run one cell against the real code (in a worker process); returns a JSON-able record"""
    from threadpoolctl import threadpool_limits

    with threadpool_limits(limits=1):  # OpenMP/BLAS pools make tiny fits 100x slower when oversubscribed
        return _run_cell1(args)


def _run_cell1(args):
    import time

    t0 = time.time()
    rec = _run_cell2(args)
    rec["secs"] = round(time.time() - t0, 2)
    return rec


def _run_cell2(args):
    cell, spec, script, mode = args
    quiet()
    if mode == "search":
        objs = [o for st in script for o in st["objs"]] or [0.0]
        out = run_search_loop(cell, spec, max_evals=min(12, 2 + sum(st["n"] for st in script) // 2), objs=objs)
        names = out["names"] or []
        rec = {"mode": "search", "names": names, "error": out["error"], "not_accepted": out["not_accepted"],
               "rounds": [{"n": len(out["seen"]), "askDraws": [], "X": [[d.get(nm) for nm in names] for d in out["seen"]],
                           "X_dicts_ok": all(sorted(d) == sorted(names) for d in out["seen"]),
                           "hasTell": False, "results": [], "tellDraws": []}] if out["seen"] else []}
        problem = build_problem(spec)
    else:
        rec = run_session(cell, spec, script)
        rec["mode"] = "asktell"
        problem = rec.pop("problem", None) or build_problem(spec)
    surrogate = cell.get("surrogate") if cell["search"] == "CBO" else ("DUMMY" if cell["search"] == "EDS" else None)
    try:
        rec["decl"] = decl_of(spec, problem, surrogate)
    except Exception as e:  # unknown surrogate names never get here (constructor rejects first)
        rec["decl"] = decl_of(spec, problem, None)
        rec["decl_note"] = f"{type(e).__name__}: {e}"
    if cell.get("design", "random") != "random" and not rec["not_accepted"]:
        try:
            from deephyper.hpo._problem import convert_to_skopt_space
            from deephyper.skopt.utils import cook_initial_point_generator

            sp = convert_to_skopt_space(problem.space, surrogate_model=surrogate)
            pts = cook_initial_point_generator(cell["design"]).generate(sp.dimensions, cell["n_initial"], random_state=0)
            rec["design_len"] = len(pts)
        except Exception:
            rec["design_len"] = cell["n_initial"]
    rec.pop("problem", None)
    # observed, not judged: values handed out as NumPy scalars (np.int64 for a declared int, ...).
    # The repo's own type tests accept them as "of the declared kind" (np.issubdtype(.., np.integer),
    # np.str_), so the membership oracle reads them by value — `enc` normalises them
    rec["numpy_values"] = sum(1 for r in rec["rounds"] for x in r["X"] for v in x if isinstance(v, np.generic))
    # make everything JSON-able / picklable
    for r in rec["rounds"]:
        r["X"] = [[plain(v) for v in x] for x in r["X"]]
        r["askDraws"] = [[[plain(v) for v in c] for c in d] for d in r["askDraws"]]
        r["tellDraws"] = [[[plain(v) for v in c] for c in d] for d in r["tellDraws"]]
        r["results"] = [([plain(v) for v in x], o) for x, o in r["results"]]
    return rec



def run_cells(ck, cells, inprocess=()):
    """run the cells against the real code in a pool of worker processes (each cell carries its
    own seed, so the result does not depend on the scheduling).  The cells whose index is in
    `inprocess` run in the check's own process, where the line-coverage probe of `main.py` sees
    them."""
    import concurrent.futures as cf
    import os

    workers = int(os.environ.get("VERIF_WORKERS", "0") or 0) or ck.pick(8, 14)
    if workers <= 1 or len(cells) <= 2:
        return [run_cell(c) for c in cells]
    inprocess = set(inprocess)
    pooled = [c for i, c in enumerate(cells) if i not in inprocess]
    with cf.ProcessPoolExecutor(max_workers=workers) as ex:
        fut = ex.map(run_cell, pooled, chunksize=max(1, len(pooled) // (workers * 6))) if pooled else iter(())
        local = {i: run_cell(cells[i]) for i in sorted(inprocess) if i < len(cells)}
        rest = list(fut)
    out, k = [], 0
    for i in range(len(cells)):
        if i in local:
            out.append(local[i])
        else:
            out.append(rest[k])
            k += 1
    return out


def classify_obj(obj):
    """how `CBO._tell` reads an objective"""
    import numbers

    if isinstance(obj, numbers.Number):
        return "val"
    if isinstance(obj, str) and obj[:1] == "F":
        return "fail"
    if isinstance(obj, (list, tuple)):
        if all(isinstance(o, numbers.Number) for o in obj):
            return "val"
        if any(isinstance(o, str) and o[:1] == "F" for o in obj):
            return "fail"
    return "other"


def _mixed_positions(decl):
    """positions of the numeric sequences that mix ints and floats"""
    out = []
    for i, h in enumerate(decl["hps"]):
        if h["dim"]["t"] == "cat":
            tags = {c[0] for c in h["dim"]["choices"]}
            if tags == {"i", "f"}:
                out.append(i)
    return out


def _as_float(v):
    return ["f", rat(float(v[1]))] if v[0] == "i" else v


def session_request(cell, decl, rec, univ=None):
    """The `session` request replaying `rec` through Model/Ask.lean.

    The session model compares configurations the way `_filter_duplicated` (pandas, object
    columns) does: numbers by value.  The only dimensions on which the same value comes in two
    Python kinds are numeric sequences mixing ints and floats (`1` from `Space.rvs`, `1.0` from
    the identity transformer): their values cross the pipe as floats (canonical form; the exact
    kind of every proposal is judged by the `mem` oracle, not here)."""
    mixed = _mixed_positions(decl)
    if mixed:
        decl = copy.deepcopy(decl)
        for i in mixed:
            h = decl["hps"][i]
            h["dim"]["choices"] = [_as_float(c) for c in h["dim"]["choices"]]
            if "enc" in h:
                h["enc"] = [_as_float(c) for c in h["enc"]]

    def cfg(x):
        e = enc_cfg(x)
        for i in mixed:
            if i < len(e):
                e[i] = _as_float(e[i])
        return e

    rounds = []
    for r in rec["rounds"]:
        rounds.append({
            "n": r["n"],
            "askDraws": [[cfg(c) for c in d] for d in r["askDraws"]],
            "X": [cfg(x) for x in r["X"]],
            "hasTell": bool(r["hasTell"]),
            "results": [[cfg(x), classify_obj(o)] for x, o in r["results"]],
            "tellDraws": [[cfg(c) for c in d] for d in r["tellDraws"]],
        })
    dummy = cell["search"] == "EDS" or cell.get("surrogate") == "DUMMY"
    strat = MAP_STRATEGY.get(cell.get("strategy", "cl_max"), cell.get("strategy", "cl_max"))
    req = {"op": "session", "decl": decl, "nInit": cell["n_initial"], "dummy": dummy,
           "filterOn": bool(cell.get("filter_duplicated", True)), "strategy": strat,
           "ignoreFailures": cell.get("filter_failures", "min") == "ignore",
           # lbfgs (GP) ends on points that are not sampled candidates
           "freeAllowed": cell.get("surrogate") == "GP",
           "rounds": rounds}
    if cell.get("design", "random") != "random":
        # the points of a pre-computed initial design are handed out first, in order: the first
        # L proposals *are* the design (observed, not predicted); L = number of points the
        # generator makes for this space (the grid design can make fewer than n_initial)
        flat = [x for r in rec["rounds"] for x in r["X"]]
        req["initSamples"] = [cfg(x) for x in flat[: rec.get("design_len", cell["n_initial"])]]
    elif cell.get("initial_points"):
        # initial points given by the user (random design): known exactly, handed out first
        req["initSamples"] = [cfg([p[nm] for nm in rec["names"]]) for p in cell["initial_points"]]
    if univ is not None:
        req["univ"] = [cfg(u) for u in univ]
    return req


# magnitudes of told objectives: (scale, offset).  Objectives are whatever the run-function returns:
# accuracies in [0, 1], losses reported as -loss around -1000, rewards of a few hundreds, tiny or
# huge values.  `Optimizer` sees them negated (and, for some surrogates, not rescaled).
OBJ_MAGNITUDES = [(1.0, 0.0), (1.0, 0.0), (100.0, 300.0), (30.0, -1000.0), (250.0, 0.0), (1e3, 0.0),
                  (1e6, 0.0), (1e-5, 0.0), (1.0, 1e4), (5e3, -2e4)]


def repeats_initial_point(k, req):
    """does the batch of round `k` of a session request hand out twice an initial point (given by
    the user or pre-computed by a design) that it also hands out as such?  Before the wave-3 fix
    of `Optimizer.ask` the random points completing a batch of initial points were not filtered
    against them; the model describes the repaired code and departs from such a batch."""
    if k >= len(req["rounds"]) or not req.get("initSamples"):
        return False
    X = [json.dumps(x) for x in req["rounds"][k]["X"]]
    init = {json.dumps(x) for x in req["initSamples"]}
    return any(X.count(x) > 1 and x in init for x in X)


def gen_script(rng, n_rounds, max_batch, fail_p=0.2, batches=None, again_p=0.0, moo=False, magnitude=None):
    scale, offset = magnitude or (1.0, 0.0)

    def mag(v):
        if (scale, offset) == (1.0, 0.0):
            return v
        return float(v) * scale + offset

    script = []
    for k in range(n_rounds):
        n = batches[k % len(batches)] if batches else rng.randint(1, max_batch)
        objs = []
        for _ in range(n):
            if rng.random() < fail_p:
                objs.append(rng.choice(["F", "F_timeout", "F_crash"]))
            elif moo:
                # two objectives (Optimizer._moo_scalarize)
                objs.append([mag(round(rng.uniform(-3, 3), 3)), mag(float(rng.randint(-2, 5)))])
            else:
                objs.append(mag(rng.choice([round(rng.uniform(-3, 3), 3), float(rng.randint(-2, 5)), rng.randint(-2, 5)])))
        tell = [rng.random() < 0.8 for _ in range(rng.randint(1, 4))]
        step = {"n": n, "objs": objs, "tell": tell}
        if again_p and k < n_rounds - 1 and rng.random() < again_p:
            step["no_tell"] = True
        script.append(step)
    return script


def cell_public(cell, spec, script):
    """JSON-able description of a case (replay file / evidence sample)."""
    return {"cell": dict(cell), "spec": copy.deepcopy(spec), "script": copy.deepcopy(script)}


# --------------------------------------------------------------------------- shrinking

BASELINE = {"surrogate": "ET", "acq": "UCB", "strategy": "cl_max", "design": "random",
            "filter_failures": "min"}


def shrink_case(cell, spec, script, still_fails, budget=14):
    """Greedy reduction of a failing case: options back to the baseline one at a time, fewer
    hyperparameters, fewer rounds, smaller batches — as long as `still_fails(cell, spec, script)`
    (same failure class) holds.  Bounded by `budget` re-runs."""
    cell, spec, script = dict(cell), copy.deepcopy(spec), copy.deepcopy(script)
    runs = [0]

    def ok(c, s, sc):
        if runs[0] >= budget:
            return False
        runs[0] += 1
        try:
            return bool(still_fails(c, s, sc))
        except HarnessError:
            raise
        except Exception:
            return False

    if cell["search"] == "CBO":
        for key in ["strategy", "acq", "design", "surrogate", "filter_failures"]:
            if cell.get(key, BASELINE[key]) != BASELINE[key]:
                c2 = dict(cell)
                c2[key] = BASELINE[key]
                if ok(c2, spec, script):
                    cell = c2
    # constraints first, then hyperparameters that nothing refers to
    if spec["forbs"]:
        s2 = copy.deepcopy(spec)
        s2["forbs"] = []
        if ok(cell, s2, script):
            spec = s2
    if spec["conds"]:
        s2 = copy.deepcopy(spec)
        s2["conds"] = []
        if ok(cell, s2, script):
            spec = s2
    if spec != BASE_SPEC and ok(cell, BASE_SPEC, script):
        spec = copy.deepcopy(BASE_SPEC)
    elif spec_is_tight(spec) and spec != BASE_TIGHT_SPEC and ok(cell, BASE_TIGHT_SPEC, script):
        # the failure needs a tightly forbidden space, not this particular one
        spec = copy.deepcopy(BASE_TIGHT_SPEC)
    for h in list(spec["hps"]):
        if len(spec["hps"]) <= 1:
            break
        used = set()
        for c in spec["conds"]:
            used.add(c["child"])
            used.update(_cond_parents(c["cond"]))
        for f in spec["forbs"]:
            used.update(_forb_hps(f))
        if h["name"] in used:
            continue
        s2 = copy.deepcopy(spec)
        s2["hps"] = [x for x in s2["hps"] if x["name"] != h["name"]]
        if ok(cell, s2, script):
            spec = s2
    while len(script) > 1:
        sc2 = script[:-1]
        if ok(cell, spec, sc2):
            script = sc2
        else:
            break
    return cell, spec, script


def _forb_hps(f):
    if f["op"] == "and":
        return _forb_hps(f["a"]) + _forb_hps(f["b"])
    if f["op"] == "rel":
        return [f["a"], f["b"]]
    return [f["hp"]]


BASE_SPEC = {"hps": [{"name": "h0", "kind": "float", "lo": 0.0, "hi": 1.0, "log": False}], "conds": [], "forbs": []}


# the baseline *tightly forbidden* space: two integers of 100 values forced equal (99 % of the box
# forbidden) and a float that is active for one value of the first
BASE_TIGHT_SPEC = {"hps": [{"name": "a", "kind": "int", "lo": 0, "hi": 99, "log": False},
                           {"name": "b", "kind": "int", "lo": 0, "hi": 99, "log": False},
                           {"name": "c", "kind": "float", "lo": 0.5, "hi": 2.0, "log": False}],
                   "conds": [{"child": "c", "cond": {"op": "eq", "parent": "a", "value": 0}}],
                   "forbs": [{"op": "rel", "cmp": "lt", "a": "a", "b": "b"}, {"op": "rel", "cmp": "gt", "a": "a", "b": "b"}]}


def spec_kinds(spec):
    kinds = set()
    for h in spec["hps"]:
        if h["kind"] in ("int", "float"):
            kinds.add(h["kind"] + ("-log" if h.get("log") else ""))
        elif h["kind"] == "cat":
            kinds.add("cat-" + ("mixed" if len({type(c) for c in h["choices"]}) > 1 else
                                "bool" if isinstance(h["choices"][0], bool) else "str"))
        elif h["kind"] == "ord":
            kinds.add("ord-" + ord_kind(h["choices"]))
        else:
            kinds.add("const")
    return kinds


def ord_kind(choices):
    """'int' / 'float' / 'mixed' (ints and floats in one sequence)"""
    ints = [isinstance(v, int) and not isinstance(v, bool) for v in choices]
    return "int" if all(ints) else ("mixed" if any(ints) else "float")


def requirements(cell, spec, option_keys=("surrogate", "acq", "strategy", "design", "filter_failures"), base=None):
    """What a (shrunk) failing case still needs in order to fail: the option values that could
    not be reset to the baseline and the input class of the problem."""
    base = base or BASELINE
    req = {"options": {}, "kinds": [], "conditions": bool(spec["conds"]), "forbidden": bool(spec["forbs"])}
    if cell["search"] != "CBO":
        req["options"]["search"] = cell["search"]
    if cell["search"] == "CBO":
        for key in option_keys:
            if cell.get(key, base[key]) != base[key]:
                req["options"][key] = cell[key]
    if spec == BASE_TIGHT_SPEC:
        # the failure survived the substitution of the baseline tightly forbidden space: it needs
        # a tightly forbidden space (with a condition), not particular kinds of hyperparameters
        req["tight"] = True
    elif spec != BASE_SPEC:
        req["kinds"] = sorted(spec_kinds(spec))
    return req


def satisfies(cell, spec, req, base=None):
    base = base or BASELINE
    for k, v in req["options"].items():
        if cell.get(k, base.get(k, "CBO" if k == "search" else None)) != v:
            return False
    if req["kinds"] and not set(req["kinds"]) <= spec_kinds(spec):
        return False
    if req.get("tight") and not spec_is_tight(spec):
        return False
    if req["conditions"] and not spec["conds"]:
        return False
    if req["forbidden"] and not spec["forbs"]:
        return False
    return True


def req_tags(req):
    tags = [f"{k}={v}" for k, v in req["options"].items()]
    if req["kinds"]:
        tags.append("dims=" + "+".join(req["kinds"]))
    if req.get("tight"):
        tags.append("space=tightly-forbidden")
    if req["conditions"]:
        tags.append("conditions")
    if req["forbidden"]:
        tags.append("forbidden")
    return ",".join(tags) if tags else "baseline"


def fingerprint_groups(groups, shrink_job, max_workers=8, max_iters=5, sat=None, fallback=None):
    """groups: {base key: [failing cases (dict with cell/spec/script/mode...)]}.
    Repeatedly shrinks the first unexplained case of every group (in parallel); the minimal
    requirements found explain every other case of the group that has them.  Returns a list of
    (base key, requirements, shrunk case, [explained cases])."""
    import concurrent.futures as cf

    out = []
    remaining = {k: list(v) for k, v in groups.items()}
    for _ in range(max_iters):
        jobs = [(k, v[0]) for k, v in remaining.items() if v]
        if not jobs:
            break
        with cf.ProcessPoolExecutor(max_workers=max(1, min(len(jobs), max_workers))) as ex:
            results = list(ex.map(shrink_job, jobs))
        for (k, first), (req, shrunk) in zip(jobs, results):
            sat_ = sat or (lambda c, r: satisfies(c["cell"], c["spec"], r))
            expl = [c for c in remaining[k] if c is first or sat_(c, req)]
            remaining[k] = [c for c in remaining[k] if not any(c is e for e in expl)]
            out.append((k, req, shrunk, expl))
    for k, v in remaining.items():  # not reached in practice: fall back on the unshrunk options
        for c in v:
            out.append((k, (fallback or (lambda c: requirements(c["cell"], c["spec"])))(c), c, [c]))
    return out


